"""C07 — every change of variables reports its true log-Jacobian and inverse (DESIGN 4, C07).

Contract for every transform T shipped as invertible (bijective = True):
   y = T(x);  J = ∂y/∂x (symbolic differentiation of the result terms of the REAL `_call`)
   ensures  det(J)^2 ≡ exp(2 · T.log_abs_det_jacobian(x, y))        (|det J| = exp(ladj), both positive)
   ensures  T.inv(y) ≡ x
 and for TransformedParameter / ReparameterizedTimeTreeModel: calling the object returns that log-Jacobian for the
 *current* value of the underlying parameter (also after an update through the public setter).
In concrete mode (cross-check / replay) J is torch.autograd.functional.jacobian of the real forward map.
"""
import ast
import itertools
import math
import random

import numpy as np
import torch

from specs import treemodels, trees
from vt import nf
from vt.runner import Ob, Refuted
from vt.scenario import el, scenario_ob, sexp
from vt.stubs import symbolic_factories
from vt.symtorch import ST, _det2d

FUNCS = [
    "torchtree.distributions.transforms:CumSumTransform._call",
    "torchtree.distributions.transforms:CumSumTransform._inverse",
    "torchtree.distributions.transforms:CumSumTransform.log_abs_det_jacobian",
    "torchtree.distributions.transforms:CumSumExpTransform._call",
    "torchtree.distributions.transforms:CumSumExpTransform._inverse",
    "torchtree.distributions.transforms:CumSumExpTransform.log_abs_det_jacobian",
    "torchtree.distributions.transforms:SoftPlusTransform._call",
    "torchtree.distributions.transforms:SoftPlusTransform._inverse",
    "torchtree.distributions.transforms:SoftPlusTransform.log_abs_det_jacobian",
    "torchtree.distributions.transforms:CumSumSoftPlusTransform._call",
    "torchtree.distributions.transforms:CumSumSoftPlusTransform._inverse",
    "torchtree.distributions.transforms:CumSumSoftPlusTransform.log_abs_det_jacobian",
    "torchtree.distributions.transforms:LogTransform._call",
    "torchtree.distributions.transforms:LogTransform._inverse",
    "torchtree.distributions.transforms:LogTransform.log_abs_det_jacobian",
    "torchtree.distributions.transforms:TrilExpDiagonalTransform._call",
    "torchtree.distributions.transforms:TrilExpDiagonalTransform._inverse",
    "torchtree.distributions.transforms:TrilExpDiagonalTransform.log_abs_det_jacobian",
    "torchtree.evolution.rate_transform:LogDifferenceRateTransform._call",
    "torchtree.evolution.rate_transform:LogDifferenceRateTransform._inverse",
    "torchtree.evolution.rate_transform:LogDifferenceRateTransform.log_abs_det_jacobian",
    "torchtree.evolution.tree_height_transform:GeneralNodeHeightTransform._call",
    "torchtree.evolution.tree_height_transform:GeneralNodeHeightTransform._inverse",
    "torchtree.evolution.tree_height_transform:GeneralNodeHeightTransform.log_abs_det_jacobian",
    "torchtree.evolution.tree_height_transform:GeneralNodeHeightTransform.sort_indices",
    "torchtree.evolution.tree_height_transform:DifferenceNodeHeightTransform._call",
    "torchtree.evolution.tree_height_transform:DifferenceNodeHeightTransform._inverse",
    "torchtree.evolution.tree_height_transform:DifferenceNodeHeightTransform.log_abs_det_jacobian",
    "torchtree.core.parameter:TransformedParameter.__call__",
    "torchtree.core.parameter:TransformedParameter.tensor",
    "torchtree.evolution.tree_model:ReparameterizedTimeTreeModel._call",
]

META = {
    "level": "other",
    "explanation": "Every point of the domain at once (inputs symbolic); the Jacobian is the exact symbolic derivative of the terms "
                   "the real forward map produced, its determinant is expanded exactly and compared with exp(2·ladj). Dimensions "
                   "and tree shapes are enumerated (vector length 1..5, every topology up to 5 taxa, batch ranks 1..2). "
                   "torch's own transforms (Exp, Sigmoid, Affine, StickBreaking) are dependencies with assumed contracts.",
    "bound": "vector length 1..4 quick / 1..6,8 thorough; node-height transforms on all topologies T<=4 quick / all T<=5 + 63 of the 945 T=6 topologies thorough; triangular-exp dim<=3",
    "trusted_base": [
        "symbolic differentiation rules of vt.nf.diff (chain rule per function symbol) as the meaning of 'automatic-differentiation Jacobian'; cross-checked numerically against torch.autograd.functional.jacobian on every run",
        "torch.autograd.functional.jacobian inside CumSumExpTransform.log_abs_det_jacobian replaced by the contract 'returns the Jacobian of the closure'",
        "torch.distributions transforms (Exp, Sigmoid, Affine, StickBreaking...) not verified",
        "real arithmetic",
    ],
    "assumptions": ["machine arithmetic treated as mathematical (reals)"],
}

MANIFEST = {
    "category": "other",
    "text": "For each shipped invertible transform the real forward map is run on symbolic input, differentiated exactly, and "
            "|det J| = exp(log_abs_det_jacobian) and inverse∘forward = id are proved as identities valid at every point of the domain, "
            "for every enumerated dimension / tree shape / batch rank; TransformedParameter() and ReparameterizedTimeTreeModel() are "
            "shown to return that term for the current value. Dimension-bounded, torch's own transforms assumed.",
    "note": "Bounded in dimension and tree size; reals; symbolic differentiation stands for autograd (numerically cross-checked every run).",
    "technique": "sidecar contracts + symbolic execution of the real transforms + exact symbolic Jacobian determinant vs reported log-Jacobian (normal form)",
}

NAMES = ["A", "B", "C", "D", "E", "F"]


def _jac_claims(mk, x, y, ladj, forward, name="ladj"):
    """x, y: 1-d (unbatched) tensors; returns claim det(J)^2 ≡ exp(2 ladj)"""
    n_in = x.shape[-1]
    yf = y.reshape(-1) if not isinstance(y, ST) else ST(y.a.reshape(-1))
    n_out = yf.shape[0]
    if n_in != n_out:
        return [("true", name + "_square_jacobian", False, "in %d out %d" % (n_in, n_out))]
    if mk.symbolic:
        J = np.empty((n_out, n_in), dtype=object)
        for i in range(n_out):
            for j in range(n_in):
                v = x.a[j]
                vn = nf.ATOMS.atoms[list(v.atoms())[0]][1] if len(v.atoms()) == 1 else None
                J[i, j] = nf.diff(yf.a[i], vn)
        det = _det2d(J)
        lhs = det * det
        rhs = nf.rexp(2 * el(ladj, ()))
    else:
        Jt = torch.autograd.functional.jacobian(lambda t: forward(t).reshape(-1), x)
        det = float(torch.linalg.det(Jt))
        lhs = det * det
        rhs = float(torch.exp(2 * ladj))
    return [("eq", name + "_is_log_abs_det_of_true_jacobian", [lhs], [rhs])]


def _sym_jacobian_stub(f, x, *a, **k):
    """contract of torch.autograd.functional.jacobian(f, x): the Jacobian of the closure at x"""
    y = f(x)
    ya = y.a.reshape(-1)
    xa = x.a.reshape(-1)
    J = np.empty((len(ya), len(xa)), dtype=object)
    for i in range(len(ya)):
        for j in range(len(xa)):
            vn = nf.ATOMS.atoms[list(xa[j].atoms())[0]][1]
            J[i, j] = nf.diff(ya[i], vn)
    return ST(J.reshape(tuple(y.shape) + tuple(x.shape)))


def make_transform(kind, extra=None):
    import torchtree.distributions.transforms as tr
    return {"cumsum": tr.CumSumTransform, "cumsumexp": tr.CumSumExpTransform, "softplus": tr.SoftPlusTransform,
            "cumsumsoftplus": tr.CumSumSoftPlusTransform, "log": tr.LogTransform, "trilexp": tr.TrilExpDiagonalTransform}[kind]()


DOMAIN = {"cumsum": (None, None), "cumsumexp": (None, None), "softplus": (None, None), "cumsumsoftplus": (None, None),
          "log": (0, None), "trilexp": (None, None)}


def scn_vector(kind, n, batch):
    batch = tuple(batch)

    def scn(mk):
        import torchtree.distributions.transforms as tr
        lo, hi = DOMAIN[kind]
        t = make_transform(kind)
        x = mk.real("x", batch + (n,), lo=lo, hi=hi)
        saved = tr.jacobian
        if mk.symbolic:
            tr.jacobian = _sym_jacobian_stub
        try:
            with symbolic_factories(tr, enabled=mk.symbolic):
                y = t(x)
                ladj = t.log_abs_det_jacobian(x, y)
                back = t.inv(y)
        finally:
            tr.jacobian = saved
        cl = []
        want_shape = batch
        if tuple(ladj.shape) == tuple(x.shape) and kind in ("softplus", "log"):
            # elementwise transform (torch convention: elementwise log-Jacobian); the determinant term is its sum
            ladj = ladj.sum(-1)
        cl.append(("true", "ladj_shape", tuple(ladj.shape) == want_shape, "%s vs %s" % (tuple(ladj.shape), want_shape)))
        cl.append(("true", "inverse_shape", tuple(back.shape) == tuple(x.shape), "%s vs %s" % (tuple(back.shape), tuple(x.shape))))
        if tuple(back.shape) == tuple(x.shape):
            cl.append(("eq", "inverse_of_forward_is_identity", back, x))
        if tuple(ladj.shape) == want_shape:
            for bix in itertools.product(*[range(s) for s in batch]):
                xb, yb, lb = x[bix] if bix else x, y[bix] if bix else y, ladj[bix] if bix else ladj
                cl += _jac_claims(mk, xb, yb, lb, lambda z: t(z), "ladj%s" % (list(bix) if bix else ""))
        return cl
    return scn


def scn_trilexp(dim):
    def scn(mk):
        import torchtree.distributions.transforms as tr
        t = tr.TrilExpDiagonalTransform()
        n = dim * (dim + 1) // 2
        x = mk.real("x", (n,))
        with symbolic_factories(tr, enabled=mk.symbolic):
            y = t(x)
            back = t.inv(y)
            # restricted to the free (lower-triangular) coordinates the map is a bijection R^n -> its image
            tri = torch.tril_indices(dim, dim)
            yfree = y[tri[0], tri[1]]
            try:
                ladj = t.log_abs_det_jacobian(x, y)
            except NotImplementedError:
                ladj = None   # reported once by C07.ladj_defined[TrilExpDiagonalTransform]
        cl = [("eq", "inverse_of_forward_is_identity", back, x)]
        if ladj is not None:
            cl += _jac_claims(mk, x, yfree, ladj, lambda z: t(z)[tri[0], tri[1]])
        return cl
    return scn


def scn_nodeheight(tree_s, pattern, kind, batch, k=0):
    """k > 0 (shifts only): the documented smooth-max option of DifferenceNodeHeightTransform"""
    tree = ast.literal_eval(tree_s)
    T = tree_s.count(",") + 1
    names = NAMES[:T]
    dates = treemodels.DATE_PATTERNS[pattern](T)
    ages = treemodels.ages_of(dates)
    batch = tuple(batch)

    def scn(mk):
        if kind == "ratios":
            ratios = mk.unit("r", batch + (T - 2,)) if T > 2 else None
            root = mk.above("root", batch + (1,), max(ages))
            x = torch.cat((ratios, root), -1) if ratios is not None else root
        else:
            x = mk.real("d", batch + (T - 1,), lo=0)
        tm, newick = treemodels.build_reparam(tree, names, dates, x, kind)
        if k > 0:
            from torchtree.evolution.tree_height_transform import DifferenceNodeHeightTransform
            tm.transform = DifferenceNodeHeightTransform(tm, k)
        t = tm.transform
        y = t(x)
        ladj = t.log_abs_det_jacobian(x, y)
        model_value = tm()   # ReparameterizedTimeTreeModel._call
        cl = [("true", "ladj_shape", tuple(ladj.shape) == batch, "%s vs %s" % (tuple(ladj.shape), batch))]
        cl.append(("eq", "tree_model_call_returns_ladj", model_value, ladj))
        back = t.inv(y)
        cl.append(("true", "inverse_shape", tuple(back.shape) == tuple(x.shape), "%s vs %s" % (tuple(back.shape), tuple(x.shape))))
        if tuple(back.shape) == tuple(x.shape):
            cl.append(("eq", "inverse_of_forward_is_identity", back, x))
        if tuple(ladj.shape) == batch:
            if mk.symbolic:
                # differentiate w.r.t. the underlying free variables (u for ratios, s for root); chain rule factor
                # d(x)/d(free) is diagonal and is divided out exactly
                for bix in itertools.product(*[range(s) for s in batch]):
                    xb = x[bix] if bix else x
                    yb = y[bix] if bix else y
                    lb = ladj[bix] if bix else ladj
                    n = T - 1
                    J = np.empty((n, n), dtype=object)
                    chain = nf.ONE
                    names_free = []
                    for j in range(n):
                        ats = [a for a in nf.all_atoms(xb.a[j]) if nf.ATOMS.atoms[a][0] == "var"]
                        assert len(ats) == 1
                        vn = nf.ATOMS.atoms[ats[0]][1]
                        names_free.append(vn)
                        chain = chain * nf.diff(xb.a[j], vn)
                    for i in range(n):
                        for j in range(n):
                            J[i, j] = nf.diff(yb.a[i], names_free[j])
                    det = _det2d(J) / chain
                    cl.append(("eq", "ladj_is_log_abs_det_of_true_jacobian%s" % (list(bix) if bix else ""), [det * det], [nf.rexp(2 * el(lb, ()))]))
            else:
                for bix in itertools.product(*[range(s) for s in batch]):
                    xb = x[bix] if bix else x
                    lb = ladj[bix] if bix else ladj
                    Jt = torch.autograd.functional.jacobian(lambda z: t(z), xb)
                    det = float(torch.linalg.det(Jt))
                    cl.append(("eq", "ladj_is_log_abs_det_of_true_jacobian%s" % (list(bix) if bix else ""), [det * det], [float(torch.exp(2 * lb))]))
        return cl
    return scn


def scn_logdiff(tree_s, batch):
    tree = ast.literal_eval(tree_s)
    T = tree_s.count(",") + 1
    names = NAMES[:T]
    batch = tuple(batch)

    def scn(mk):
        import torchtree.evolution.rate_transform as rt
        hs = torch.arange(1, T, dtype=torch.float64) + 1.0
        tm, newick = treemodels.build_timetree(tree, names, [0.0] * T, hs)
        t = rt.LogDifferenceRateTransform(tm)
        x = mk.real("rate", batch + (2 * T - 2,), lo=0)
        with symbolic_factories(rt, enabled=mk.symbolic):
            y = t(x)
            ladj = t.log_abs_det_jacobian(x, y)
        cl = [("true", "ladj_shape", tuple(ladj.shape) == batch, "%s vs %s" % (tuple(ladj.shape), batch))]
        for bix in itertools.product(*[range(s) for s in batch]):
            xb, yb, lb = (x[bix], y[bix], ladj[bix]) if bix else (x, y, ladj)
            cl += _jac_claims(mk, xb, yb, lb, lambda z: t(z), "ladj%s" % (list(bix) if bix else ""))
        try:
            back = t.inv(y)
            cl.append(("eq", "inverse_of_forward_is_identity", back, x))
        except NotImplementedError:
            pass   # reported once by C07.inverse_defined[LogDifferenceRateTransform]
        return cl
    return scn


def scn_transformed_parameter(kind, n):
    """TransformedParameter() returns the log-Jacobian for its CURRENT value"""
    def scn(mk):
        import torchtree.distributions.transforms as tr
        from torchtree.core.parameter import Parameter, TransformedParameter
        lo, hi = DOMAIN[kind]
        x1 = mk.real("x1", (n,), lo=lo, hi=hi)
        x2 = mk.real("x2", (n,), lo=lo, hi=hi)
        saved = tr.jacobian
        if mk.symbolic:
            tr.jacobian = _sym_jacobian_stub
        try:
            t = make_transform(kind)
            base = Parameter("x", x1)
            tp = TransformedParameter("y", base, t)
            v1 = tp()
            want1 = t.log_abs_det_jacobian(x1, t(x1))
            base.tensor = x2          # public update
            v2 = tp()
            y2 = tp.tensor
            want2 = t.log_abs_det_jacobian(x2, t(x2))
        finally:
            tr.jacobian = saved
        return [("eq", "call_returns_ladj_initial", v1, want1),
                ("eq", "call_returns_ladj_after_update", v2, want2),
                ("eq", "tensor_is_transform_of_current_value", y2, t(x2))]
    return scn


def tp_tensor_before(t, x):
    return t(x)


def scn_transformed_parameter_shared(kind, how):
    """TransformedParameter() returns the log-Jacobian for its CURRENT value when the underlying parameter is changed through ANOTHER
    consumer of the same base: how = 'view' (assignment through a ViewParameter of the base), 'sibling' (assignment to a second
    TransformedParameter built on a view: the inverse path writes the base), 'cat' (the base is one piece of a CatParameter)."""
    def scn(mk):
        import torchtree.distributions.transforms as tr
        from torchtree.core.parameter import CatParameter, Parameter, TransformedParameter, ViewParameter
        lo, hi = DOMAIN[kind]
        n = 3
        x1 = mk.real("x1", (n,), lo=lo, hi=hi)
        x2 = mk.real("x2", (2,), lo=lo, hi=hi)
        saved = tr.jacobian
        if mk.symbolic:
            tr.jacobian = _sym_jacobian_stub
        try:
            t = make_transform(kind)
            base = Parameter("x", x1)
            if how == "cat":
                other = Parameter("o", mk.real("o", (1,), lo=lo, hi=hi))
                under = CatParameter("c", [base, other], -1)
            else:
                under = base
            tp = TransformedParameter("y", under, t)
            tp()
            _ = tp.tensor
            if how in ("view_of_transformed", "put_back"):
                # (i) a ViewParameter OVER the transformed parameter (what the command line builds for the root height of `--heights shift`):
                # assigning through it must move the base to the inverse of the new transformed value; (ii) an earlier transformed value,
                # kept by the caller, assigned back after the base has moved
                t_ref = make_transform(kind)
                if how == "view_of_transformed":
                    y_new = t_ref(torch.cat((x1[:1], x2), -1))
                    ViewParameter("vy", tp, slice(1, 3)).tensor = y_new[..., 1:3]
                    want_x = t_ref.inv(torch.cat((tp_tensor_before(t_ref, x1)[..., :1], y_new[..., 1:3]), -1))
                else:
                    old = tp.tensor
                    base.tensor = torch.cat((x2, x1[2:]), -1)
                    tp.tensor = old
                    want_x = x1
                got = tp()
                y_now = tp.tensor
                return [("eq", "base_is_inverse_of_the_assigned_value", base.tensor, want_x),
                        ("eq", "call_returns_ladj_of_current_value", got, t_ref.log_abs_det_jacobian(base.tensor, t_ref(base.tensor))),
                        ("eq", "tensor_is_transform_of_current_value", y_now, t_ref(base.tensor))]
            view = ViewParameter("v", base, slice(0, 2))
            if how in ("view", "cat"):
                view.tensor = x2
            else:
                t2 = make_transform(kind)
                sib = TransformedParameter("y2", view, t2)
                _ = sib.tensor
                sib.tensor = t2(x2)           # inverse path: writes x2 into the base through the view
            cur = torch.cat((x2, x1[2:]), -1)
            if how == "cat":
                cur = torch.cat((cur, other.tensor), -1)
            got = tp()
            y_now = tp.tensor
            want = t.log_abs_det_jacobian(cur, t(cur))
        finally:
            tr.jacobian = saved
        return [("eq", "base_holds_the_assigned_values", base.tensor[..., :2], x2),
                ("eq", "call_returns_ladj_of_current_value", got, want),
                ("eq", "tensor_is_transform_of_current_value", y_now, t(cur))]
    return scn


def ob_setter_aliasing(kind):
    """y handed to `tp.tensor = y` is the caller's tensor (a scratch buffer that is reused, a row of a larger matrix): writing into it
    afterwards is not an update of the model. TransformedParameter keeps x = inv(y); its value and log-Jacobian stay those of x."""
    def body():
        from torchtree.core.parameter import Parameter, TransformedParameter
        lo, hi = DOMAIN[kind]
        g = torch.Generator().manual_seed(11)
        n = 0
        for trial in range(4):
            x0 = torch.rand(3, generator=g, dtype=torch.float64) + 0.2
            x1 = torch.rand(3, generator=g, dtype=torch.float64) + 0.3
            t = make_transform(kind)
            base = Parameter("x", x0.clone())
            tp = TransformedParameter("y", base, t)
            if trial % 2:
                tp(), tp.tensor
            buf = make_transform(kind)(x1).clone()
            tp.tensor = buf
            x_after = base.tensor.detach().clone()
            with torch.no_grad():
                buf.mul_(1.75).add_(0.125)          # the caller goes on using its own buffer
            y_now = tp.tensor.detach().clone()
            got = tp()
            want_y = t(base.tensor)
            want = t.log_abs_det_jacobian(base.tensor, want_y)
            n += 1
            for what, a, b in (("base parameter", base.tensor, x1), ("base parameter (unchanged by the caller's later write)", base.tensor, x_after),
                               ("tensor", y_now, want_y), ("inverse of tensor", t.inv(y_now), base.tensor)):
                if not torch.allclose(a, b, rtol=1e-10, atol=1e-12):
                    raise Refuted("%s after `tp.tensor = buf` and an in-place write into buf by the caller: %s is %s, transform/inverse of the current base gives %s" % (
                        kind, what, a.tolist(), b.tolist()), witness={"kind": kind, "x1": x1.tolist(), "trial": trial}, confirmed=True,
                        replay={"kind": "custom", "contract": "C07", "func": "replay_setter_aliasing", "args": {"kind": kind}})
            if not torch.allclose(got.sum(), want.sum(), rtol=1e-10, atol=1e-12):
                raise Refuted("%s: TransformedParameter() returns %s, the log-Jacobian at its current value is %s (after the caller wrote into the buffer it had assigned)" % (
                    kind, got.tolist(), want.tolist()), witness={"kind": kind, "x1": x1.tolist(), "trial": trial}, confirmed=True,
                    replay={"kind": "custom", "contract": "C07", "func": "replay_setter_aliasing", "args": {"kind": kind}})
        return {"backend": "enum", "cases": n, "bounded": "4 random points, float64",
                "statement": "%s: after tp.tensor = buf, later in-place writes of the caller into buf change neither tp.tensor, nor inv(tp.tensor) = x, nor tp()" % kind}
    return Ob("C07.transformed_parameter.setter_aliasing[%s]" % kind, "B", body, clause="the assigned tensor is not kept (bounded)", funcs=FUNCS)


def replay_setter_aliasing(args):
    try:
        ob_setter_aliasing(args["kind"]).fn()
    except Refuted as e:
        return False, str(e)
    return True, "not reproduced"


def ob_from_json_options():
    """TransformedParameter.from_json: the options of the transform written in the specification by NAME reach the constructor argument
    of that name (whatever subset is given), so that the object reports the value and log-Jacobian of the transform that was specified"""
    def body():
        from torchtree.core.parameter import TransformedParameter
        cases = [
            ("torch.distributions.AffineTransform", {"loc": 1.0, "scale": 2.0}),
            ("torch.distributions.AffineTransform", {"loc": 1.0, "scale": 2.0, "cache_size": 1}),
            ("torch.distributions.AffineTransform", {"loc": 0.5, "scale": 3.0, "event_dim": 1}),
            ("torch.distributions.AffineTransform", {"scale": 3.0, "loc": 0.5, "event_dim": 0, "cache_size": 1}),
            ("torch.distributions.PowerTransform", {"exponent": 2.0}),
            ("torch.distributions.PowerTransform", {"exponent": 2.0, "cache_size": 1}),
            ("torch.distributions.ExpTransform", {"cache_size": 1}),
            ("torch.distributions.SigmoidTransform", {}),
        ]
        n = 0
        for path, opts in cases:
            spec = {"id": "t", "type": "TransformedParameter", "transform": path, "x": {"id": "x", "type": "Parameter", "tensor": [0.3, 1.2, 0.7], "dtype": "torch.float64"}}
            if opts:
                spec["parameters"] = dict(opts)
            tp = TransformedParameter.from_json(spec, {})
            mod, _, cls = path.rpartition(".")
            import importlib
            ref = getattr(importlib.import_module(mod), cls)(**opts)
            x = torch.tensor([0.3, 1.2, 0.7], dtype=torch.float64)
            y = ref(x)
            want = ref.log_abs_det_jacobian(x, y)
            got = tp()
            n += 1
            if tuple(got.shape) != tuple(want.shape) or not torch.allclose(got, want, rtol=1e-12, atol=1e-12) or not torch.allclose(tp.tensor, y, rtol=1e-12, atol=1e-12):
                raise Refuted("TransformedParameter.from_json with transform %s and parameters %s: () returns %s (shape %s), the transform with these options has log-Jacobian %s (shape %s)" % (
                    path, opts, got.tolist(), tuple(got.shape), want.tolist(), tuple(want.shape)), witness={"transform": path, "parameters": opts}, confirmed=True,
                    replay={"kind": "custom", "contract": "C07", "func": "replay_from_json_options", "args": {}})
            for k_, v_ in opts.items():
                have = getattr(tp.transform, k_, getattr(tp.transform, "_" + k_, None))
                if have is not None and not isinstance(have, torch.Tensor) and have != v_:
                    raise Refuted("TransformedParameter.from_json with transform %s and parameters %s: the transform was built with %s = %r" % (path, opts, k_, have),
                                  witness={"transform": path, "parameters": opts}, confirmed=True,
                                  replay={"kind": "custom", "contract": "C07", "func": "replay_from_json_options", "args": {}})
        return {"backend": "concrete", "cases": n, "bounded": "%d transform / option-subset combinations" % n,
                "statement": "the transform built by TransformedParameter.from_json is the transform with the named options"}
    return Ob("C07.transformed_parameter.from_json_options", "B", body, clause="the log-Jacobian reported is that of the transform written in the specification (bounded)", funcs=FUNCS)


def replay_from_json_options(args):
    try:
        ob_from_json_options().fn()
    except Refuted as e:
        return False, str(e)
    return True, "not reproduced"


# range of the arithmetic: round trip and log-Jacobian over the whole range a float can take in the transform's domain (the symbolic
# obligations above decide the identities over the reals; these decide that the way they are spelled survives rounding)
_RANGE_X = [-700.0, -300.0, -100.0, -38.0, -30.0, -25.0, -10.0, -1.0, 0.0, 1.0, 10.0, 19.9, 20.5, 36.0, 100.0, 500.0, 750.0]


def _range_problems(kind, dtype_name):
    import mpmath
    from torchtree.distributions import transforms as T
    mpmath.mp.dps = 50
    dt = getattr(torch, dtype_name)
    t = {"softplus": T.SoftPlusTransform, "cumsumsoftplus": T.CumSumSoftPlusTransform, "cumsumexp": T.CumSumExpTransform, "log": T.LogTransform}[kind]()
    lim = 700.0 if dt == torch.float64 else 80.0
    tol = 1e-8 if dt == torch.float64 else 4e-6     # torch.nn.functional.softplus itself switches to the identity above 20 (error < exp(-20) = 2e-9)
    bad = []
    xs = [v for v in _RANGE_X if abs(v) <= lim or (kind in ("softplus", "cumsumsoftplus") and v > 0 and dt == torch.float64)]
    if kind == "log":
        pts = [[math.exp(v)] for v in xs if abs(v) <= lim]
    elif kind == "softplus":
        pts = [[v] for v in xs]
    else:
        # cumulative transforms: the partial sums sweep the range
        pts = [[v, 0.5] for v in xs] + [[1.0, v - 1.0] for v in xs]
        if kind == "cumsumexp":
            pts = [p_ for p_ in pts if all(abs(c) <= lim for c in (p_[0], p_[0] + p_[1]))]
    for p_ in pts:
        x = torch.tensor(p_, dtype=dt)
        y = t(x)
        back = t.inv(y)
        ok = bool(torch.isfinite(back).all()) and all(abs(float(b) - float(a)) <= tol * max(1.0, abs(float(a))) for a, b in zip(x, back))
        if not ok:
            bad.append("inv(forward(%s)) = %s (forward value %s)" % (p_, back.tolist(), y.tolist()))
            continue
        # log-Jacobian against the exact derivative in 50-digit arithmetic (diagonal of a triangular Jacobian)
        sums = list(itertools.accumulate([mpmath.mpf(float(c)) for c in x])) if kind.startswith("cumsum") else [mpmath.mpf(float(c)) for c in x]
        if kind in ("softplus", "cumsumsoftplus"):
            want = sum(-mpmath.log1p(mpmath.exp(-s_)) for s_ in sums)
        elif kind == "cumsumexp":
            want = sum(sums)
        else:
            want = sum(-mpmath.log(s_) for s_ in sums)
        got = t.log_abs_det_jacobian(x, y)
        got = float(got.sum())
        if not (abs(got - float(want)) <= 10 * tol * max(1.0, abs(float(want)))):
            bad.append("log|det J| at %s is %r, exact %.12g" % (p_, got, float(want)))
    return bad, len(pts)


def ob_range(kind, dtype_name):
    def body():
        bad, n = _range_problems(kind, dtype_name)
        if bad:
            raise Refuted("%s transform, %s: %s" % (kind, dtype_name, "; ".join(bad[:3])), witness={"kind": kind, "dtype": dtype_name, "problems": bad[:10]},
                          replay={"kind": "custom", "contract": "C07", "func": "replay_range", "args": {"kind": kind, "dtype": dtype_name}}, confirmed=True)
        return {"backend": "concrete (real torch vs 50-digit arithmetic)", "cases": n, "bounded": "grid %s" % _RANGE_X,
                "statement": "%s, %s: inverse∘forward returns the input and the log-Jacobian equals the exact one on %d points spanning the float range of the domain" % (kind, dtype_name, n)}
    return Ob("C07.range.%s[%s]" % (kind, dtype_name), "B", body, clause="inverse after forward returns the input and the log-Jacobian is the true one at every point of the domain (float range, bounded grid)", funcs=FUNCS)


def replay_range(args):
    bad, _ = _range_problems(args["kind"], args["dtype"])
    return (False, "; ".join(bad[:3])) if bad else (True, "held")


def ob_ladj_raises(kind_name, ctor):
    def body():
        t = ctor()
        if not getattr(t, "bijective", False):
            return {"backend": "heap", "statement": "%s is not declared bijective: outside the property" % kind_name}
        x = torch.tensor([0.3, -0.2, 0.5])
        y = t(x)
        try:
            t.log_abs_det_jacobian(x, y)
        except NotImplementedError:
            raise Refuted("%s is declared bijective but log_abs_det_jacobian raises NotImplementedError" % kind_name,
                          witness={"transform": kind_name}, replay={"kind": "custom", "contract": "C07", "func": "replay_ladj_raises", "args": {"transform": kind_name}}, confirmed=True)
        return {"backend": "heap", "statement": "%s reports a log-Jacobian" % kind_name}
    return Ob("C07.ladj_defined[%s]" % kind_name, "U", body, clause="log-Jacobian is reported", funcs=FUNCS)


def ob_inverse_defined_logdiff():
    def body():
        import torchtree.evolution.rate_transform as rt
        tm, newick = treemodels.build_timetree(((0, 1), 2), NAMES[:3], [0.0] * 3, torch.tensor([1.0, 2.0]))
        t = rt.LogDifferenceRateTransform(tm)
        x = torch.tensor([0.5, 1.5, 2.0, 0.7])
        try:
            back = t.inv(t(x))
        except NotImplementedError:
            raise Refuted("LogDifferenceRateTransform is declared bijective but _inverse raises NotImplementedError",
                          witness={"transform": "LogDifferenceRateTransform"},
                          replay={"kind": "custom", "contract": "C07", "func": "replay_inverse_logdiff", "args": {}}, confirmed=True)
        if not torch.allclose(back, x):
            raise Refuted("LogDifferenceRateTransform: inv(forward(x)) != x: %s" % back.tolist(), witness={"x": x.tolist()}, confirmed=True)
        return {"backend": "heap", "statement": "inverse defined"}
    return Ob("C07.inverse_defined[LogDifferenceRateTransform]", "U", body, clause="inverse is defined", funcs=FUNCS)


def ob_reparam_history(kind, depth):
    """every history (length <= depth) of {assign, in-place update + notification, read heights, read branch lengths, call} on the real
    ReparameterizedTimeTreeModel: each checked read equals that of a fresh model at the current parameter value"""
    def body():
        bad, n, seen = treemodels.reparam_histories(kind, depth, check=("call",))
        if bad is not None:
            hist, op, got, want = bad
            raise Refuted("%s tree after the history %s: %s returns %s, a fresh model at the current parameter value returns %s" % (kind, list(hist), op, got, want),
                          witness={"kind": kind, "history": list(hist)}, replay={"kind": "custom", "contract": "C07", "func": "replay_reparam_history", "args": {"kind": kind, "depth": depth}}, confirmed=True)
        allst = [set().union(*seen[:d + 1]) for d in range(len(seen))]
        sat = next((d for d in range(1, len(allst) - 1) if allst[d] == allst[-1]), None)
        return {"backend": "heap", "cases": n, "statement": "%d histories; dirty-flag states reached: %d, saturated from depth %s (exhaustive modulo the flag abstraction if saturated)" % (n, len(allst[-1]), sat)}
    return Ob("C07.reparam.history[%s,depth<=%d]" % (kind, depth), "B", body, clause="a reparameterised tree model, when called, returns the log-Jacobian for its CURRENT value after every history of updates and reads", funcs=FUNCS)


def replay_reparam_history(args):
    try:
        ob_reparam_history(args["kind"], args["depth"]).fn()
    except Refuted as e:
        return False, e.detail
    return True, "held"


def replay_inverse_logdiff(args):
    try:
        ob_inverse_defined_logdiff().fn()
    except Refuted as e:
        return False, e.detail
    return True, "defined"


def replay_ladj_raises(args):
    import torchtree.distributions.transforms as tr
    t = getattr(tr, args["transform"])()
    x = torch.tensor([0.3, -0.2, 0.5])
    try:
        t.log_abs_det_jacobian(x, t(x))
    except NotImplementedError:
        return False, "log_abs_det_jacobian raises NotImplementedError"
    return True, "defined"


def _tree_strs(T):
    return [repr(t).replace(" ", "") for t in trees.all_rooted_binary(list(range(T)))]


def obligations(tier, seed):
    rng = random.Random(seed)
    obs = []

    def add(name, factory, args, clause, tag="V", **kw):
        obs.append(scenario_ob("C07", name, tag, factory, args, clause=clause, funcs=FUNCS, seed=seed, **kw))

    ns = [1, 2, 3, 4] if tier == "quick" else [1, 2, 3, 4, 5, 6, 8]
    for kind in ("cumsum", "cumsumexp", "softplus", "cumsumsoftplus", "log"):
        for n in ns:
            add("C07.vector.%s[n=%d]" % (kind, n), "scn_vector", (kind, n, ()), "log-Jacobian and inverse (%s)" % kind)
        add("C07.vector.%s[n=3,batch=(2,)]" % kind, "scn_vector", (kind, 3, (2,)), "log-Jacobian and inverse (%s), batched" % kind)
        if kind != "cumsumexp":  # rank-2 sample shapes of CumSumExpTransform are C10's obligation
            add("C07.vector.%s[n=2,batch=(2,2)]" % kind, "scn_vector", (kind, 2, (2, 2)), "log-Jacobian and inverse (%s), batched rank 2" % kind)
        add("C07.transformed_parameter.%s" % kind, "scn_transformed_parameter", (kind, 3), "TransformedParameter() returns the log-Jacobian of its current value")
    for kind in ("log", "cumsumexp", "cumsumsoftplus"):
        for how in ("view", "sibling", "cat", "view_of_transformed", "put_back"):
            if how == "view_of_transformed" and kind != "log":
                continue      # a slice of a cumulative transform's value does not determine a slice of its base
            add("C07.transformed_parameter.shared_base.%s[%s]" % (kind, how), "scn_transformed_parameter_shared", (kind, how),
                "TransformedParameter() returns the log-Jacobian of its current value (base changed through another consumer)")
    for kind in ("log", "cumsumexp", "cumsumsoftplus", "softplus", "cumsum"):
        obs.append(ob_setter_aliasing(kind))
    obs.append(ob_from_json_options())
    for kind in ("softplus", "cumsumsoftplus", "cumsumexp", "log"):
        for dtype_name in ("float64", "float32"):
            obs.append(ob_range(kind, dtype_name))
    for dim in (1, 2, 3):
        add("C07.trilexp[dim=%d]" % dim, "scn_trilexp", (dim,), "log-Jacobian and inverse (triangular-exp)")
    import torchtree.distributions.transforms as tr
    obs.append(ob_ladj_raises("TrilExpDiagonalTransform", tr.TrilExpDiagonalTransform))
    obs.append(ob_inverse_defined_logdiff())
    for kind in ('ratios', 'shifts'):
        obs.append(ob_reparam_history(kind, 4 if tier == 'quick' else 5))
    patterns = list(treemodels.DATE_PATTERNS)
    for T in ((3, 4) if tier == "quick" else (3, 4, 5, 6)):
        for k, ts in enumerate(_tree_strs(T)):
            ts = repr(trees.shuffle_children(ast.literal_eval(ts), rng)).replace(" ", "")
            if T == 6 and k % 15:
                continue   # 63 of the 945 six-taxon topologies (every topology up to 5 taxa)
            pat = patterns[k % 4]
            for kind in ("ratios", "shifts"):
                add("C07.nodeheight.%s[tree=%s,dates=%s]" % (kind, ts, pat), "scn_nodeheight", (ts, pat, kind, ()), "node-height transform log-Jacobian", max_paths=3000)
                if k % 3 == 0:
                    add("C07.nodeheight.%s[tree=%s,dates=%s,batch=(2,)]" % (kind, ts, patterns[(k + 1) % 4]), "scn_nodeheight", (ts, patterns[(k + 1) % 4], kind, (2,)), "node-height transform log-Jacobian, batched", max_paths=3000)
            if T <= 4:
                add("C07.logdiffrate[tree=%s]" % ts, "scn_logdiff", (ts, ()), "log-rate-difference transform")
    for ts in ("((0,(1,2)),(3,(4,5)))", "(((4,5),3),((1,2),0))", "((0,1),((2,3),(4,5)))"):
        for pat in ("hetero", "calendar"):
            add("C07.nodeheight.ratios[tree=%s,dates=%s]" % (ts, pat), "scn_nodeheight", (ts, pat, "ratios", ()), "node-height transform log-Jacobian (6 taxa, nested clades on both sides of the root)", max_paths=3000)
    # smooth-max option of the increment transform (k > 0): log-Jacobian and inverse
    for ts in ("((0,1),2)", "((0,1),(2,3))", "(0,(1,(2,3)))"):
        for k_ in (0.5, 1, 3):
            add("C07.nodeheight.shifts.smooth[tree=%s,k=%s]" % (ts, k_), "scn_nodeheight", (ts, "hetero", "shifts", (), k_), "increment node-height transform with smooth max: log-Jacobian and inverse", max_paths=3000)
    add("C07.nodeheight.shifts.smooth[tree=((0,1),2),k=2,batch=(2,)]", "scn_nodeheight", ("((0,1),2)", "ties", "shifts", (2,), 2), "increment node-height transform with smooth max, batched", max_paths=3000)
    add("C07.logdiffrate[tree=((0,1),2),batch=(2,)]", "scn_logdiff", ("((0,1),2)", (2,)), "log-rate-difference transform, batched")
    return obs
