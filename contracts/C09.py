"""C09 — birth–death skyline: agreement across epochs, with the constant model, and with the master equations.

Contracts (postconditions from the property statement; conventions — forward time from the origin, epoch i = [times[i], times[i+1]),
rho[i] = sampling probability at times[i+1], tips-then-internal node heights — from the code and its tests):

 * options      BDSKModel.from_json / BirthDeathModel.from_json run on a recording dict: constructor argument k is filled from
                data[k] (through process_object / Parameter when it is a sub-specification) and the signature default applies iff the
                key is absent; plus end-to-end effect of every option on REAL objects built from a REAL specification.
 * wellformed   every `self.<attr>` read by the compute methods is established by __init__ / the class; constructing and calling the
                real classes does not raise.
 * single_epoch PiecewiseConstantBirthDeath.log_prob with one epoch ≡ Stadler (2010) Thm 3.5 density (specs/bdsampling.py), symbolic in
                all rates, rho, removal probability, origin and every node height.
 * constant     the repository's own constant model (birth_death.BirthDeath.log_prob) ≡ the same independent density.
 * refine       one epoch ≡ the same epoch split at a symbolic boundary (every position relative to the nodes by forking; exactly on a
                serial sampling time; exactly on a branching time; default equal-width grid), rho = 0 at the new boundary; also 2 → 3 epochs.
 * relative     relative_times=True with fractions τ ≡ absolute times τ·origin.
 * master_equations (B)  code ≡ RK4 integration of the birth–death master equations along random trees, 1..8 epochs.

How the symbolic identities are closed.  The inputs are a surjective re-parametrisation of the domain: free symbols lam>0, A>0, v∈(-1,1)
with psi = A²(1-v²)/(4 lam), mu = lam - psi + vA (>0 required) — every positive (lam, mu, psi) arises exactly once, and the code's
sqrt((lam-mu-psi)²+4 lam psi) normalises to the atom A; rho = (beta - v)A/(2 lam) with free beta (0<rho<1 required) makes the code's
B = ((1-2(1-rho))lam+mu+psi)/A normalise to the atom beta.  A wrong formula for A or B in the code does not collapse and is refuted.
The claim is exp(code_log_density - oracle_log_density) ≡ 1: matching log atoms cancel in log space, the rest is an exact rational
identity in lam, A, v, beta, r and the atoms exp(A·height).
"""
import ast
import inspect
import itertools
import math
import random
import textwrap
import zlib

import numpy as np
import torch

from specs import bdsampling as S
from vt import nf
from vt.cond import Infeasible, Undecided
from vt.runner import Ob, Refuted
from vt.scenario import _raised_in_repo, el, prove_scenario, sexp, slog
from vt.stubs import symbolic_factories
from vt.symtorch import ST, _obj_f

FUNCS = [
    "torchtree.evolution.bdsk:PiecewiseConstantBirthDeath.__init__",
    "torchtree.evolution.bdsk:PiecewiseConstantBirthDeath.log_q",
    "torchtree.evolution.bdsk:PiecewiseConstantBirthDeath.p0",
    "torchtree.evolution.bdsk:PiecewiseConstantBirthDeath.log_p",
    "torchtree.evolution.bdsk:PiecewiseConstantBirthDeath.log_prob",
    "torchtree.evolution.bdsk:epidemiology_to_birth_death",
    "torchtree.evolution.bdsk:BDSKModel.__init__",
    "torchtree.evolution.bdsk:BDSKModel._call",
    "torchtree.evolution.bdsk:BDSKModel._sample_shape",
    "torchtree.evolution.bdsk:BDSKModel.from_json",
    "torchtree.evolution.birth_death:BirthDeathModel.__init__",
    "torchtree.evolution.birth_death:BirthDeathModel._call",
    "torchtree.evolution.birth_death:BirthDeathModel._sample_shape",
    "torchtree.evolution.birth_death:BirthDeathModel.from_json",
    "torchtree.evolution.birth_death:BirthDeath.__init__",
    "torchtree.evolution.birth_death:BirthDeath.log_q",
    "torchtree.evolution.birth_death:BirthDeath.log_p",
    "torchtree.evolution.birth_death:BirthDeath.log_prob",
]

META = {
    "level": "other",
    "explanation":
        "SYMBOLIC (tag V: all real values, enumerated shapes): single epoch ≡ Stadler (2010) density; repository constant model ≡ the same "
        "density; one epoch ≡ split epoch (boundary anywhere: all positions relative to the nodes by path forking, exactly on a serial "
        "sampling time, exactly on a branching time, default grid), 2 → 3 epochs with distinct rates; relative ≡ absolute times; "
        "BDSKModel._call (R, delta, s parameterisation). All rates, rho (symbolic in (0,1) or fixed 0/1), removal probability, origin and "
        "all node heights are symbolic; taxa <= 4 (5 thorough) for one epoch, <= 3 (4 thorough) for refinement. For one epoch the code "
        "takes no order-dependent branch, so the identity is proved for ALL positive heights below the origin (a superset of the genealogies). "
        "UNBOUNDED (tag U): option provenance of both from_json over every subset of optional keys with opaque values; attribute "
        "well-formedness by an AST scan of all loads of self.<attr>. "
        "BOUNDED (tag B, never counted as proved): 'matches numerical integration of the master equations' is decided ONLY numerically "
        "(RK4, random trees of 2..6 tips, 1..8 epochs, relative 1e-6); end-to-end effect of each JSON option on one real specification; "
        "refinement up to 8 sub-epochs at random points (relative 1e-9). "
        "NOT DECIDED: epochs with pairwise different rates beyond the master-equation samples; batch shapes (C10); floating point.",
    "bound": "taxa 2..4 (5 thorough) single epoch / 2..3 (4 thorough) refinement; tip schemes: every split into contemporaneous and serial tips; "
             "epochs 1, 1→2, 1→3, 2→3 symbolic; 1..8 numeric; master equations: 3 (quick) / 10 (thorough) random trees per configuration",
    "trusted_base": [
        "Stadler (2010) J. Theor. Biol. 267, Thm 3.5 with the removal probability of Gavryushkina et al. (2014), as transcribed in specs/bdsampling.py "
        "(validated on every run against the RK4 master-equation integrator: obligation C09.oracle.closed_form_vs_master_equations)",
        "the master equations themselves (dp0/dt = mu-(lam+mu+psi)p0+lam p0^2, d log g/dt = -(lam+mu+psi)+2 lam p0, event rules in specs/bdsampling.py) and a fixed-step RK4",
        "tree-space convention: oriented trees (Stadler 2010); with a removal probability torchtree follows BEAST2's sampled-ancestor convention "
        "2^(N-1) x oriented — a constant in every parameter, granted to the removal obligations and pinned exactly by C09.single_epoch.removal_one_vs_none",
        "module-namespace stubs inside torchtree.evolution.bdsk / birth_death for symbolic runs: torch.zeros/ones/full/empty (vt.stubs), "
        "torch.zeros_like -> symbolic zeros, torch.tensor -> exact symbolic constant (so torch.tensor(2.0).log() is log 2 exactly)",
        "options: process_object / Parameter replaced in the module namespace by a tagging stub, constructor replaced by a capturing subclass",
        "real arithmetic; exp/log/sqrt rewrite rules of vt.nf; log arguments positive on the domain (side conditions recorded, cross-checked numerically each run)",
    ],
    "assumptions": ["machine arithmetic treated as mathematical (reals)",
                    "a tip at height 0 is rho-sampled iff rho(present) > 0, otherwise psi-sampled at time 0 (the reading the code itself takes for mixed trees)",
                    "a sampling time exactly on an epoch boundary with DIFFERENT rates on both sides is a measure-zero ambiguity of the density and is not checked; with identical rates (refinement) it is"],
}

MANIFEST = {
    "category": "other",
    "text": "The real PiecewiseConstantBirthDeath.log_prob / BirthDeath.log_prob / BDSKModel are executed on symbolic rates, sampling "
            "probabilities, removal probability, origin, epoch boundary and node heights; the single-epoch density is proved identical to "
            "the constant-rate birth-death-sampling density of Stadler (2010) written independently, and invariant under splitting an epoch "
            "(every boundary position incl. exactly on a sampling time). JSON option provenance is decided by running the real from_json on "
            "a recording dict for every subset of keys. Agreement with the master equations is checked numerically only (bounded).",
    "note": "Shape-bounded (taxa <= 4/5, epochs 1..3 symbolic); master-equation clause is numeric (B) only; reals instead of doubles; "
            "2^(N-1) tree-space constant granted when a removal probability is given.",
    "technique": "sidecar contracts + symbolic execution of the real code (__torch_function__) with path forking over boundary positions + exact "
                 "normal form (exp/log/sqrt theory, domain re-parametrisation that rationalises the discriminant) against an independent literature oracle; "
                 "recording-dict heap check for options; AST scan for well-formedness; RK4 master-equation integration as bounded stand-in",
}


# ======================================================================================
# symbolic scenarios

def _sym_zeros_like(x, **k):
    a = np.empty(tuple(x.shape), dtype=object)
    a[...] = nf.ZERO
    return ST(a)


def _sym_tensor(d, *a, **k):
    return ST(_obj_f(torch.tensor(d, dtype=torch.float64)))


EXTRA = {"zeros_like": _sym_zeros_like, "tensor": _sym_tensor}


def _rates(mk, sfx=""):
    """surjective parametrisation of {lam, mu, psi > 0}: lam, A = sqrt((lam-mu-psi)^2+4 lam psi), v = -(lam-mu-psi)/A in (-1,1)"""
    lam = mk.real("lam" + sfx, (1,), lo=0)
    A = mk.real("A" + sfx, (1,), lo=0)
    v = mk.real("v" + sfx, (1,), lo=-1, hi=1)
    psi = A * A * (1.0 - v * v) / (4.0 * lam)
    mu = lam - psi + v * A
    mk.require(el(mu, (0,)) > 0)
    return lam, mu, psi, A, v


def _float_guard(mk, A, x0):
    """concrete runs only: exp(A·origin) must be representable in binary64 (the claims are over the reals; a point
    where the real code overflows to inf/nan is outside the floating-point range, not a counterexample)"""
    if not mk.symbolic and float(A) * float(x0) > 40.0:
        raise Infeasible("exp(A*origin) overflows binary64 at this point")


def _rho(mk, mode, lam, A, v, sfx=""):
    """-> (tensor [1], scalar for the oracle, positive?)"""
    if mode == "sym":
        beta = mk.real("beta" + sfx, (1,))
        rho = (beta - v) * A / (2.0 * lam)
        mk.require(el(rho, (0,)) > 0)
        mk.require(el(rho, (0,)) < 1)
        return rho, el(rho, (0,)), True
    val = {"zero": 0.0, "one": 1.0}[mode]
    return torch.full((1,), val), (nf.const(val) if mk.symbolic else val), val > 0


def _removal(mk, mode):
    if mode is None:
        return None, 1
    if mode == "sym":
        r = mk.real("r", (1,), lo=0, hi=1)
        return r, el(r, (0,))
    val = {"zero": 0.0, "one": 1.0}[mode]
    return torch.full((1,), val), (nf.const(val) if mk.symbolic else val)


GENEALOGY = [False]   # set by _scenario_ob for the second pass that looks for a witness that IS a tree


def _heights(mk, T, n0, below=None, root_last=False):
    """n0 contemporaneous tips (height 0), T-n0 serial tips (symbolic > 0), T-1 symbolic internal heights (unordered).
    First pass: no ordering between the heights is required (a superset of the genealogies: the identity is proved for all of
    them).  With GENEALOGY set, the heights are required to form the caterpillar tree (((t0,t1),t2),...) so that a refutation
    witness is a tree of the property's domain."""
    k = T - n0
    ys = mk.real("y", (k,), lo=0) if k else None
    hs = mk.real("h", (T - 1,), lo=0)
    parts = [torch.zeros(n0)] if n0 else []
    if k:
        parts.append(ys)
    parts.append(hs)
    nh = torch.cat(parts, -1)
    ysl = [el(ys, (i,)) for i in range(k)]
    hsl = [el(hs, (i,)) for i in range(T - 1)]
    if GENEALOGY[0]:
        tipsl = [0.0] * n0 + ysl
        for i, h in enumerate(hsl):
            for z in ([tipsl[0], tipsl[1]] if i == 0 else [hsl[i - 1], tipsl[i + 1]]):
                if not (isinstance(z, float) and z == 0.0):
                    mk.require(h > z)
    if root_last:
        for z in hsl[:-1] + ysl:
            mk.require(hsl[-1] > z)
    if below is not None:
        for z in hsl + ysl:
            mk.require(below > z)
    return nh, ys, hs, ysl, hsl


def _distinct(mk, a, b):
    """generic position: a != b (ties between a boundary and a node are separate, named scenarios)"""
    if not mk.symbolic:
        return
    c = (a == b)
    if c is True:
        mk.require(False)
    elif c is not False:
        mk.require(c.negate())


def _single(res):
    """scalar of a result holding exactly one value, else None"""
    if isinstance(res, ST):
        return res.a.reshape(-1)[0] if res.a.size == 1 else None
    return float(res.reshape(-1)[0]) if res.numel() == 1 else None


def _zero(mk):
    return nf.ZERO if mk.symbolic else 0.0


def _log2(mk):
    return slog(nf.const(2)) if mk.symbolic else math.log(2.0)


def _plainly_false(mk, diff):
    """cheap float look at a symbolic log-difference at a few points of the current path (domain + path condition, every log
    argument positive): returns (env, value) where it is clearly non-zero, else None.  A true identity is then handed to the
    harness as exp(diff) ≡ 1, which the normal form closes; a false one is refuted right here at that point - expanding
    exp(diff) of a FALSE identity is what explodes, and the log form cannot be given to the harness because vt.nf splits
    log(ab) into log a + log b formally (harmless under exp, but mpmath then sees 2πi artefacts when a, b < 0)."""
    from vt.cond import current_path
    from vt.scenario import _conds_hold, sample_env
    rng = random.Random(20240917)
    conds = [c for c in current_path() if c is not True]
    seen = 0
    for _ in range(400):
        env = sample_env(mk.decls, rng)
        try:
            if not _conds_hold(conds, env):
                continue
            v = float(nf.evaluate(diff, env))
        except (ZeroDivisionError, ValueError, OverflowError, KeyError, TypeError):
            continue
        if v != v or abs(v) == float("inf"):
            continue
        if abs(v) > 1e-6:
            return env, v
        seen += 1
        if seen >= 3:
            return None
    return None


def _ratio_claims(name, code, spec, shape, mk=None):
    if code is None:
        return [("true", "one_value_returned", False, "result shape %s" % (shape,))]
    if mk is not None and mk.symbolic:
        bad = _plainly_false(mk, code - spec)
        if bad is not None:
            env, v = bad
            raise Refuted("claim %s: log density of the code minus the specified one is %.12g (not 0) at %s" % (name, v, env),
                          witness={"claim": name, "env": env, "log_difference": v})
    return [("eq", name, [sexp(code - spec)], [1.0])]


def _oracle_single(mk, x0, hsl, ysl, n0, lam, mu, psi, rho_s, rho_pos, r_s, survival, twin=None):
    serial = list(ysl) + ([] if rho_pos else [_zero(mk)] * n0)
    n_ext = n0 if rho_pos else 0
    if twin == "swap_mu_psi":
        mu, psi = psi, mu
    return S.log_density(x0, hsl, serial, n_ext, lam, mu, psi, rho_s, r=r_s, survival=survival)


def scn_single_epoch(T, n0, rho_mode, survival, removal, origin_mode="origin", times_mode="none", twin=None):
    """one epoch ≡ Stadler (2010).  origin_mode: 'origin' | 'root_edge'; times_mode: 'none' | 'explicit' (times=[0.])"""
    def scn(mk):
        import torchtree.evolution.bdsk as bd
        lam, mu, psi, A, v = _rates(mk)
        rho, rho_s, rho_pos = _rho(mk, rho_mode, lam, A, v)
        r, r_s = _removal(mk, removal)
        if origin_mode == "origin":
            org = mk.real("x0", (1,), lo=0)
            x0 = el(org, (0,))
            nh, ys, hs, ysl, hsl = _heights(mk, T, n0, below=x0)
        else:
            org = mk.real("edge", (1,), lo=0)
            nh, ys, hs, ysl, hsl = _heights(mk, T, n0, root_last=True)
            x0 = el(org, (0,)) + hsl[-1]
        _float_guard(mk, el(A, (0,)), x0)
        with symbolic_factories(bd, extra=EXTRA, enabled=mk.symbolic):
            d = bd.PiecewiseConstantBirthDeath(lam, mu, psi, rho=rho, origin=org, origin_is_root_edge=(origin_mode == "root_edge"),
                                               times=torch.zeros(1) if times_mode == "explicit" else None,
                                               survival=survival, removal_probability=r)
            res = d.log_prob(nh)
        e = lambda t: el(t, (0,))
        spec = _oracle_single(mk, x0, hsl, ysl, n0, e(lam), e(mu), e(psi), rho_s, rho_pos, r_s, survival, twin)
        if r is not None:
            spec = spec + (T - 1) * _log2(mk)   # BEAST2 sampled-ancestor tree-space constant (trusted base)
        return _ratio_claims("single_epoch_is_stadler2010", _single(res), spec, tuple(res.shape), mk)
    return scn


def scn_density(T, n0, rho_mode, survival, removal=None):
    """for other properties (C10/C12): the same set-up with the PLAIN claim ("eq", "log_density", code_value, [oracle log density]);
    inputs (declared through mk): lam[0], A[0], v[0] (rates, see _rates), beta[0] (rho, when rho_mode == 'sym'), r[0] (removal == 'sym'),
    x0[0] (origin), y[k] serial tip heights, h[T-1] internal heights.  Not an obligation of C09 (the log-space form is closed here via exp)."""
    def scn(mk):
        import torchtree.evolution.bdsk as bd
        lam, mu, psi, A, v = _rates(mk)
        rho, rho_s, rho_pos = _rho(mk, rho_mode, lam, A, v)
        r, r_s = _removal(mk, removal)
        org = mk.real("x0", (1,), lo=0)
        _float_guard(mk, el(A, (0,)), el(org, (0,)))
        nh, ys, hs, ysl, hsl = _heights(mk, T, n0, below=el(org, (0,)))
        with symbolic_factories(bd, extra=EXTRA, enabled=mk.symbolic):
            res = bd.PiecewiseConstantBirthDeath(lam, mu, psi, rho=rho, origin=org, survival=survival, removal_probability=r).log_prob(nh)
        e = lambda t: el(t, (0,))
        spec = _oracle_single(mk, e(org), hsl, ysl, n0, e(lam), e(mu), e(psi), rho_s, rho_pos, r_s, survival)
        if r is not None:
            spec = spec + (T - 1) * _log2(mk)
        return [("eq", "log_density", res, [spec])]
    return scn


def scn_removal_consistency(T, n0, rho_mode, survival):
    """removal probability 1 is the model without a removal probability (Stadler et al. 2013) up to the tree-space convention: with a removal
    probability the code counts BEAST2 sampled-ancestor trees, 2^(N-1) per oriented tree, so the two log densities differ by exactly
    (N-1) log 2 — a constant in every parameter, which the repository's BEAST2 reference tests pin down.  (An earlier version of this
    obligation demanded equality: more than the property states; corrected, see DESIGN 10.3.)"""
    def scn(mk):
        import torchtree.evolution.bdsk as bd
        lam, mu, psi, A, v = _rates(mk)
        rho, rho_s, rho_pos = _rho(mk, rho_mode, lam, A, v)
        org = mk.real("x0", (1,), lo=0)
        _float_guard(mk, el(A, (0,)), el(org, (0,)))
        nh, ys, hs, ysl, hsl = _heights(mk, T, n0, below=el(org, (0,)))
        with symbolic_factories(bd, extra=EXTRA, enabled=mk.symbolic):
            a = bd.PiecewiseConstantBirthDeath(lam, mu, psi, rho=rho, origin=org, survival=survival).log_prob(nh)
            b = bd.PiecewiseConstantBirthDeath(lam, mu, psi, rho=rho, origin=org, survival=survival,
                                               removal_probability=torch.ones(1)).log_prob(nh)
        return _ratio_claims("removal_one_equals_no_removal_up_to_the_tree_space_constant", _single(b), _single(a) + (T - 1) * _log2(mk), tuple(b.shape), mk)
    return scn


def scn_constant_model(T, n0, rho_mode, survival):
    """the repository's constant model (birth_death.BirthDeath) ≡ the independent density"""
    def scn(mk):
        import torchtree.evolution.birth_death as bdm
        lam, mu, psi, A, v = _rates(mk)
        rho, rho_s, rho_pos = _rho(mk, rho_mode, lam, A, v)
        org = mk.real("x0", (1,), lo=0)
        _float_guard(mk, el(A, (0,)), el(org, (0,)))
        nh, ys, hs, ysl, hsl = _heights(mk, T, n0, below=el(org, (0,)))
        with symbolic_factories(bdm, extra=EXTRA, enabled=mk.symbolic):
            res = bdm.BirthDeath(lam, mu, psi, rho, org, survival=survival).log_prob(nh)
        e = lambda t: el(t, (0,))
        spec = _oracle_single(mk, e(org), hsl, ysl, n0, e(lam), e(mu), e(psi), rho_s, rho_pos, 1, survival)
        return _ratio_claims("constant_model_is_stadler2010", _single(res), spec, tuple(res.shape), mk)
    return scn


def scn_model_call(T, tips, rho_mode, survival):
    """BDSKModel._call: R = lam/(mu+psi), delta = mu+psi, s = psi/(mu+psi) (class docstring) on a real TimeTreeModel"""
    tips = list(tips)

    def scn(mk):
        import torchtree.evolution.bdsk as bd
        from torchtree.core.parameter import Parameter
        from specs import treemodels, trees
        lam, mu, psi, A, v = _rates(mk)
        rho, rho_s, rho_pos = _rho(mk, rho_mode, lam, A, v)
        org = mk.real("x0", (1,), lo=0)
        _float_guard(mk, el(A, (0,)), el(org, (0,)))
        h = mk.real("h", (T - 1,), lo=0)
        hsl = [el(h, (i,)) for i in range(T - 1)]
        # caterpillar genealogy: node i joins tip i+1, above the previous node and above that tip
        prev = None
        for i, z in enumerate(hsl):
            mk.require(z > max(tips[: i + 2]))
            if prev is not None:
                mk.require(z > prev)
            prev = z
        mk.require(el(org, (0,)) > hsl[-1])
        names = ["A", "B", "C", "D", "E"][:T]
        tm, _ = treemodels.build_timetree(trees.caterpillar(list(range(T))), names, tips, h)
        delta = mu + psi
        with symbolic_factories(bd, extra=EXTRA, enabled=mk.symbolic):
            m = bd.BDSKModel("bdsk", tm, Parameter("R", lam / delta), Parameter("delta", delta), Parameter("s", psi / delta),
                             rho=Parameter("rho", rho), origin=Parameter("origin", org), survival=survival)
            res = m()
        ages = treemodels.ages_of(tips)
        n0 = sum(1 for a in ages if a == 0.0)
        ysl = [(nf.const(a) if mk.symbolic else a) for a in ages if a != 0.0]
        e = lambda t: el(t, (0,))
        spec = _oracle_single(mk, e(org), hsl, ysl, n0, e(lam), e(mu), e(psi), rho_s, rho_pos, 1, survival)
        return _ratio_claims("model_call_is_stadler2010", _single(res), spec, tuple(res.shape), mk)
    return scn


def _cat(*ts):
    return torch.cat(ts, -1)


def scn_refine(T, n0, rho_mode, survival, removal, where, pieces=2, twin=None):
    """one epoch vs the same epoch split into `pieces` sub-epochs with identical rates and rho = 0 at the new boundaries.
    where: 'generic' (symbolic boundary, every position relative to the nodes is a path), 'tip<j>' (exactly on serial tip j),
    'node<i>' (exactly on branching time i), 'default' (times=None: equal-width grid)."""
    def scn(mk):
        import torchtree.evolution.bdsk as bd
        lam, mu, psi, A, v = _rates(mk)
        rho, rho_s, rho_pos = _rho(mk, rho_mode, lam, A, v)
        r, r_s = _removal(mk, removal)
        org = mk.real("x0", (1,), lo=0)
        x0 = el(org, (0,))
        _float_guard(mk, el(A, (0,)), x0)
        nh, ys, hs, ysl, hsl = _heights(mk, T, n0, below=x0)
        nodes = hsl + ysl
        bounds = []   # backward heights of the new boundaries, most recent first
        if where == "generic":
            bh = mk.real("bh", (pieces - 1,), lo=0)
            bounds = [el(bh, (i,)) for i in range(pieces - 1)]
            for i, b in enumerate(bounds):
                mk.require(x0 > b)
                if i:
                    mk.require(b > bounds[i - 1])
            bt = org - torch.flip(bh, (0,))
            for b in bounds:
                for z in nodes:
                    _distinct(mk, x0 - b, x0 - z)
        elif where.startswith("tip"):
            j = int(where[3:])
            bt = org - ys[j:j + 1]
            for z in hsl + [y for i, y in enumerate(ysl) if i != j]:
                _distinct(mk, x0 - ysl[j], x0 - z)
        elif where.startswith("node"):
            j = int(where[4:])
            bt = org - hs[j:j + 1]
            for z in ysl + [h for i, h in enumerate(hsl) if i != j]:
                _distinct(mk, x0 - hsl[j], x0 - z)
        elif where == "default":
            bt = None
            for i in range(1, pieces):
                for z in nodes:
                    _distinct(mk, x0 * i / pieces, x0 - z)
        else:
            raise ValueError(where)
        rep = lambda t: _cat(*([t] * pieces))
        rho_split = _cat(torch.zeros(pieces - 1), rho)
        if twin == "rho_at_new_boundary":
            rho_split = _cat(torch.full((pieces - 1,), 0.5), rho)
        with symbolic_factories(bd, extra=EXTRA, enabled=mk.symbolic):
            one = bd.PiecewiseConstantBirthDeath(lam, mu, psi, rho=rho, origin=org, survival=survival,
                                                 removal_probability=r).log_prob(nh)
            split = bd.PiecewiseConstantBirthDeath(rep(lam), rep(mu), rep(psi), rho=rho_split, origin=org,
                                                   times=None if bt is None else _cat(torch.zeros(1), bt), survival=survival,
                                                   removal_probability=None if r is None else rep(r)).log_prob(nh)
        a, b = _single(one), _single(split)
        if a is None or b is None:
            return [("true", "one_value_returned", False, "shapes %s / %s" % (tuple(one.shape), tuple(split.shape)))]
        return _ratio_claims("split_epoch_equals_unsplit", b, a, (), mk)
    return scn


def scn_refine23(T, n0, rho_mode, survival):
    """two epochs with DIFFERENT rates; one of them (whichever the symbolic new boundary falls into) is split: same density"""
    def scn(mk):
        import torchtree.evolution.bdsk as bd
        lam0, mu0, psi0, A0, v0 = _rates(mk, "0")    # older epoch
        lam1, mu1, psi1, A1, v1 = _rates(mk, "1")    # recent epoch
        rho, rho_s, rho_pos = _rho(mk, rho_mode, lam1, A1, v1)
        rho_mid = mk.real("rho_mid", (1,), lo=0, hi=1)     # sampling event (thinning only) at the existing boundary
        org = mk.real("x0", (1,), lo=0)
        x0 = el(org, (0,))
        _float_guard(mk, el(A0, (0,)), x0)
        _float_guard(mk, el(A1, (0,)), x0)
        nh, ys, hs, ysl, hsl = _heights(mk, T, n0, below=x0)
        b1 = mk.real("b1", (1,), lo=0)     # existing boundary (backward height)
        b2 = mk.real("b2", (1,), lo=0)     # new boundary
        for b in (b1, b2):
            mk.require(x0 > el(b, (0,)))
        for b in (b1, b2):
            for z in hsl + ysl:
                _distinct(mk, x0 - el(b, (0,)), x0 - z)
        _distinct(mk, el(b1, (0,)), el(b2, (0,)))
        new_is_recent = bool(el(b2, (0,)) < el(b1, (0,)))
        with symbolic_factories(bd, extra=EXTRA, enabled=mk.symbolic):
            base = bd.PiecewiseConstantBirthDeath(_cat(lam0, lam1), _cat(mu0, mu1), _cat(psi0, psi1), rho=_cat(rho_mid, rho), origin=org,
                                                  times=_cat(torch.zeros(1), org - b1), survival=survival).log_prob(nh)
            z1 = torch.zeros(1)
            if new_is_recent:   # forward order: epoch0 | b1 | epoch1a | b2 | epoch1b
                split = bd.PiecewiseConstantBirthDeath(_cat(lam0, lam1, lam1), _cat(mu0, mu1, mu1), _cat(psi0, psi1, psi1),
                                                       rho=_cat(rho_mid, z1, rho), origin=org, times=_cat(z1, org - b1, org - b2),
                                                       survival=survival).log_prob(nh)
            else:               # epoch0a | b2 | epoch0b | b1 | epoch1
                split = bd.PiecewiseConstantBirthDeath(_cat(lam0, lam0, lam1), _cat(mu0, mu0, mu1), _cat(psi0, psi0, psi1),
                                                       rho=_cat(z1, rho_mid, rho), origin=org, times=_cat(z1, org - b2, org - b1),
                                                       survival=survival).log_prob(nh)
        a, b = _single(base), _single(split)
        if a is None or b is None:
            return [("true", "one_value_returned", False, "shapes %s / %s" % (tuple(base.shape), tuple(split.shape)))]
        return _ratio_claims("split_epoch_equals_unsplit", b, a, (), mk)
    return scn


def scn_relative_times(T, n0, rho_mode, survival, m, root_edge=False):
    """relative_times=True with fractions tau of the origin ≡ absolute times tau·origin"""
    def scn(mk):
        import torchtree.evolution.bdsk as bd
        lam, mu, psi, A, v = _rates(mk)
        rho, rho_s, rho_pos = _rho(mk, rho_mode, lam, A, v)
        if root_edge:
            org = mk.real("edge", (1,), lo=0)
            nh, ys, hs, ysl, hsl = _heights(mk, T, n0, root_last=True)
            x0t = org + hs[-1:]
        else:
            org = mk.real("x0", (1,), lo=0)
            nh, ys, hs, ysl, hsl = _heights(mk, T, n0, below=el(org, (0,)))
            x0t = org
        x0 = el(x0t, (0,))
        _float_guard(mk, el(A, (0,)), x0)
        if m > 1:
            u = mk.real("u", (m - 1,), lo=0)     # increasing fractions in (0,1): cumulative sums / (1 + total)
            cs = u.cumsum(-1)
            tau = cs / (1.0 + cs[-1:])
            for i in range(m - 1):
                for z in hsl + ysl:
                    _distinct(mk, el(tau, (i,)) * x0, x0 - z)
            rel = _cat(torch.zeros(1), tau)
        else:
            rel = torch.zeros(1)
        rep = lambda t: _cat(*([t] * m))
        rho_m = _cat(torch.zeros(m - 1), rho) if m > 1 else rho
        kw = dict(rho=rho_m, origin=org, origin_is_root_edge=root_edge, survival=survival)
        with symbolic_factories(bd, extra=EXTRA, enabled=mk.symbolic):
            absolute = bd.PiecewiseConstantBirthDeath(rep(lam), rep(mu), rep(psi), times=rel * x0t, relative_times=False, **kw).log_prob(nh)
            relative = bd.PiecewiseConstantBirthDeath(rep(lam), rep(mu), rep(psi), times=rel, relative_times=True, **kw).log_prob(nh)
        a, b = _single(absolute), _single(relative)
        if a is None or b is None:
            return [("true", "one_value_returned", False, "shapes %s / %s" % (tuple(absolute.shape), tuple(relative.shape)))]
        return _ratio_claims("relative_times_equal_absolute_times", b, a, (), mk)
    return scn


# ======================================================================================
# options (heap, U)

ALIAS = {"id_": "id", "lambda_": "lambda"}


class _Marker:
    def __init__(self, key):
        self.key = key

    def __repr__(self):
        return "<value of data[%r]>" % self.key


class _Made:
    def __init__(self, src, via):
        self.src, self.via = src, via

    def __repr__(self):
        return "%s(%r)" % (self.via, self.src)


class RecordingDict(dict):
    def __init__(self, d):
        super().__init__(d)
        self.reads = []

    def __getitem__(self, k):
        self.reads.append(k)
        return super().__getitem__(k)

    def get(self, k, default=None):
        self.reads.append(k)
        return super().get(k, default)

    def __contains__(self, k):
        self.reads.append(k)
        return super().__contains__(k)


def _cls(name):
    import torchtree.evolution.bdsk as bd
    import torchtree.evolution.birth_death as bdm
    return {"BDSKModel": (bd, bd.BDSKModel), "BirthDeathModel": (bdm, bdm.BirthDeathModel)}[name]


def _ctor_params(klass):
    sig = inspect.signature(klass.__init__)
    return [p for n, p in sig.parameters.items() if n != "self"], sig


def _json_key(arg):
    from torchtree.evolution.tree_model import TimeTreeModel
    if arg == "tree_model":
        return TimeTreeModel.tag
    return ALIAS.get(arg, arg)


def _run_from_json(cls_name, present, times_list=False, from_json=None):
    """run the REAL from_json on a recording dict holding opaque values for the keys in `present`.
    -> (bound constructor arguments, raw values by key, keys read)"""
    mod, klass = _cls(cls_name)
    raw = {}
    for k in present:
        raw[k] = [0.0, 0.3125, 0.71875] if (k == "times" and times_list) else _Marker(k)
    data = RecordingDict(raw)
    captured = []

    class Capture(klass):
        def __init__(self, *a, **k):
            captured.append((a, k))

    saved = {n: mod.__dict__.get(n) for n in ("process_object", "Parameter")}
    mod.__dict__["process_object"] = lambda value, dic: _Made(value, "process_object")
    if "Parameter" in mod.__dict__:
        mod.__dict__["Parameter"] = lambda id_, value, *a, **k: _Made(value, "Parameter")
    try:
        fj = from_json if from_json is not None else klass.from_json.__func__
        fj(Capture, data, {})
    finally:
        for n, v in saved.items():
            if v is None:
                mod.__dict__.pop(n, None)
            else:
                mod.__dict__[n] = v
    if len(captured) != 1:
        raise Refuted("%s.from_json constructed %d objects" % (cls_name, len(captured)), witness={"present": sorted(present)})
    a, k = captured[0]
    _, sig = _ctor_params(klass)
    bound = sig.bind(None, *a, **k).arguments
    bound.pop("self", None)
    return bound, raw, data.reads


def _provenance(value, raw):
    """json key the value was derived from, or None"""
    src = value.src if isinstance(value, _Made) else value
    for k, v in raw.items():
        if src is v:
            return k
        if isinstance(v, list) and torch.is_tensor(src) and src.dim() == 1 and [float(x) for x in src] == v:
            return k
    return None


def check_option(cls_name, arg, from_json=None):
    """constructor argument `arg` ⇐ data[json key of arg] for every subset of optional keys; default iff absent"""
    mod, klass = _cls(cls_name)
    params, sig = _ctor_params(klass)
    required = [_json_key(p.name) for p in params if p.default is inspect.Parameter.empty]
    optional = [_json_key(p.name) for p in params if p.default is not inspect.Parameter.empty]
    par = {p.name: p for p in params}[arg]
    key = _json_key(arg)
    cases = 0
    for n in range(len(optional) + 1):
        for sub in itertools.combinations(optional, n):
            present = set(required) | set(sub)
            for times_list in ((False, True) if "times" in present else (False,)):
                cases += 1
                try:
                    bound, raw, reads = _run_from_json(cls_name, present, times_list, from_json)
                except Refuted:
                    raise
                except Exception as e:
                    raise Refuted("%s.from_json raises %s: %s with keys %s" % (cls_name, type(e).__name__, e, sorted(present)),
                                  witness={"present": sorted(present), "error": str(e)})
                w = {"class": cls_name, "argument": arg, "keys_present": sorted(present), "times_is_list": times_list}
                if key in present:
                    if arg not in bound:
                        raise Refuted("%s.from_json: key %r is given but constructor argument %r is not passed (default %r used)"
                                      % (cls_name, key, arg, par.default), witness=w)
                    got = _provenance(bound[arg], raw)
                    if got != key:
                        raise Refuted("%s.from_json: constructor argument %r is filled from %s instead of data[%r] (value passed: %r)"
                                      % (cls_name, arg, ("data[%r]" % got) if got else "a value not taken from the specification", key, bound[arg]),
                                      witness=dict(w, filled_from=got))
                    if isinstance(raw[key], list) and not (isinstance(bound[arg], _Made) and bound[arg].via == "Parameter" and torch.is_tensor(bound[arg].src)):
                        raise Refuted("%s.from_json: the list given for %r is not turned into a Parameter holding a Tensor (got %r; Parameter(id_, tensor: Tensor)); "
                                      "every later use (`.tensor.shape`, torch.cat) fails" % (cls_name, key, bound[arg]), witness=w)
                else:
                    if arg in bound:
                        got = _provenance(bound[arg], raw)
                        if got is not None:
                            raise Refuted("%s.from_json: key %r is absent but constructor argument %r is filled from data[%r]: a key named %r "
                                          "fills an argument named %r" % (cls_name, key, arg, got, got, arg), witness=dict(w, filled_from=got))
                        if not (bound[arg] is par.default or bound[arg] == par.default):
                            raise Refuted("%s.from_json: key %r absent but argument %r = %r differs from the documented default %r"
                                          % (cls_name, key, arg, bound[arg], par.default), witness=w)
    return {"backend": "heap (recording dict, real from_json)", "cases": cases,
            "statement": "%s(%s) ⇐ data[%r]; default %r iff absent; all %d key subsets" % (cls_name, arg, key, None if par.default is inspect.Parameter.empty else par.default, cases)}


# --- real specification, real objects -------------------------------------------------

_NEWICK = "((A:1.0,B:0.5):1.0,C:1.25);"
_TAXA = {"A": 0.0, "B": 0.5, "C": 0.75}


def _real_spec(cls_name):
    from torchtree.evolution.tree_model import TimeTreeModel
    tree = TimeTreeModel.json_factory("tree", _NEWICK, [1.0, 2.0], dict(_TAXA), **{"internal_heights_id": "tree.heights"})

    def P(id_, vals):
        return {"id": id_, "type": "Parameter", "tensor": list(vals)}
    if cls_name == "BDSKModel":
        return {"id": "bd", "type": "BDSKModel", "tree_model": tree, "R": P("R", [1.5]), "delta": P("delta", [1.2]), "s": P("s", [0.4]),
                "rho": P("rho", [0.3]), "origin": P("origin", [3.0])}
    return {"id": "bd", "type": "BirthDeathModel", "tree_model": tree, "lambda": P("lambda", [1.8]), "mu": P("mu", [0.7]), "psi": P("psi", [0.5]),
            "rho": P("rho", [0.3]), "origin": P("origin", [3.0])}


_OPTION_VALUES = {
    # option -> (json value, constructor keyword value factory)
    "survival": (False, lambda: False),
    "origin_is_root_edge": (True, lambda: True),
    "relative_times": (True, lambda: True),
    "removal_probability": ({"id": "r", "type": "Parameter", "tensor": [0.5]}, None),
    "times": ({"id": "times", "type": "Parameter", "tensor": [0.0]}, None),
    "times_list": ([0.0], None),
}


def _real_effect(cls_name, option):
    """value of the model built by the REAL from_json with the option set, and of the model constructed directly
    with the same option -> (value_from_json | exception text, value_direct)"""
    import copy
    from torchtree.core.parameter import Parameter
    mod, klass = _cls(cls_name)
    spec = _real_spec(cls_name)
    base = klass.from_json(copy.deepcopy(spec), {})
    key = "times" if option == "times_list" else option
    jv = copy.deepcopy(_OPTION_VALUES[option][0])
    spec2 = copy.deepcopy(spec)
    spec2[key] = jv
    if option in ("relative_times",) and "times" not in spec2:
        spec2["times"] = {"id": "times", "type": "Parameter", "tensor": [0.0]}
    t = lambda v: torch.tensor(v, dtype=torch.get_default_dtype())
    kw = {}
    if option == "removal_probability":
        kw[key] = Parameter("r", t([0.5]))
    elif option in ("times", "times_list"):
        kw[key] = Parameter("times", t([0.0]))
    elif option == "relative_times":
        kw[key] = True
        kw["times"] = Parameter("times", t([0.0]))
    else:
        kw[key] = _OPTION_VALUES[option][1]()
    if cls_name == "BDSKModel":
        direct = klass("bd2", base.tree_model, base.R, base.delta, base.s, **dict(dict(rho=base.rho, origin=base.origin), **kw))
    else:
        direct = klass("bd2", base.tree_model, base.lambda_, base.mu, base.psi, base.rho, base.origin, **kw)
    want = float(direct().reshape(-1)[0])
    try:
        got = float(klass.from_json(spec2, {})().reshape(-1)[0])
    except Exception as e:
        got = "%s: %s" % (type(e).__name__, e)
    return got, want, float(base().reshape(-1)[0])


def replay_options(args):
    cls_name, arg = args["cls"], args["arg"]
    option = args.get("option") or arg
    if option == "times" and not args.get("option"):
        option = "times_list"
    if option not in _OPTION_VALUES:
        try:
            check_option(cls_name, arg)
        except Refuted as e:
            return False, "provenance check on the real from_json fails: %s" % e.detail
        return True, "provenance holds"
    try:
        got, want, base = _real_effect(cls_name, option)
    except Exception as e:
        return False, "real %s with option %s raises %s: %s" % (cls_name, option, type(e).__name__, e)
    try:
        mod, klass = _cls(cls_name)
        import copy
        b0 = klass.from_json(copy.deepcopy(_real_spec(cls_name)), {})
        d0 = (klass("bd0", b0.tree_model, b0.R, b0.delta, b0.s, rho=b0.rho, origin=b0.origin) if cls_name == "BDSKModel"
              else klass("bd0", b0.tree_model, b0.lambda_, b0.mu, b0.psi, b0.rho, b0.origin))
        dv = float(d0().reshape(-1)[0])
        if abs(dv - base) > 1e-9 * max(1.0, abs(dv)):
            return False, ("real %s.from_json WITHOUT optional keys gives %.12g; the model constructed directly with the documented "
                           "defaults gives %.12g (a default differs)" % (cls_name, base, dv))
    except Exception as e:
        return False, "real %s built from the specification without optional keys: %s: %s" % (cls_name, type(e).__name__, e)
    if isinstance(got, str):
        return False, "real %s.from_json with %r set, then model(): %s (directly constructed model gives %.12g)" % (cls_name, option, got, want)
    if abs(got - want) > 1e-9 * max(1.0, abs(want)):
        return False, ("real %s.from_json with %r set gives %.12g; the model constructed directly with that option gives %.12g; "
                       "without the option %.12g" % (cls_name, option, got, want, base))
    return True, "from_json honours %r: %.12g (without the option %.12g)" % (option, got, base)


def ob_option(cls_name, arg):
    def fn():
        try:
            return check_option(cls_name, arg)
        except Refuted as e:
            rp = {"kind": "custom", "contract": "C09", "func": "replay_options", "args": {"cls": cls_name, "arg": arg}}
            ok, msg = replay_options(rp["args"])
            raise Refuted(e.detail + " || real objects: " + msg, witness=e.witness, replay=rp, confirmed=not ok)
    return fn


def ob_option_effect(cls_name, option):
    def fn():
        rp = {"kind": "custom", "contract": "C09", "func": "replay_options", "args": {"cls": cls_name, "arg": option, "option": option}}
        ok, msg = replay_options(rp["args"])
        if not ok:
            raise Refuted(msg, witness={"class": cls_name, "option": option, "spec": "3 taxa %s, dates %s" % (_NEWICK, _TAXA)}, replay=rp, confirmed=True)
        return {"backend": "real objects from a real JSON specification", "cases": 1, "statement": msg}
    return fn


# ======================================================================================
# wellformed (AST, U)

_COMPUTE = {
    "BDSKModel": ("_call", "_sample_shape"),
    "BirthDeathModel": ("_call", "_sample_shape"),
    "PiecewiseConstantBirthDeath": ("log_prob", "log_p", "log_q", "p0"),
    "BirthDeath": ("log_prob", "log_p", "log_q"),
}


def _klass(name):
    import torchtree.evolution.bdsk as bd
    import torchtree.evolution.birth_death as bdm
    return {"BDSKModel": bd.BDSKModel, "BirthDeathModel": bdm.BirthDeathModel,
            "PiecewiseConstantBirthDeath": bd.PiecewiseConstantBirthDeath, "BirthDeath": bdm.BirthDeath}[name]


def _self_attrs(fn_src, store):
    tree = ast.parse(textwrap.dedent(fn_src))
    out = {}
    for node in ast.walk(tree):
        if isinstance(node, ast.Attribute) and isinstance(node.value, ast.Name) and node.value.id == "self":
            if isinstance(node.ctx, ast.Store if store else ast.Load):
                out.setdefault(node.attr, node.lineno)
    return out


def attr_scan(klass, methods):
    """-> (established names, {attr: method} read but never established)"""
    established = set()
    for c in klass.__mro__:
        if c is object:
            continue
        established |= set(c.__dict__.keys())
        init = c.__dict__.get("__init__")
        if init is not None:
            try:
                established |= set(_self_attrs(inspect.getsource(init), store=True))
            except (OSError, TypeError):
                pass
    missing = {}
    for m in methods:
        f = getattr(klass, m, None)
        if f is None:
            continue
        for a in _self_attrs(inspect.getsource(f), store=False):
            if a not in established:
                missing.setdefault(a, m)
    return established, missing


def _real_instance(name):
    from torchtree.core.parameter import Parameter
    from torchtree.evolution.tree_model import TimeTreeModel
    t = lambda v: torch.tensor(v, dtype=torch.get_default_dtype())
    nh = t([0.0, 0.5, 0.75, 1.0, 2.0])
    if name in ("BDSKModel", "BirthDeathModel"):
        tm = TimeTreeModel.from_json(TimeTreeModel.json_factory("tree", _NEWICK, [1.0, 2.0], dict(_TAXA)), {})
        P = lambda n, v: Parameter(n, t(v))
        if name == "BDSKModel":
            return _klass(name)("m", tm, P("R", [1.5]), P("delta", [1.2]), P("s", [0.4]), rho=P("rho", [0.3]), origin=P("origin", [3.0])), None
        return _klass(name)("m", tm, P("lambda", [1.8]), P("mu", [0.7]), P("psi", [0.5]), P("rho", [0.3]), P("origin", [3.0])), None
    if name == "PiecewiseConstantBirthDeath":
        return _klass(name)(t([1.8]), t([0.7]), t([0.5]), rho=t([0.3]), origin=t([3.0])), nh
    return _klass(name)(t([1.8]), t([0.7]), t([0.5]), t([0.3]), t([3.0])), nh


def replay_wellformed(args):
    name = args["cls"]
    try:
        obj, nh = _real_instance(name)
        val = obj() if nh is None else obj.log_prob(nh)
    except Exception as e:
        return False, "real %s constructed with valid inputs, then called: %s: %s" % (name, type(e).__name__, e)
    return True, "real %s evaluates to %s" % (name, [round(float(x), 9) for x in val.reshape(-1)])


def ob_wellformed(name, klass=None):
    def fn():
        k = klass or _klass(name)
        established, missing = attr_scan(k, _COMPUTE.get(name, ("_call",)))
        rp = {"kind": "custom", "contract": "C09", "func": "replay_wellformed", "args": {"cls": name}}
        if missing:
            ok, msg = (True, "") if klass is not None else replay_wellformed(rp["args"])
            raise Refuted("%s: %s read %s, which neither __init__ nor the class establishes (established: %s) || %s"
                          % (name, ", ".join("%s() reads self.%s" % (m, a) for a, m in sorted(missing.items())),
                             sorted(missing), sorted(a for a in established if not a.startswith("_"))[:14], msg),
                          witness={"class": name, "undefined_attributes": sorted(missing)}, replay=rp, confirmed=not ok)
        ok, msg = replay_wellformed(rp["args"])
        if not ok:
            raise Refuted(msg, witness={"class": name}, replay=rp, confirmed=True)
        return {"backend": "ast scan + real construction", "cases": len(_COMPUTE[name]), "statement": "%s: loads of self.* ⊆ stores of __init__ ∪ class; %s" % (name, msg)}
    return fn


# ======================================================================================
# master equations (B) and numeric refinement (B)

def _rand_tree(rng, tips, grid=None):
    act = [(i, h) for i, h in enumerate(tips)]
    hs = {}
    while len(act) > 1:
        rng.shuffle(act)
        a, b = act.pop(), act.pop()
        step = rng.uniform(0.05, 0.8)
        h = max(a[1], b[1]) + step
        node = (a[0], b[0])
        hs[node] = h
        act.append((node, h))
    return act[0][0], hs, act[0][1]


ME_CONFIGS = {
    # name: m epochs, tips ('serial'|'mixed'|'iso'), rho ('none'|'present'|'one'|'thin' = present + thinning events at boundaries without tips
    #       |'thin_only' = NO sampling at the present, thinning events at every earlier boundary|'event_tips' = tips sampled AT one intermediate event|'two_events' = tips sampled at two events), survival, removal
    "m=1,serial": dict(m=1, tips="serial", rho="none"),
    "m=1,mixed,rho": dict(m=1, tips="mixed", rho="present", survival=True),
    "m=1,iso,rho=1": dict(m=1, tips="iso", rho="one"),
    "m=2,serial": dict(m=2, tips="serial", rho="none", survival=True),
    "m=2,mixed,rho": dict(m=2, tips="mixed", rho="present"),
    "m=3,serial": dict(m=3, tips="serial", rho="none"),
    "m=3,mixed,thinning": dict(m=3, tips="mixed", rho="thin", survival=True),
    "m=3,iso,thinning": dict(m=3, tips="iso", rho="thin"),
    "m=5,mixed,thinning": dict(m=5, tips="mixed", rho="thin"),
    "m=8,serial": dict(m=8, tips="serial", rho="none", survival=True),
    "m=8,mixed,thinning": dict(m=8, tips="mixed", rho="thin"),
    "m=2,tips_at_sampling_event": dict(m=2, tips="mixed", rho="event_tips"),
    "m=3,tips_at_two_sampling_events": dict(m=3, tips="mixed", rho="two_events"),
    # no sampling at the present (tips at height 0 are psi-samples) but thinning events at earlier boundaries
    "m=2,iso,thinning_only": dict(m=2, tips="iso", rho="thin_only", survival=True),
    "m=3,iso,thinning_only": dict(m=3, tips="iso", rho="thin_only"),
    "m=3,mixed,thinning_only": dict(m=3, tips="mixed", rho="thin_only", survival=True),
    "m=1,removal": dict(m=1, tips="mixed", rho="present", removal=0.4, survival=True),
    "m=2,removal,boundary_on_psi_tip": dict(m=2, tips="serial", rho="none", removal=0.4, boundary_on_tip=True),
    "m=3,removal,boundary_on_psi_tip,rho_present": dict(m=3, tips="mixed", rho="present", removal=0.7, boundary_on_tip=True, survival=True),
    "m=2,removal": dict(m=2, tips="serial", rho="none", removal=0.4),
    "m=3,removal=1": dict(m=3, tips="mixed", rho="present", removal=1.0),
}


def _me_case(name, trial, seed, twin=None):
    """one random tree + rates for configuration `name` -> (code value | exception text, ODE value, description)"""
    import torchtree.evolution.bdsk as bd
    cfg = ME_CONFIGS[name]
    rng = random.Random(zlib.crc32(("%s/%d/%d" % (name, trial, seed)).encode()))
    m, tipmode, rhomode = cfg["m"], cfg["tips"], cfg["rho"]
    removal, survival = cfg.get("removal"), cfg.get("survival", False)
    G = 0.125   # every time is a multiple of 1/8 below 64: origin - height is exact in binary floating point
    n = rng.choice([2, 3, 4, 5, 6])
    on_grid = rhomode in ("event_tips", "two_events")
    rnd_h = (lambda: G * rng.randint(1, 16))
    tips = [0.0] + [0.0 if (tipmode == "iso" or (tipmode == "mixed" and rng.random() < 0.4)) else rnd_h() for _ in range(n - 1)]
    rho_tips = set()
    ev = []
    if on_grid:
        n = max(n, 4)
        tips = (tips + [rnd_h() for _ in range(4)])[:n]
        ev = sorted(rng.sample([G * k for k in range(2, 14)], 2 if rhomode == "two_events" else 1))
        tips[1] = ev[0]
        rho_tips.add(1)
        if rhomode == "two_events":
            tips[2] = ev[1]
            rho_tips.add(2)
            tips[3] = ev[0]
            rho_tips.add(3)
        for i in range(n):
            if i not in rho_tips and tips[i] in ev:
                tips[i] += G / 2
    tree, hs, root = _rand_tree(rng, tips)
    x0 = G * (math.ceil(root / G) + rng.randint(1, 8))
    cand = [G * k + G / 3 for k in range(1, int(x0 / G) - 1)]
    cand = [c for c in cand if c < x0 - G / 2]
    on_tip = []
    if cfg.get("boundary_on_tip"):
        serial = sorted({h for h in tips if h > 0.0})
        if not serial:
            return None
        on_tip = [rng.choice(serial)]       # an epoch boundary exactly on the sampling time of a psi-sampled tip, no rho event there
    need = m - 1 - len(ev) - len(on_tip)
    if need < 0 or len(cand) < need:
        return None
    b = sorted([0.0] + ev + on_tip + rng.sample(cand, need))
    lam = [rng.uniform(0.5, 3.0) for _ in range(m)]
    mu = [rng.uniform(0.2, 2.0) for _ in range(m)]
    psi = [rng.uniform(0.1, 1.5) for _ in range(m)]
    rho = [0.0] * m
    if rhomode in ("present", "thin", "event_tips", "two_events"):
        rho[0] = rng.choice([0.3, 0.8])
    if rhomode == "one":
        rho[0] = 1.0
    if rhomode == "thin":
        for j in range(1, m):
            rho[j] = rng.choice([0.0, 0.2, 0.5])
    if rhomode == "thin_only":
        for j in range(1, m):
            rho[j] = rng.choice([0.2, 0.5])
    for e_ in ev:
        rho[b.index(e_)] = rng.choice([0.25, 0.6])
    if 0.0 in tips[1:] or tips[0] == 0.0:
        pass
    ep = S.Epochs(b, lam, mu, psi, rho, None if removal is None else [removal] * m)
    if twin == "sign_error":
        ep_ode = S.Epochs(b, lam, [-x for x in mu], psi, rho, ep.r)
    else:
        ep_ode = ep
    ode = S.ode_log_density(tree, tips, lambda s: hs[s], x0, ep_ode, survival=survival, rho_tips=rho_tips)
    if removal is not None:
        ode += S.labelled_factor_log(n)
    rev = lambda v: torch.tensor(list(reversed(v)), dtype=torch.float64)
    times = torch.tensor([0.0] + [x0 - bb for bb in reversed(b[1:])], dtype=torch.float64)
    kw = {}
    if removal is not None:
        kw["removal_probability"] = torch.tensor([removal] * m, dtype=torch.float64)
    desc = {"tips": tips, "internal": [hs[k] for k in hs], "origin": x0, "boundaries_backward": b, "lambda": lam, "mu": mu, "psi": psi,
            "rho_at_boundaries": rho, "rho_sampled_tips": sorted(rho_tips), "survival": survival, "removal": removal}
    try:
        d = bd.PiecewiseConstantBirthDeath(rev(lam), rev(mu), rev(psi), rho=rev(rho), origin=torch.tensor([x0], dtype=torch.float64),
                                           times=times, survival=survival, **kw)
        val = d.log_prob(torch.tensor(tips + [hs[k] for k in hs], dtype=torch.float64))
        code = float(val.reshape(-1)[0]) if val.numel() == 1 else "returns %d values %s" % (val.numel(), [round(float(x), 6) for x in val.reshape(-1)][:4])
    except Exception as e:
        code = "%s: %s" % (type(e).__name__, str(e)[:160])
    return code, ode, desc


def replay_master(args):
    r = _me_case(args["config"], args["trial"], args["seed"])
    code, ode, desc = r
    if isinstance(code, str):
        return False, "real log_prob on %s: %s (master equations: %.10f)" % (desc, code, ode)
    if abs(code - ode) > 1e-6 * max(1.0, abs(ode)):
        return False, "real log_prob = %.10f, master equations (RK4) = %.10f on %s" % (code, ode, desc)
    return True, "agree: %.10f" % code


def ob_master(name, trials, seed, twin=None):
    def fn():
        done = 0
        t = 0
        while done < trials and t < trials * 6:
            r = _me_case(name, t, seed, twin)
            t += 1
            if r is None:
                continue
            done += 1
            code, ode, desc = r
            bad = isinstance(code, str) or abs(code - ode) > 1e-6 * max(1.0, abs(ode))
            if bad:
                rp = {"kind": "custom", "contract": "C09", "func": "replay_master", "args": {"config": name, "trial": t - 1, "seed": seed}}
                raise Refuted("log_prob %s vs master equations %.10f (config %s, %d tips, origin %s, backward boundaries %s, rho %s)"
                              % (code if isinstance(code, str) else "%.10f" % code, ode, name, len(desc["tips"]), desc["origin"],
                                 desc["boundaries_backward"], desc["rho_at_boundaries"]),
                              witness=desc, replay=rp, confirmed=twin is None)
        if done == 0:
            raise Undecided("no admissible random case generated")
        return {"backend": "numeric (RK4 master equations vs real code)", "cases": done,
                "statement": "|log_prob - ODE| <= 1e-6 relative on %d random trees (%s)" % (done, name)}
    return fn


def _oracle_vs_ode(trials, seed):
    """the closed form transcribed from the literature agrees with the master equations (guards the trusted base)"""
    rng = random.Random(seed * 31 + 5)
    worst = 0.0
    for _ in range(trials):
        n = rng.choice([2, 3, 4, 5])
        rho = rng.choice([0.0, 0.3, 0.8, 1.0])
        tips = [0.0] + [0.0 if rng.random() < 0.5 else round(rng.uniform(0.1, 2.0), 3) for _ in range(n - 1)]
        tree, hs, root = _rand_tree(rng, tips)
        x0 = root + rng.uniform(0.1, 1.0)
        lam, mu, psi = rng.uniform(0.5, 3), rng.uniform(0.2, 2), rng.uniform(0.1, 1.5)
        r = rng.choice([1.0, 0.0, 0.35])
        surv = rng.random() < 0.5
        n_ext = sum(1 for t in tips if t == 0.0) if rho > 0 else 0
        serial = [t for t in tips if not (t == 0.0 and rho > 0)]
        if rho == 1.0 and serial:
            pass
        cf = S.log_density(x0, list(hs.values()), serial, n_ext, lam, mu, psi, rho, r=r, survival=surv)
        ode = S.ode_log_density(tree, tips, lambda s: hs[s], x0, S.Epochs([0.0], [lam], [mu], [psi], [rho], [r]), survival=surv)
        worst = max(worst, abs(cf - ode) / max(1.0, abs(ode)))
        if abs(cf - ode) > 1e-8 * max(1.0, abs(ode)):
            raise RuntimeError("oracle self-check failed: closed form %.12f vs master equations %.12f" % (cf, ode))
    return {"backend": "numeric", "cases": trials, "statement": "Stadler (2010) closed form ≡ RK4 master equations, worst relative gap %.2e" % worst}


def _model_call_case(trial, seed):
    """real BDSKModel on a real TimeTreeModel, (R, delta, s) as the class docstring defines them -> (model value, closed form)"""
    import torchtree.evolution.bdsk as bd
    from torchtree.core.parameter import Parameter
    from torchtree.evolution.tree_model import TimeTreeModel
    rng = random.Random(zlib.crc32(("model/%d/%d" % (trial, seed)).encode()))
    lam, mu, psi = rng.uniform(0.5, 3), rng.uniform(0.2, 2), rng.uniform(0.1, 1.5)
    rho = rng.choice([0.0, 0.3, 1.0])
    surv = rng.random() < 0.5
    x0 = 2.0 + rng.uniform(0.1, 2.0)
    t = lambda v: torch.tensor(v, dtype=torch.get_default_dtype())
    tm = TimeTreeModel.from_json(TimeTreeModel.json_factory("tree", _NEWICK, [1.0, 2.0], dict(_TAXA)), {})
    delta = mu + psi
    m = bd.BDSKModel("bdsk", tm, Parameter("R", t([lam / delta])), Parameter("delta", t([delta])), Parameter("s", t([psi / delta])),
                     rho=Parameter("rho", t([rho])), origin=Parameter("origin", t([x0])), survival=surv)
    got = float(m().reshape(-1)[0])
    ages = sorted(_TAXA.values())
    serial = [a for a in ages if not (a == 0.0 and rho > 0)]
    want = S.log_density(x0, [1.0, 2.0], serial, len(ages) - len(serial), lam, mu, psi, rho, r=1, survival=surv)
    return got, want, {"lambda": lam, "mu": mu, "psi": psi, "R": lam / delta, "delta": delta, "s": psi / delta, "rho": rho, "origin": x0, "survival": surv,
                       "tree": _NEWICK, "dates": _TAXA}


def replay_model_call(args):
    got, want, desc = _model_call_case(args["trial"], args["seed"])
    if abs(got - want) > 1e-9 * max(1.0, abs(want)):
        return False, "real BDSKModel() = %.12f, constant-rate density at lambda=R*delta, mu=delta(1-s), psi=delta*s = %.12f on %s" % (got, want, desc)
    return True, "agree: %.12f" % got


def ob_model_call_numeric(trials, seed):
    def fn():
        for trial in range(trials):
            got, want, desc = _model_call_case(trial, seed)
            if abs(got - want) > 1e-9 * max(1.0, abs(want)):
                raise Refuted("BDSKModel() = %.12f vs %.12f" % (got, want), witness=desc, confirmed=True,
                              replay={"kind": "custom", "contract": "C09", "func": "replay_model_call", "args": {"trial": trial, "seed": seed}})
        return {"backend": "numeric", "cases": trials, "statement": "real BDSKModel (R, delta, s) ≡ closed form at %d random points" % trials}
    return fn


def _refine_numeric_case(m, trial, seed):
    import torchtree.evolution.bdsk as bd
    rng = random.Random(zlib.crc32(("refine/%d/%d/%d" % (m, trial, seed)).encode()))
    n = rng.choice([2, 3, 4, 5])
    rho0 = rng.choice([0.0, 0.3, 1.0])
    tips = [0.0] + [0.0 if rng.random() < 0.4 else round(rng.uniform(0.1, 2.0), 3) for _ in range(n - 1)]
    tree, hs, root = _rand_tree(rng, tips)
    x0 = root + rng.uniform(0.1, 1.0)
    lam, mu, psi = rng.uniform(0.5, 3), rng.uniform(0.2, 2), rng.uniform(0.1, 1.5)
    surv = rng.random() < 0.5
    t = lambda v: torch.tensor(v, dtype=torch.float64)
    nh = t(tips + list(hs.values()))
    one = float(bd.PiecewiseConstantBirthDeath(t([lam]), t([mu]), t([psi]), rho=t([rho0]), origin=t([x0]), survival=surv).log_prob(nh))
    cuts = sorted(rng.uniform(0.01, x0 - 0.01) for _ in range(m - 1))
    split = bd.PiecewiseConstantBirthDeath(t([lam] * m), t([mu] * m), t([psi] * m), rho=t([0.0] * (m - 1) + [rho0]), origin=t([x0]),
                                           times=t([0.0] + cuts), survival=surv).log_prob(nh)
    return one, float(split.reshape(-1)[0]), {"tips": tips, "internal": list(hs.values()), "origin": x0, "forward_boundaries": cuts,
                                               "lambda": lam, "mu": mu, "psi": psi, "rho": rho0, "survival": surv}


def _refine_multi_case(k, trial, seed):
    """k epochs with pairwise different rates and thinning events at their boundaries; one epoch (random) is split at a random
    interior point into two sub-epochs with identical rates and rho = 0 at the new boundary"""
    import torchtree.evolution.bdsk as bd
    rng = random.Random(zlib.crc32(("refine-multi/%d/%d/%d" % (k, trial, seed)).encode()))
    n = rng.choice([2, 3, 4, 5])
    tips = [0.0] + [0.0 if rng.random() < 0.4 else round(rng.uniform(0.1, 2.0), 3) for _ in range(n - 1)]
    tree, hs, root = _rand_tree(rng, tips)
    x0 = root + rng.uniform(0.1, 1.0)
    cuts = sorted(rng.uniform(0.01, x0 - 0.01) for _ in range(k - 1))      # forward times of the existing boundaries
    lam = [rng.uniform(0.5, 3) for _ in range(k)]
    mu = [rng.uniform(0.2, 2) for _ in range(k)]
    psi = [rng.uniform(0.1, 1.5) for _ in range(k)]
    rho = [rng.choice([0.0, 0.2, 0.5]) for _ in range(k - 1)] + [rng.choice([0.0, 0.3, 1.0])]
    surv = rng.random() < 0.5
    j = rng.randrange(k)
    edges = [0.0] + cuts + [x0]
    new = rng.uniform(edges[j] + 1e-3, edges[j + 1] - 1e-3)
    dup = lambda v: v[: j + 1] + v[j:]
    t = lambda v: torch.tensor(v, dtype=torch.float64)
    nh = t(tips + list(hs.values()))
    base = bd.PiecewiseConstantBirthDeath(t(lam), t(mu), t(psi), rho=t(rho), origin=t([x0]), times=t([0.0] + cuts), survival=surv).log_prob(nh)
    split = bd.PiecewiseConstantBirthDeath(t(dup(lam)), t(dup(mu)), t(dup(psi)), rho=t(rho[:j] + [0.0] + rho[j:]), origin=t([x0]),
                                           times=t([0.0] + sorted(cuts + [new])), survival=surv).log_prob(nh)
    return float(base.reshape(-1)[0]), float(split.reshape(-1)[0]), {
        "tips": tips, "internal": list(hs.values()), "origin": x0, "forward_boundaries": cuts, "new_boundary": new, "split_epoch": j,
        "lambda": lam, "mu": mu, "psi": psi, "rho": rho, "survival": surv}


def replay_refine_numeric(args):
    if args.get("multi"):
        one, split, desc = _refine_multi_case(args["m"], args["trial"], args["seed"])
        if abs(one - split) > 1e-9 * max(1.0, abs(one)):
            return False, "%d epochs %.12f, after splitting epoch %d: %.12f on %s" % (args["m"], one, desc["split_epoch"], split, desc)
        return True, "agree: %.12f" % one
    one, split, desc = _refine_numeric_case(args["m"], args["trial"], args["seed"])
    if abs(one - split) > 1e-9 * max(1.0, abs(one)):
        return False, "one epoch %.12f, %d identical sub-epochs %.12f on %s" % (one, args["m"], split, desc)
    return True, "agree: %.12f" % one


def ob_refine_numeric(m, trials, seed, multi=False):
    def fn():
        for trial in range(trials):
            one, split, desc = (_refine_multi_case if multi else _refine_numeric_case)(m, trial, seed)
            if abs(one - split) > 1e-9 * max(1.0, abs(one)):
                raise Refuted(("%d epochs with different rates %.12f vs one of them split %.12f" if multi else "one epoch %.12f vs %d identical sub-epochs %.12f")
                              % ((m, one, split) if multi else (one, m, split)), witness=desc, confirmed=True,
                              replay={"kind": "custom", "contract": "C09", "func": "replay_refine_numeric",
                                      "args": {"m": m, "trial": trial, "seed": seed, "multi": multi}})
        return {"backend": "numeric", "cases": trials,
                "statement": ("%d epochs (different rates) ≡ the same with one epoch split, %d random points (rel 1e-9)" if multi
                              else "1 epoch ≡ %d identical sub-epochs at %d random points (rel 1e-9)") % (m, trials)}
    return fn


# ======================================================================================
# vacuity twins

# range of the arithmetic: fast rates over a long origin (A x duration in the hundreds) are ordinary epidemiological inputs
_RANGE_TREE = ([0.0, 0.0, 1.0, 2.5, 3.5], [1.7, 2.0, 4.0, 5.0])
_RANGE_CASES = {
    # label: lambda, mu, psi, rho, origin   (A = sqrt((lambda-mu-psi)^2 + 4 lambda psi))
    "A*T=70": (6.0, 5.0, 0.5, 0.1, 16.0),
    "A*T=280": (60.0, 50.0, 2.0, 0.1, 12.0),
    "A*T=373": (60.0, 50.0, 2.0, 0.1, 16.0),
    "A*T=700": (60.0, 50.0, 2.0, 0.1, 30.0),
    "A*T=1400,no rho": (73.0, 70.0, 20.0, 0.0, 20.0),
}


def _range_case(label, which):
    import mpmath
    import torchtree.evolution.bdsk as bd
    import torchtree.evolution.birth_death as bdc
    lam, mu, psi, rho, T = _RANGE_CASES[label]
    tips, internal = _RANGE_TREE
    mpmath.mp.dps = 60
    M = mpmath.mpf
    n_ext = sum(1 for t in tips if t == 0.0) if rho > 0 else 0
    serial = [t for t in tips if not (t == 0.0 and rho > 0)]
    want = float(S.log_density(M(T), [M(x) for x in internal], [M(x) for x in serial], n_ext, M(lam), M(mu), M(psi), M(rho), r=M(1), survival=True))
    t64 = lambda v: torch.tensor(v, dtype=torch.float64)
    h = t64(tips + internal)
    try:
        if which == "constant":
            got = bdc.BirthDeath(t64([lam]), t64([mu]), t64([psi]), t64([rho]), t64([T]), survival=True).log_prob(h)
        else:
            m = int(which)
            got = bd.PiecewiseConstantBirthDeath(t64([lam] * m), t64([mu] * m), t64([psi] * m), rho=t64([rho]), origin=t64([T]), survival=True).log_prob(h)
        got = float(got.reshape(-1)[0])
    except Exception as e:
        if not _raised_in_repo(e):
            raise
        got = "%s: %s" % (type(e).__name__, str(e)[:120])
    return got, want


def replay_range(args):
    got, want = _range_case(args["case"], args["which"])
    if isinstance(got, str) or not (abs(got - want) <= 1e-7 * max(1.0, abs(want))):
        return False, "%s, %s: real log density %s, closed form evaluated with 60 digits %.10f" % (args["case"], args["which"], got, want)
    return True, "agree: %.10f" % want


def ob_range(label, which):
    def fn():
        got, want = _range_case(label, which)
        if isinstance(got, str) or not (abs(got - want) <= 1e-7 * max(1.0, abs(want))):
            lam, mu, psi, rho, T = _RANGE_CASES[label]
            what = "constant-rate model" if which == "constant" else "skyline with %s epoch(s) of identical rates" % which
            raise Refuted("%s, lambda=%s mu=%s psi=%s rho=%s origin=%s (%s) on a 5-tip tree: log density %s, closed form evaluated with 60 digits %.10f"
                          % (what, lam, mu, psi, rho, T, label, got if isinstance(got, str) else "%.10f" % got, want),
                          witness={"case": label, "which": which, "got": got, "want": want},
                          replay={"kind": "custom", "contract": "C09", "func": "replay_range", "args": {"case": label, "which": which}}, confirmed=True)
        return {"backend": "numeric (closed form in 60-digit arithmetic vs real code)", "cases": 1,
                "statement": "%s (%s): |log density - closed form| <= 1e-7 relative" % (label, which)}
    return fn


# a sampling scheme without serial sampling in the most recent epoch (psi = 0 there) whose present-day tips are rho-sampled, serial tips older
def _psi_zero_case(removal):
    import torchtree.evolution.bdsk as bd
    tips = [0.0, 0.0, 0.0, 3.0]
    tree = (((0, 1), 2), 3)
    hs = {(0, 1): 1.0, ((0, 1), 2): 4.0, (((0, 1), 2), 3): 5.0}
    x0 = 6.0
    b = [0.0, 2.0]                       # backward boundaries: the recent epoch covers ages 0..2
    lam, mu, psi, rho = [3.0, 2.0], [1.5, 1.0], [0.0, 0.5], [0.3, 0.0]
    ep = S.Epochs(b, lam, mu, psi, rho, None if removal is None else [removal] * 2)
    ode = S.ode_log_density(tree, tips, lambda s_: hs[s_], x0, ep, survival=True)
    if removal is not None:
        ode += S.labelled_factor_log(len(tips))
    t64 = lambda v: torch.tensor(v, dtype=torch.float64)
    rev = lambda v: t64(list(reversed(v)))
    kw = {} if removal is None else {"removal_probability": t64([removal] * 2)}
    try:
        d = bd.PiecewiseConstantBirthDeath(rev(lam), rev(mu), rev(psi), rho=rev(rho), origin=t64([x0]), times=t64([0.0, x0 - b[1]]), survival=True, **kw)
        psi_p = d.psi.clone().requires_grad_(True)
        d.psi = psi_p
        val = d.log_prob(t64(tips + [hs[k] for k in hs]))
        got = float(val.reshape(-1)[0])
        val.sum().backward()
        grad = psi_p.grad.tolist()
    except Exception as e:
        if not _raised_in_repo(e):
            raise
        got, grad = "%s: %s" % (type(e).__name__, str(e)[:120]), None
    return got, ode, grad


def _psi_zero_problem(removal):
    got, ode, grad = _psi_zero_case(removal)
    if isinstance(got, str) or not (abs(got - ode) <= 1e-6 * max(1.0, abs(ode))):
        return "psi = [0.5, 0] (no serial sampling in the most recent epoch), rho = 0.3 at the present, three rho-sampled tips and one serial tip of age 3, removal=%s: log density %s, master equations %.8f" % (
            removal, got if isinstance(got, str) else repr(got), ode)
    if grad is None or any(g != g for g in grad):
        return "same scheme: the value is right (%.8f) but the gradient w.r.t. the sampling rates is %s" % (got, grad)
    return None


def ob_psi_zero(removal):
    def fn():
        msg = _psi_zero_problem(removal)
        if msg:
            raise Refuted(msg, witness={"removal": removal}, confirmed=True, replay={"kind": "custom", "contract": "C09", "func": "replay_psi_zero", "args": {"removal": removal}})
        return {"backend": "numeric (RK4 master equations vs real code)", "cases": 1, "statement": "sampling scheme with psi = 0 in the epoch of the rho-sampled tips: density = master equations, finite gradient"}
    return fn


def replay_psi_zero(args):
    msg = _psi_zero_problem(args.get("removal"))
    return (False, msg) if msg else (True, "held")


# a sampling event with rho = 1 at an inner boundary that no lineage crosses (everything alive there is sampled)
def _rho_one_problem():
    import torchtree.evolution.bdsk as bd
    t64 = lambda v: torch.tensor(v, dtype=torch.float64)
    tips = [2.0, 2.0, 2.0]
    tree = ((0, 1), 2)
    hs = {(0, 1): 3.0, ((0, 1), 2): 4.0}
    x0 = 6.0
    ep = S.Epochs([0.0, 2.0], [2.0, 2.0], [1.0, 1.0], [0.5, 0.5], [0.0, 1.0], None)     # backward: rho = 1 at age 2
    ode = S.ode_log_density(tree, tips, lambda s_: hs[s_], x0, ep, survival=True, rho_tips={0, 1, 2})
    try:
        d = bd.PiecewiseConstantBirthDeath(t64([2.0, 2.0]), t64([1.0, 1.0]), t64([0.5, 0.5]), rho=t64([1.0, 0.0]), origin=t64([x0]), times=t64([0.0, 4.0]), survival=True)
        got = float(d.log_prob(t64(tips + [3.0, 4.0])).reshape(-1)[0])
    except Exception as e:
        if not _raised_in_repo(e):
            raise
        got = "%s: %s" % (type(e).__name__, str(e)[:100])
    if isinstance(got, str) or not (abs(got - ode) <= 1e-6 * max(1.0, abs(ode))):
        return "sampling event with rho = 1 at an inner boundary (age 2) where all three tips are sampled and no lineage crosses: log density %s, master equations %.8f" % (
            got if isinstance(got, str) else repr(got), ode)
    return None


def ob_rho_one():
    def fn():
        msg = _rho_one_problem()
        if msg:
            raise Refuted(msg, witness={}, confirmed=True, replay={"kind": "custom", "contract": "C09", "func": "replay_rho_one", "args": {}})
        return {"backend": "numeric (RK4 master equations vs real code)", "cases": 1, "statement": "rho = 1 at an inner boundary without crossing lineages: density = master equations"}
    return fn


def replay_rho_one(args):
    msg = _rho_one_problem()
    return (False, msg) if msg else (True, "held")


# the MODEL wrapper with two options at once: the four ways of writing one process (absolute / relative shift times x origin / root edge)
def _model_combo_values():
    import torchtree.evolution.bdsk as bd
    from torchtree.core.parameter import Parameter
    from specs import treemodels
    t64 = lambda v: torch.tensor(v, dtype=torch.float64)
    tree, names = (((0, 1), 2), 3), ["A", "B", "C", "D"]
    tips = [0.0, 0.5, 1.0, 2.5]
    hs = {(0, 1): 1.5, ((0, 1), 2): 3.0, (((0, 1), 2), 3): 4.0}
    root, edge = 4.0, 2.0
    x0 = root + edge
    R, delta, sp = [1.5, 2.0, 1.2], [1.0, 0.8, 1.1], [0.3, 0.4, 0.2]          # forward-time order (oldest epoch first)
    shift = [0.0, 2.3, 4.7]                                                      # forward times of the rate shifts
    lam = [r_ * d_ for r_, d_ in zip(R, delta)]
    psi = [s_ * d_ for s_, d_ in zip(sp, delta)]
    mu = [d_ - p_ for d_, p_ in zip(delta, psi)]
    rho_present = 0.3
    rev = lambda v: list(reversed(v))
    ep = S.Epochs([0.0, x0 - shift[2], x0 - shift[1]], rev(lam), rev(mu), rev(psi), [rho_present, 0.0, 0.0], None)
    ode = S.ode_log_density(tree, tips, lambda s_: hs[s_], x0, ep, survival=True)
    out = {}
    for relative in (False, True):
        for root_edge in (False, True):
            tm = treemodels.build_timetree(tree, names, tips, t64([hs[(0, 1)], hs[((0, 1), 2)], root]))[0]
            kw = dict(rho=Parameter("rho", t64([rho_present])), origin=Parameter("origin", t64([edge if root_edge else x0])),
                      times=Parameter("times", t64([t_ / x0 for t_ in shift] if relative else shift)), relative_times=relative, origin_is_root_edge=root_edge, survival=True)
            try:
                m = bd.BDSKModel("bdsk", tm, Parameter("R", t64(R)), Parameter("delta", t64(delta)), Parameter("s", t64(sp)), **kw)
                out[(relative, root_edge)] = float(m().reshape(-1)[0])
            except Exception as e:
                if not _raised_in_repo(e):
                    raise
                out[(relative, root_edge)] = "%s: %s" % (type(e).__name__, str(e)[:100])
    return out, ode


def _model_combo_problem():
    out, ode = _model_combo_values()
    bad = ["relative_times=%s, origin_is_root_edge=%s: %s" % (k[0], k[1], v if isinstance(v, str) else "%.8f" % v)
           for k, v in out.items() if isinstance(v, str) or abs(v - ode) > 1e-6 * max(1.0, abs(ode))]
    if bad:
        return "BDSKModel, three epochs, one process written four ways (shift times absolute / relative to the origin x origin given / as root edge): master equations %.8f, model: %s" % (ode, "; ".join(bad))
    return None


def ob_model_combo():
    def fn():
        msg = _model_combo_problem()
        if msg:
            raise Refuted(msg, witness={}, confirmed=True, replay={"kind": "custom", "contract": "C09", "func": "replay_model_combo", "args": {}})
        return {"backend": "numeric (RK4 master equations vs real model wrapper)", "cases": 4,
                "statement": "BDSKModel: the four combinations of relative_times and origin_is_root_edge describe one process and match the master equations"}
    return fn


def replay_model_combo(args):
    msg = _model_combo_problem()
    return (False, msg) if msg else (True, "held")


# default epoch grid (times=None): the boundaries are cumulative sums of origin/m, the last of which need not be bit-equal to the origin
_GRID_ORIGINS = (6.2, 5.3, 6.0, 10.0, 7.7, 3.3)


def _default_grid_case(origin, m, survival):
    import torchtree.evolution.bdsk as bd
    t64 = lambda v: torch.tensor(v, dtype=torch.float64)
    tips, internal = [0.0, 0.0, 0.0, 0.75, 1.5], [0.5, 1.0, 2.0, 2.5]
    lam, mu, psi, rho = 2.0, 1.0, 0.5, 0.3
    want = float(S.log_density(origin, internal, [0.75, 1.5], 3, lam, mu, psi, rho, r=1.0, survival=survival))
    try:
        got = bd.PiecewiseConstantBirthDeath(t64([lam] * m), t64([mu] * m), t64([psi] * m), rho=t64([rho]), origin=t64([origin]), survival=survival).log_prob(t64(tips + internal))
        got = float(got.reshape(-1)[0])
    except Exception as e:
        if not _raised_in_repo(e):
            raise
        got = "%s: %s" % (type(e).__name__, str(e)[:120])
    return got, want


def _default_grid_problems():
    bad, n = [], 0
    for origin in _GRID_ORIGINS:
        for m in range(1, 9):
            for survival in (False, True):
                got, want = _default_grid_case(origin, m, survival)
                n += 1
                if isinstance(got, str) or not (abs(got - want) <= 1e-8 * max(1.0, abs(want))):
                    bad.append("origin %s split into %d identical epochs on the default grid (survival=%s): %s, one epoch / closed form %.10f" % (
                        origin, m, survival, got if isinstance(got, str) else "%.10f" % got, want))
    return bad, n


def ob_default_grid():
    def fn():
        bad, n = _default_grid_problems()
        if bad:
            raise Refuted("; ".join(bad[:3]), witness={"problems": bad[:12]}, replay={"kind": "custom", "contract": "C09", "func": "replay_default_grid", "args": {}}, confirmed=True)
        return {"backend": "numeric (closed form vs real code)", "cases": n, "bounded": "origins %s, 1..8 epochs" % (_GRID_ORIGINS,),
                "statement": "%d cases: rho-sampled tips at the present, identical rates on the default (times=None) grid of 1..8 epochs give the one-epoch closed form" % n}
    return fn


def replay_default_grid(args):
    bad, _ = _default_grid_problems()
    return (False, "; ".join(bad[:3])) if bad else (True, "held")


def _must_refute(make_scn, seed, what):
    def fn():
        try:
            prove_scenario(make_scn(), seed=seed, crosscheck=0)
        except Refuted as e:
            return {"backend": "nf", "cases": 1, "statement": "must-fail twin (%s) refuted: %s" % (what, e.detail[:160])}
        raise Refuted("vacuity: the must-fail twin (%s) was NOT refuted" % what, witness={"twin": what}, confirmed=False)
    return fn


def _vac_options():
    """a from_json that fills removal_probability from another key must be caught by the provenance checker"""
    import torchtree.evolution.bdsk as bd

    def bad_from_json(cls, data, dic):
        po = bd.__dict__["process_object"]
        opt = {}
        if "rho" in data:
            opt["rho"] = po(data["rho"], dic)
        opt["survival"] = data.get("relative_times", True)
        return cls(data["id"], po(data["tree_model"], dic), po(data["R"], dic), po(data["delta"], dic), po(data["s"], dic), **opt)
    try:
        check_option("BDSKModel", "survival", from_json=bad_from_json)
    except Refuted as e:
        return {"backend": "heap", "cases": 1, "statement": "must-fail twin refuted: %s" % e.detail[:160]}
    raise Refuted("vacuity: provenance checker accepted a from_json that fills survival from relative_times", confirmed=False)


def _vac_wellformed():
    class Twin:
        def __init__(self, a):
            self.a = a

        def _call(self):
            return self.a + self.b
    est, missing = attr_scan(Twin, ("_call",))
    if "b" in missing and "a" not in missing:
        return {"backend": "ast", "cases": 1, "statement": "must-fail twin refuted: _call reads self.b"}
    raise Refuted("vacuity: attribute scan missed an undefined attribute", confirmed=False)


def _vac_master(seed):
    fn = ob_master("m=2,serial", 1, seed, twin="sign_error")
    try:
        fn()
    except Refuted as e:
        return {"backend": "numeric", "cases": 1, "statement": "must-fail twin (death rate sign flipped in the ODE) refuted: %s" % e.detail[:120]}
    raise Refuted("vacuity: master-equation comparison cannot tell a sign error", confirmed=False)


# ======================================================================================

def _scenario_ob(name, factory, args, clause, seed, timeout=900, **kw):
    """like vt.scenario.scenario_ob; a refutation whose witness is not a tree is re-derived under the genealogy
    precondition (caterpillar trees), so that every reported witness lies inside the property's quantifier"""
    def body():
        import importlib
        mod = importlib.import_module("contracts.C09")
        rp = {"contract": "C09", "factory": factory, "args": list(args)}
        try:
            mod.GENEALOGY[0] = False
            return prove_scenario(getattr(mod, factory)(*args), seed=seed, replay=rp, **kw)
        except Refuted as e:
            first = e
        nf.reset()
        rp2 = {"contract": "C09", "factory": "scn_genealogy", "args": [factory, list(args)]}
        try:
            prove_scenario(scn_genealogy(factory, list(args)), seed=seed, replay=rp2, **kw)
        except Refuted as e2:
            if e2.replay is None and isinstance(e2.witness, dict) and e2.witness.get("env"):
                env = e2.witness["env"]
                raise Refuted(e2.detail, e2.witness, dict(rp2, env=env), _fails_at(scn_genealogy(factory, list(args)), env))
            raise e2
        except Undecided as u:
            raise Undecided("refuted on unordered heights (%s) but the search for a witness that is a tree was undecided: %s" % (first.detail[:200], u))
        raise Undecided("refuted only for node heights that do not form a (caterpillar) tree: %s" % first.detail[:300])
    return Ob(name, "V", body, clause=clause, funcs=FUNCS, timeout=timeout)


def _fails_at(scn, env):
    """concrete run of the scenario (real code, real torch) at env: does a claim fail there?"""
    from vt.scenario import MkNum, _num_claim_holds
    try:
        claims = scn(MkNum(env))
    except Infeasible:
        return None
    except Exception:
        return True
    return any(not _num_claim_holds(cl, 1e-9) for cl in claims)


def scn_genealogy(factory, args):
    """the scenario `factory(*args)` under the additional precondition that the heights form a caterpillar genealogy"""
    import importlib
    mod = importlib.import_module("contracts.C09")
    inner = getattr(mod, factory)(*[tuple(a) if isinstance(a, tuple) else a for a in args])

    def scn(mk):
        mod.GENEALOGY[0] = True
        try:
            return inner(mk)
        finally:
            mod.GENEALOGY[0] = False
    return scn


def _tip_schemes(T):
    """(n0 contemporaneous, rho_mode): every split of the tips, with the sampling modes that make sense for it"""
    out = []
    for n0 in range(T + 1):
        if n0 == 0:
            modes = ["zero", "sym"]
        elif n0 == T:
            modes = ["sym", "one"]
        else:
            modes = ["sym", "zero", "one"]
        for mo in modes:
            out.append((n0, mo))
    return out


def _model_world(kind, dtype=torch.float64):
    """make(indices) for specs.histories.explore: REAL BDSKModel (2 epochs, rho at the present, removal probability) / BirthDeathModel over a
    real TimeTreeModel with serial tips"""
    import torchtree.evolution.bdsk as bd
    import torchtree.evolution.birth_death as cbd
    from torchtree.core.parameter import Parameter
    from specs import treemodels
    t64 = lambda v: torch.tensor(v, dtype=dtype)
    names = ["A", "B", "C", "D"]
    tree = ((0, 1), (2, 3))
    tips = [0.0, 0.5, 0.0, 1.0]
    heights = [t64([1.2, 2.0, 3.0]), t64([2.4, 1.5, 3.3]), t64([0.9, 1.1, 4.0])]
    m_ep = 2 if kind == "bdsk" else 1
    V = {"a": [t64([1.5, 2.0][:m_ep]), t64([0.8, 2.5][:m_ep]), t64([2.2, 1.1][:m_ep])],
         "b": [t64([1.0, 0.7][:m_ep]), t64([1.4, 0.5][:m_ep]), t64([0.6, 0.9][:m_ep])],
         "c": [t64([0.3, 0.5][:m_ep]), t64([0.6, 0.2][:m_ep]), t64([0.4, 0.45][:m_ep])],
         "rho": [t64([0.4]), t64([0.7]), t64([0.15])],
         "origin": [t64([5.0]), t64([6.5]), t64([4.5])]}

    def make(idx):
        idx = idx or (0,) * 6
        tm, _ = treemodels.build_timetree(tree, names, tips, heights[idx[0]].clone())
        ps = [Parameter(k, V[k][idx[j + 1]].clone()) for j, k in enumerate(("a", "b", "c", "rho", "origin"))]
        if kind == "bdsk":
            m = bd.BDSKModel("bdsk", tm, ps[0], ps[1], ps[2], rho=ps[3], origin=ps[4], survival=True)
        else:
            m = cbd.BirthDeathModel("bd", tm, ps[0], ps[1], ps[2], ps[3], ps[4], survival=True)
        return (lambda: m()), [treemodels.tree_parameter(tm)] + ps, {"node_heights": (lambda: tm.node_heights)}, [heights] + [V[k] for k in ("a", "b", "c", "rho", "origin")]
    return make


def ob_model_history(kind, depth):
    def body():
        from specs import histories
        bad, n = histories.explore(_model_world(kind), depth, inplace=(depth <= 2))
        if bad is not None:
            hist, got, want = bad
            raise Refuted("%s model after the history %s returns %s, a freshly built model holding the current values returns %s" % (kind, hist, got, want),
                          witness={"kind": kind, "history": hist}, replay={"kind": "custom", "contract": "C09", "func": "replay_model_history", "args": {"kind": kind, "depth": depth}}, confirmed=True)
        return {"backend": "heap", "cases": n, "statement": "%d histories of parameter / height updates, reads and evaluations: the %s model returns the density of the current values" % (n, kind)}
    return Ob("C09.model.history[%s,depth<=%d]" % (kind, depth), "B", body,
              clause="BDSKModel() / BirthDeathModel() return the density of the CURRENT rates, sampling parameters, origin and node heights after every history", funcs=FUNCS)


def ob_model_dtype(kind):
    def body():
        from specs import histories
        bad, n, notes = histories.dtype_consistency(lambda dt: _model_world(kind, dt), (None, (1,) * 6, (2,) * 6))
        if bad is not None:
            raise Refuted("%s model: float32 inputs at %s give %s (%s), float64 inputs give %s" % ((kind,) + bad), witness={"kind": kind},
                          replay={"kind": "custom", "contract": "C09", "func": "replay_model_dtype", "args": {"kind": kind}}, confirmed=True)
        if n == 0:
            return {"backend": "heap", "cases": 0, "trivial": True, "raised": "; ".join(sorted(set(notes))), "statement": "%s: float32 inputs raise (loud): nothing to compare" % kind}
        return {"backend": "heap", "cases": n, "raised": "; ".join(sorted(set(notes))), "statement": "%s: float32 evaluation equals the float64 one to 1e-4 (%d points)" % (kind, n)}
    return Ob("C09.model.dtype[%s]" % kind, "B", body, clause="the density does not depend on the floating-point type the inputs are written in (to single precision)", funcs=FUNCS)


def replay_model_dtype(args):
    try:
        ob_model_dtype(args["kind"]).fn()
    except Refuted as e:
        return False, e.detail
    return True, "held"


def ob_float64_accuracy():
    """float64 inputs under torch's OWN default dtype (float32 — the environment of a library user; the other obligations run with the
    CLI's float64 default): a tensor the code allocates without a dtype must not drag the computation to single precision.  Regime where
    it matters: small sampling effort (p0 close to 1, survival conditioning).  Single epoch against the closed form (1e-8 relative) and
    refinement into 2, 4, 8 identical sub-epochs (1e-8)."""
    def body():
        import torchtree.evolution.bdsk as bd
        from vt.runner import default_dtype
        t = lambda v: torch.tensor(v, dtype=torch.float64)
        n = 0
        tips = [0.0, 0.0, 0.0, 0.0]
        branching = [1.2, 2.0, 3.0]
        x0 = 5.0
        with default_dtype(torch.float32):
            for rho in (1e-3, 1e-5, 1e-7):
                for psi in (0.0, 1e-6):
                    for surv in (True, False):
                        lam, mu = 2.0, 1.0
                        nh = t(tips + branching)
                        one = float(bd.PiecewiseConstantBirthDeath(t([lam]), t([mu]), t([psi]), rho=t([rho]), origin=t([x0]), survival=surv).log_prob(nh))
                        want = float(S.log_density(x0, branching, [], 4, lam, mu, psi, rho, survival=surv))
                        n += 1
                        if abs(one - want) > 1e-8 * max(1.0, abs(want)):
                            raise Refuted("float64 inputs, default dtype float32, rho=%g psi=%g survival=%s: single-epoch log density %.12f, closed form %.12f"
                                          % (rho, psi, surv, one, want), witness={"rho": rho, "psi": psi, "survival": surv},
                                          replay={"kind": "custom", "contract": "C09", "func": "replay_float64_accuracy", "args": {}}, confirmed=True)
                        for m in (2, 4, 8):
                            split = float(bd.PiecewiseConstantBirthDeath(t([lam] * m), t([mu] * m), t([psi] * m), rho=t([0.0] * (m - 1) + [rho]), origin=t([x0]),
                                                                           survival=surv).log_prob(nh).reshape(-1)[0])
                            n += 1
                            if abs(split - one) > 1e-8 * max(1.0, abs(one)):
                                raise Refuted("float64 inputs, default dtype float32, rho=%g psi=%g survival=%s: %d identical sub-epochs give %.12f, one epoch %.12f"
                                              % (rho, psi, surv, m, split, one), witness={"rho": rho, "psi": psi, "survival": surv, "pieces": m},
                                              replay={"kind": "custom", "contract": "C09", "func": "replay_float64_accuracy", "args": {}}, confirmed=True)
        return {"backend": "numeric", "cases": n, "statement": "%d float64 evaluations under the float32 default agree with the closed form / the unsplit epoch to 1e-8" % n}
    return Ob("C09.float64_accuracy[default dtype float32]", "B", body, clause="single epoch ≡ constant-rate density and refinement invariance at double precision when the inputs are double", funcs=FUNCS)


def replay_float64_accuracy(args):
    try:
        ob_float64_accuracy().fn()
    except Refuted as e:
        return False, e.detail
    return True, "held"


def replay_model_history(args):
    try:
        ob_model_history(args["kind"], args["depth"]).fn()
    except Refuted as e:
        return False, e.detail
    return True, "held"


def obligations(tier, seed):
    obs = []
    thorough = tier == "thorough"

    def sc(name, factory, args, clause, **kw):
        kw.setdefault("max_paths", 20000)
        # normal cost is < 15 s per obligation; a tree on which the algebra no longer collapses (wrong A_i/B_i) makes the symbolic
        # run itself explode: bounded by the budget -> UNDECIDED for that obligation, the numeric (B) obligations still decide
        kw.setdefault("timeout", 240 if not thorough else 600)
        obs.append(_scenario_ob(name, factory, args, clause, seed, **kw))

    # ---- options (U) and their effect on real objects (B)
    for cls_name in ("BDSKModel", "BirthDeathModel"):
        params, _ = _ctor_params(_cls(cls_name)[1])
        for p in params:
            obs.append(Ob("C09.options.%s[%s]" % (cls_name, p.name), "U", ob_option(cls_name, p.name),
                          clause="JSON options select the behaviour they name", funcs=FUNCS))
    for option in _OPTION_VALUES:
        if option == "times_list":
            continue    # same call site as C09.options.BDSKModel[times] (whose replay runs it on real objects)
        obs.append(Ob("C09.options.effect.BDSKModel[%s]" % option, "B", ob_option_effect("BDSKModel", option),
                      clause="JSON options select the behaviour they name", funcs=FUNCS))

    # ---- wellformed (U)
    for name in ("BDSKModel", "BirthDeathModel", "PiecewiseConstantBirthDeath", "BirthDeath"):
        obs.append(Ob("C09.wellformed.%s" % name, "U", ob_wellformed(name), clause="attributes read are established", funcs=FUNCS))

    # ---- single epoch ≡ Stadler 2010 (V)
    cl = "single epoch ≡ constant-rate birth-death-sampling density"
    Ts = [2, 3, 4] + ([5] if thorough else [])
    for T in Ts:
        for n0, mo in _tip_schemes(T):
            if n0 == T and mo == "zero":
                continue
            for surv in (False, True):
                for rem in (None, "sym"):
                    if not thorough and T == 4 and (surv is False and rem == "sym"):
                        continue
                    if rem == "sym" and n0 == T:
                        continue    # no serial tip: the removal probability does not enter
                    sc("C09.single_epoch[T=%d,tips=%dc+%ds,rho=%s,survival=%s,removal=%s]" % (T, n0, T - n0, mo, surv, rem),
                       "scn_single_epoch", (T, n0, mo, surv, rem), cl)
    for T in (2, 3):
        for n0, mo in ((1, "sym"), (0, "zero")):
            sc("C09.single_epoch.origin_is_root_edge[T=%d,tips=%dc+%ds,rho=%s]" % (T, n0, T - n0, mo), "scn_single_epoch",
               (T, n0, mo, True, None, "root_edge"), "origin_is_root_edge: origin = root height + edge")
            sc("C09.single_epoch.explicit_times[T=%d,tips=%dc+%ds,rho=%s]" % (T, n0, T - n0, mo), "scn_single_epoch",
               (T, n0, mo, True, None, "origin", "explicit"), cl)
    for rem in ("one", "zero"):
        sc("C09.single_epoch[T=3,tips=1c+2s,rho=sym,survival=True,removal=%s]" % rem, "scn_single_epoch", (3, 1, "sym", True, rem), cl)
    # all tips at the present and no contemporaneous sampling: the tips are psi-samples at time 0
    for T in (2, 3):
        sc("C09.single_epoch.rho0_contemporaneous[T=%d]" % T, "scn_single_epoch", (T, T, "zero", True, None),
           "single epoch ≡ constant-rate density (tips at the present, rho = 0: sampled through psi)")
    for T in (2, 3):
        sc("C09.single_epoch.removal_one_vs_none[T=%d]" % T, "scn_removal_consistency", (T, 1, "sym", True),
           "removal probability 1 ≡ no removal probability + (N-1) log 2 (sampled-ancestor tree-space constant, parameter-free)")
    for T, tips in ((2, [0.0, 1.0]), (3, [0.0, 0.0, 1.5]), (3, [0.0, 1.0, 2.0])):
        sc("C09.single_epoch.model_call[T=%d,tips=%s]" % (T, tips), "scn_model_call", (T, tips, "sym", True),
           "BDSKModel._call: (R, delta, s) parameterisation of the same density")

    for removal in (None, 0.4):
        obs.append(Ob("C09.master_equations.psi_zero_recent_epoch[removal=%s]" % removal, "B", ob_psi_zero(removal),
                      clause="matches the master equations for a sampling scheme without serial sampling in the epoch that holds the rho-sampled tips", funcs=FUNCS))
    obs.append(Ob("C09.master_equations.rho_one_at_inner_boundary", "B", ob_rho_one(),
                  clause="matches the master equations for a sampling event that samples every lineage alive (rho = 1 is inside the unit interval)", funcs=FUNCS))
    obs.append(Ob("C09.model.options_combined[relative_times x origin_is_root_edge]", "B", ob_model_combo(),
                  clause="options given in a specification select the behaviour they name, also in combination (model wrapper against the master equations)", funcs=FUNCS))
    obs.append(Ob("C09.refine.default_grid", "B", ob_default_grid(), clause="unchanged when an epoch is split into sub-epochs with identical rates (default grid: boundaries that are sums of origin/m)", funcs=FUNCS))
    for label in _RANGE_CASES:
        for which in ("1", "3", "constant"):
            obs.append(Ob("C09.range[%s,%s]" % (label, "constant model" if which == "constant" else "epochs=" + which), "B", ob_range(label, which),
                          clause="single epoch ≡ constant-rate density ≡ split epochs, for fast rates over a long origin (range of the arithmetic)", funcs=FUNCS))
    obs.append(Ob("C09.single_epoch.model_call.numeric", "B", ob_model_call_numeric(10 if thorough else 4, seed),
                  clause="BDSKModel._call: (R, delta, s) parameterisation of the same density", funcs=FUNCS))

    # ---- the repository's constant model (V)
    for T in (2, 3):
        for n0, mo in _tip_schemes(T):
            if n0 == T and mo == "zero":
                continue
            for surv in ((False, True) if thorough or T == 2 else (True,)):
                sc("C09.constant_model[T=%d,tips=%dc+%ds,rho=%s,survival=%s]" % (T, n0, T - n0, mo, surv), "scn_constant_model",
                   (T, n0, mo, surv), "skyline with one epoch ≡ constant model")

    # ---- refinement (V)
    cl = "splitting an epoch (identical rates, no sampling at the new boundary) leaves the density unchanged"
    Ts = [2, 3] + ([4] if thorough else [])
    for T in Ts:
        for n0, mo in _tip_schemes(T):
            if n0 == T and mo == "zero":
                continue
            for surv in ((False, True) if T == 2 or thorough else (True,)):
                sc("C09.refine[T=%d,tips=%dc+%ds,rho=%s,survival=%s,boundary=generic]" % (T, n0, T - n0, mo, surv), "scn_refine",
                   (T, n0, mo, surv, None, "generic"), cl)
            if T <= 3:
                sc("C09.refine[T=%d,tips=%dc+%ds,rho=%s,survival=True,boundary=default_grid]" % (T, n0, T - n0, mo), "scn_refine",
                   (T, n0, mo, True, None, "default"), cl)
            if T - n0 >= 1 and T <= 3:
                sc("C09.refine[T=%d,tips=%dc+%ds,rho=%s,survival=True,boundary=on_serial_tip]" % (T, n0, T - n0, mo), "scn_refine",
                   (T, n0, mo, True, None, "tip0"), cl + " (boundary exactly on a sampling time)")
            if T <= 3:
                sc("C09.refine[T=%d,tips=%dc+%ds,rho=%s,survival=True,boundary=on_branching_time]" % (T, n0, T - n0, mo), "scn_refine",
                   (T, n0, mo, True, None, "node0"), cl + " (boundary exactly on a branching time)")
    for T, n0, mo in ((2, 1, "sym"), (3, 1, "sym"), (2, 0, "zero")):
        if T == 2:
            sc("C09.refine.three_pieces[T=%d,tips=%dc+%ds,rho=%s]" % (T, n0, T - n0, mo), "scn_refine", (T, n0, mo, True, None, "generic", 3), cl)
        sc("C09.refine.removal[T=%d,tips=%dc+%ds,rho=%s]" % (T, n0, T - n0, mo), "scn_refine", (T, n0, mo, True, "sym", "generic"),
           cl + " (with removal probability)")
        sc("C09.refine.removal[T=%d,tips=%dc+%ds,rho=%s,boundary=on_serial_tip]" % (T, n0, T - n0, mo), "scn_refine", (T, n0, mo, True, "sym", "tip0"),
           cl + " (with removal probability, boundary exactly on a sampling time)")
    # an epoch of a model whose epochs carry DIFFERENT rates: the symbolic identity (scn_refine23) exceeds the normal-form budget
    # (B_i of the older epochs are nested rational functions of p_{i+1}); decided numerically only (bounded)
    for m in (2, 4, 8):
        obs.append(Ob("C09.refine.numeric[m=%d]" % m, "B", ob_refine_numeric(m, 10 if thorough else 4, seed), clause=cl, funcs=FUNCS))
    for k in (2, 3, 7):
        obs.append(Ob("C09.refine.numeric.different_rates[%d->%d epochs]" % (k, k + 1), "B", ob_refine_numeric(k, 10 if thorough else 4, seed, multi=True),
                      clause=cl + " (other epochs carry different rates)", funcs=FUNCS))

    # ---- relative times (V)
    for m in (1, 2):
        sc("C09.relative_times[m=%d,T=2]" % m, "scn_relative_times", (2, 1, "sym", True, m), "relative_times: times are fractions of the origin")
    sc("C09.relative_times[m=2,T=2,origin_is_root_edge]", "scn_relative_times", (2, 1, "sym", True, 2, True),
       "relative_times with origin_is_root_edge: fractions of the origin (root height + edge)")

    # ---- master equations (B)
    trials = 10 if thorough else 3
    obs.append(Ob("C09.oracle.closed_form_vs_master_equations", "B", lambda: _oracle_vs_ode(40 if thorough else 12, seed),
                  clause="trusted base guard: literature formula ≡ master equations", funcs=FUNCS))
    obs.append(ob_float64_accuracy())
    for kind_ in ("bdsk", "birth_death"):
        obs.append(ob_model_history(kind_, 2))
        obs.append(ob_model_history(kind_, 3))
        obs.append(ob_model_dtype(kind_))
    for name in ME_CONFIGS:
        obs.append(Ob("C09.master_equations[%s]" % name, "B", ob_master(name, trials, seed),
                      clause="matches numerical integration of the birth-death master equations along the tree", funcs=FUNCS))

    # ---- vacuity
    obs.append(Ob("C09.vacuity.single_epoch.mu_psi_swapped", "V",
                  _must_refute(lambda: scn_single_epoch(2, 1, "sym", False, None, twin="swap_mu_psi"), seed, "oracle with mu and psi swapped"),
                  clause="vacuity", funcs=FUNCS))
    obs.append(Ob("C09.vacuity.refine.rho_at_new_boundary", "V",
                  _must_refute(lambda: scn_refine(2, 1, "sym", True, None, "generic", twin="rho_at_new_boundary"), seed, "sampling event rho=1/2 at the new boundary"),
                  clause="vacuity", funcs=FUNCS))
    obs.append(Ob("C09.vacuity.options.wrong_key", "U", _vac_options, clause="vacuity", funcs=FUNCS))
    obs.append(Ob("C09.vacuity.wellformed.undefined_attribute", "U", _vac_wellformed, clause="vacuity", funcs=FUNCS))
    obs.append(Ob("C09.vacuity.master_equations.sign_error", "B", lambda: _vac_master(seed), clause="vacuity", funcs=FUNCS))
    return obs
