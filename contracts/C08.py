"""C08 — coalescent priors equal the Kingman density of their demographic function (DESIGN 4, C08).

Contract for every coalescent `log_prob` (and the model `_call` wrappers):
   requires  sampling times (any: contemporaneous, serial, tied), coalescent times forming a genealogy
             (never fewer than two lineages at a coalescence), population sizes > 0, growth rates real (generic != 0; = 0 as separate scenarios)
   ensures   result ≡ - Σ_intervals C(k,2) ∫ 1/N  - Σ_coal log N(t)      (specs/kingman.py)
The coalescent times are symbolic and UNORDERED: the forking argsort explores every feasible ordering
of the events (including their interleaving with sampling times and grid points); each path is an
exact identity.  Consequences (all pieces equal ≡ constant model; scaling law) are checked on the same terms.
"""
import itertools
import json
import random

import torch

from specs import kingman
from vt import nf
from vt.runner import Ob, Refuted
from vt.scenario import el, scenario_ob, slog
from vt.stubs import symbolic_factories

FUNCS = [
    "torchtree.evolution.coalescent:ConstantCoalescent.log_prob",
    "torchtree.evolution.coalescent:ExponentialCoalescent.log_prob",
    "torchtree.evolution.coalescent:PiecewiseConstantCoalescent._sorted_terms",
    "torchtree.evolution.coalescent:PiecewiseConstantCoalescent.log_prob",
    "torchtree.evolution.coalescent:PiecewiseConstantCoalescentGrid._sorted_terms",
    "torchtree.evolution.coalescent:PiecewiseConstantCoalescentGrid.log_prob",
    "torchtree.evolution.coalescent:PiecewiseLinearCoalescentGrid.log_prob",
    "torchtree.evolution.coalescent:PiecewiseExponentialCoalescentGrid.log_prob",
    "torchtree.evolution.coalescent:AbstractCoalescentModel._call",
    "torchtree.evolution.coalescent:ConstantCoalescentModel.distribution",
    "torchtree.evolution.coalescent:ExponentialCoalescentModel.distribution",
    "torchtree.evolution.coalescent:PiecewiseConstantCoalescentModel.distribution",
    "torchtree.evolution.coalescent:PiecewiseConstantCoalescentGridModel.distribution",
]

META = {
    "level": "other",
    "explanation": "All coalescent times, population sizes and growth rates are symbolic; the number of taxa, the sampling "
                   "scheme and the grid are enumerated. Every feasible ordering of events is a separate path (forking argsort), "
                   "so 'any order in which node heights are supplied' and every interleaving with sampling times / grid points is "
                   "covered for the enumerated sizes. The property's n<=50 is far beyond the enumeration (n<=4, 5 for the constant "
                   "model), hence shape-bounded.",
    "bound": "taxa 2..4 (5 for constant / skyride in thorough), grids of 1..3 points incl. points before the first coalescence and beyond the root, batch shapes (),(2,) at T<=3",
    "trusted_base": [
        "real arithmetic; exp/log rewrite rules of vt.nf",
        "ties between a symbolic coalescent time and a sampling time / grid point are measure-zero paths explored with the stable order only",
        "torch.argsort/gather/cumsum/bucketize/where meaning as implemented in vt.symtorch (cross-checked numerically each run)",
    ],
    "assumptions": ["machine arithmetic treated as mathematical (reals) in the V obligations; the float range of the growth rate is decided by the bounded C08.growth_range obligations", "symbolic growth rates are in generic position (!= 0); growth exactly 0 (N constant) is proved separately (C08.exponential.zero_growth, C08.piecewise_exponential.flat_pieces)"],
}

MANIFEST = {
    "category": "other",
    "text": "The real log_prob of every coalescent model is executed on symbolic, unordered coalescent times; every feasible "
            "event ordering is explored by forking and on each path the result is proved identical to the Kingman formula "
            "generated independently from the statement, for all positive population sizes and real growth rates. Bounded in "
            "the number of taxa (<=4/5) and grid size (<=3).",
    "note": "Shape-bounded (taxa, grid); reals instead of doubles; growth=0 proved as separate scenarios; measure-zero ties only with the stable order.",
    "technique": "sidecar contracts + symbolic execution with path forking over event orderings + exact normal form (exp/log theory) against an independent Kingman oracle",
}

SCHEMES = {
    "iso": lambda T: [0.0] * T,
    "serial": lambda T: [0.0] + [float(i) for i in range(1, T)],
    "ties": lambda T: [0.0, 0.0] + [1.5] * (T - 2),
    "serial2": lambda T: [0.5 * i * i for i in range(T)],
    # heights need not start at 0 (log_prob takes arbitrary node heights)
    "shifted": lambda T: [1.5] * T,
    "shifted_serial": lambda T: [0.5 + 0.75 * i for i in range(T)],
}


def _heights(mk, T, batch, tips):
    """node heights tensor [..., 2T-1]: tip ages then symbolic internal heights (unordered)"""
    h = mk.real("h", batch + (T - 1,), lo=0)
    tip = torch.tensor(tips, dtype=torch.float64).expand(batch + (T,))
    return torch.cat((tip, h), -1), h


def _require_genealogy(mk, tips, h, hbatch, T, grid=None):
    """domain: the times describe a genealogy (>= 2 lineages at every coalescence); symbolic times are
    pairwise distinct and distinct from sampling times and grid points (ties have measure zero).
    Evaluated BEFORE the code under contract runs, so invalid orderings are never handed to it."""
    for b in itertools.product(*[range(s) for s in hbatch]):
        coal = [el(h, b + (i,)) for i in range(T - 1)]
        if mk.symbolic:
            pts = sorted(set(list(tips) + list(grid or [])))
            for i, c in enumerate(coal):
                for p in pts:
                    mk.require(c != p)
                for c2 in coal[:i]:
                    mk.require(c != c2)
        ev = kingman.sort_events([(t, "tip") for t in tips] + [(c, "coal") for c in coal])
        k = 0
        for t, kind in ev:
            if kind == "tip":
                k += 1
            else:
                if k < 2:
                    mk.require(False)
                k -= 1


def scn_coalescent(model, T, scheme, hbatch, tbatch, grid=None):
    hbatch, tbatch = tuple(hbatch), tuple(tbatch)
    tips = SCHEMES[scheme](T)

    def scn(mk):
        import torchtree.evolution.coalescent as co
        from vt import cond
        cond.TIES[0] = "assume_distinct"
        with symbolic_factories(co, enabled=mk.symbolic):
            nh, h = _heights(mk, T, hbatch, tips)
            _require_genealogy(mk, tips, h, hbatch, T, grid)
            # sample dimensions follow torch's broadcasting (a dimension of size one stands for every sample)
            out_batch = tuple(torch.broadcast_shapes(hbatch, tbatch))

            def _ix(b, shape):
                sub = b[len(b) - len(shape):] if shape else ()
                return tuple(0 if shape[k_] == 1 else sub[k_] for k_ in range(len(shape)))
            tb_ = lambda b: _ix(b, tbatch)
            if model == "constant":
                theta = mk.real("theta", tbatch + (1,), lo=0)
                dist = co.ConstantCoalescent(theta)
                mkdemo = lambda b: kingman.Constant(el(theta, tb_(b) + (0,)))
            elif model == "exponential":
                theta = mk.real("theta", tbatch + (1,), lo=0)
                g = mk.real("growth", tbatch + (1,))
                if mk.symbolic:
                    # generic position; growth exactly 0 (the removable 0/0 of the closed form, N constant) is the model "exponential_zero"
                    for b in itertools.product(*[range(s_) for s_ in tbatch]):
                        mk.require(el(g, b + (0,)) != 0)
                dist = co.ExponentialCoalescent(theta, g)
                mkdemo = lambda b: kingman.Exponential(el(theta, tb_(b) + (0,)), el(g, tb_(b) + (0,)))
            elif model == "skyride":
                theta = mk.real("theta", tbatch + (T - 1,), lo=0)
                dist = co.PiecewiseConstantCoalescent(theta)
                mkdemo = lambda b: kingman.Skyride([el(theta, tb_(b) + (i,)) for i in range(T - 1)])
            elif model == "skygrid":
                G = len(grid)
                theta = mk.real("theta", tbatch + (G + 1,), lo=0)
                dist = co.PiecewiseConstantCoalescentGrid(theta, torch.tensor(grid, dtype=torch.float64))
                mkdemo = lambda b: kingman.GridConstant([el(theta, tb_(b) + (i,)) for i in range(G + 1)], grid)
            elif model == "linear_equal_knots":
                # two neighbouring knots share one value (a flat piece inside the grid), the last knot differs
                G = len(grid)
                ab = mk.real("theta", (2,), lo=0)
                if mk.symbolic:
                    mk.require(el(ab, (0,)) != el(ab, (1,)))
                theta = torch.cat((ab[:1].expand(G), ab[1:]), -1) if G >= 1 else ab[1:]
                dist = co.PiecewiseLinearCoalescentGrid(theta, torch.tensor(grid, dtype=torch.float64))
                mkdemo = lambda b: kingman.GridLinear([el(theta, (i,)) for i in range(G + 1)], grid)
            elif model == "linear":
                G = len(grid)
                theta = mk.real("theta", tbatch + (G + 1,), lo=0)
                if mk.symbolic:
                    # generic position: neighbouring knots differ (the equal case is the removable 0/0 limit,
                    # covered by C08.consequences with identical knots)
                    for b in itertools.product(*[range(s_) for s_ in tbatch]):
                        for i in range(G):
                            mk.require(el(theta, b + (i,)) != el(theta, b + (i + 1,)))
                dist = co.PiecewiseLinearCoalescentGrid(theta, torch.tensor(grid, dtype=torch.float64))
                mkdemo = lambda b: kingman.GridLinear([el(theta, tb_(b) + (i,)) for i in range(G + 1)], grid)
            elif model == "piecewise_exponential":
                G = len(grid)
                theta = mk.real("theta", tbatch + (1,), lo=0)
                g = mk.real("growth", tbatch + (G + 1,))
                if mk.symbolic:
                    for b in itertools.product(*[range(s_) for s_ in tbatch]):
                        for i in range(G + 1):
                            mk.require(el(g, b + (i,)) != 0)
                dist = co.PiecewiseExponentialCoalescentGrid(theta, g, torch.tensor(grid, dtype=torch.float64))
                mkdemo = lambda b: kingman.GridExponential(el(theta, tb_(b) + (0,)), [el(g, tb_(b) + (i,)) for i in range(G + 1)], grid)
            elif model == "exponential_zero":
                # growth exactly 0: N(t) = theta exp(-0 t) = theta
                theta = mk.real("theta", tbatch + (1,), lo=0)
                g = torch.zeros(tbatch + (1,), dtype=torch.float64)
                dist = co.ExponentialCoalescent(theta, g)
                mkdemo = lambda b: kingman.Constant(el(theta, tb_(b) + (0,)))
            elif model == "piecewise_exponential_zero":
                # every second piece flat (growth exactly 0), starting with the first
                G = len(grid)
                theta = mk.real("theta", tbatch + (1,), lo=0)
                gs = mk.real("growth", tbatch + (G + 1,))
                if mk.symbolic:
                    for b in itertools.product(*[range(s_) for s_ in tbatch]):
                        for i in range(G + 1):
                            mk.require(el(gs, b + (i,)) != 0)
                keep = torch.tensor([float(i % 2) for i in range(G + 1)], dtype=torch.float64)
                g = gs * keep
                dist = co.PiecewiseExponentialCoalescentGrid(theta, g, torch.tensor(grid, dtype=torch.float64))
                mkdemo = lambda b: kingman.GridExponential(el(theta, tb_(b) + (0,)), [el(g, tb_(b) + (i,)) for i in range(G + 1)], grid)
            else:
                raise ValueError(model)
            res = dist.log_prob(nh)
        spec = []
        for b in itertools.product(*[range(s) for s in out_batch]):
            hb = _ix(b, hbatch)
            coal = [el(h, hb + (i,)) for i in range(T - 1)]
            spec.append(kingman.log_density(tips, coal, mkdemo(b)))
        cl = [("true", "result_shape", tuple(res.shape) == out_batch + (1,), "%s vs %s" % (tuple(res.shape), out_batch + (1,)))]
        if tuple(res.shape) == out_batch + (1,):
            cl.append(("eq", "log_prob_is_kingman", res, spec))
        return cl
    return scn


def scn_consequences(T, scheme, grid):
    """all pieces equal ≡ constant model; scaling times and sizes by c shifts by -(T-1) log c"""
    tips = SCHEMES[scheme](T)

    def scn(mk):
        import torchtree.evolution.coalescent as co
        from vt import cond
        cond.TIES[0] = "assume_distinct"
        with symbolic_factories(co, enabled=mk.symbolic):
            nh, h = _heights(mk, T, (), tips)
            _require_genealogy(mk, tips, h, (), T, grid)
            theta = mk.real("theta", (1,), lo=0)
            c = mk.real("c", (), lo=0)
            G = len(grid)
            base = co.ConstantCoalescent(theta).log_prob(nh)
            same_ride = co.PiecewiseConstantCoalescent(theta.expand(T - 1)).log_prob(nh)
            same_grid = co.PiecewiseConstantCoalescentGrid(theta.expand(G + 1), torch.tensor(grid, dtype=torch.float64)).log_prob(nh)
            same_linear = co.PiecewiseLinearCoalescentGrid(theta.expand(G + 1), torch.tensor(grid, dtype=torch.float64)).log_prob(nh)
            scaled = co.ConstantCoalescent(theta * c).log_prob(nh * c)
        return [("eq", "skyride_all_equal_is_constant", same_ride, base),
                ("eq", "skygrid_all_equal_is_constant", same_grid, base),
                ("eq", "linear_all_equal_is_constant", same_linear, base),
                ("eq", "scaling_law", scaled, base - (T - 1) * (slog(el(c)) if mk.symbolic else float(torch.log(c))))]
    return scn


def scn_model_call(T, scheme):
    """the model wrapper hands the tree's node heights (tips then internal) to log_prob"""
    tips = SCHEMES[scheme](T)

    def scn(mk):
        import torchtree.evolution.coalescent as co
        from torchtree.core.parameter import Parameter
        from specs import treemodels, trees
        names = ["A", "B", "C", "D", "E"][:T]
        tree = trees.caterpillar(list(range(T)))
        with symbolic_factories(co, enabled=mk.symbolic):
            h = mk.real("h", (T - 1,), lo=0)
            _require_genealogy(mk, treemodels.ages_of(tips), h, (), T)
            tm, newick = treemodels.build_timetree(tree, names, tips, h)
            theta = mk.real("theta", (1,), lo=0)
            m = co.ConstantCoalescentModel("c", Parameter("theta", theta), tm)
            res = m()
        ages = treemodels.ages_of(tips)
        spec = kingman.log_density(ages, [el(h, (i,)) for i in range(T - 1)], kingman.Constant(el(theta, (0,))))
        return [("eq", "model_call_is_kingman", res, [spec])]
    return scn


MODEL_WRAPPERS = ("constant", "exponential", "skyride", "skygrid", "piecewise_exponential", "linear")


def _wrapper_world(kind, dtype=torch.float64):
    """make(indices) for specs.histories.explore: a REAL coalescent model wrapper over a real TimeTreeModel (4 taxa, two cherries whose
    relative order changes between the height values, serial tips)"""
    import torchtree.evolution.coalescent as co
    from torchtree.core.parameter import Parameter
    from specs import treemodels
    t64 = lambda v: torch.tensor(v, dtype=dtype)
    names = ["A", "B", "C", "D"]
    tree = ((0, 1), (2, 3))
    tips = [0.0, 0.5, 0.0, 1.0]
    heights = [t64([1.2, 2.0, 3.0]), t64([2.4, 1.5, 3.3]), t64([0.9, 1.1, 4.0]), t64([2.0, 2.2, 2.5])]
    n_theta = {"constant": 1, "exponential": 1, "skyride": 3, "skygrid": 3, "piecewise_exponential": 1, "linear": 3}[kind]
    thetas = [t64([2.0, 3.0, 1.5][:n_theta]), t64([0.7, 1.2, 4.0][:n_theta]), t64([5.0, 0.4, 2.2][:n_theta]), t64([1.1, 1.1, 0.3][:n_theta])]
    growths = [t64([0.3, -0.5, 0.8]), t64([-0.4, 0.9, 0.2]), t64([1.1, 0.1, -0.7]), t64([0.05, 0.6, 0.6])]
    grids = [t64([0.8, 2.1]), t64([0.5, 1.4]), t64([1.0, 2.8]), t64([0.3, 3.1])]

    def make(idx):
        idx = idx or (0, 0, 0, 0)
        idx = tuple(idx) + (0,) * (4 - len(idx))
        grid = grids[idx[3]]
        gp = Parameter("grid", grid.clone())
        tm, _ = treemodels.build_timetree(tree, names, tips, heights[idx[0]].clone())
        th = Parameter("theta", thetas[idx[1]].clone())
        params, values = [treemodels.tree_parameter(tm), th], [heights, thetas]
        if kind == "constant":
            m = co.ConstantCoalescentModel("c", th, tm)
        elif kind == "exponential":
            g = Parameter("growth", growths[idx[2]][:1].clone())
            m = co.ExponentialCoalescentModel("c", th, g, tm)
            params.append(g)
            values.append([x[:1] for x in growths])
        elif kind == "skyride":
            m = co.PiecewiseConstantCoalescentModel("c", th, tm)
        elif kind == "skygrid":
            m = co.PiecewiseConstantCoalescentGridModel("c", th, gp, tm)
        elif kind == "piecewise_exponential":
            g = Parameter("growth", growths[idx[2]].clone())
            m = co.PiecewiseExponentialCoalescentGridModel("c", th, g, gp, tm)
            params.append(g)
            values.append(growths)
        else:
            m = co.PiecewiseLinearCoalescentGridModel("c", th, gp, tm)
        # index layout for explore(): [heights, theta, (growth), (grid)] -> make() reads idx[0], idx[1], idx[2] (growth), idx[3] (grid)
        slots = [0, 1] + ([2] if len(params) == 3 else [])
        if kind in ("skygrid", "piecewise_exponential", "linear"):
            params.append(gp)
            values.append(grids)
            slots.append(3)
        reads = {"node_heights": (lambda: tm.node_heights)}
        return (lambda: m()), params, reads, values, slots

    def make_mapped(idx):
        if idx is None:
            e, p, r, v, slots = make(None)
            return e, p, r, v
        probe = make(None)[4]
        full = [0, 0, 0, 0]
        for j, sl in enumerate(probe):
            full[sl] = idx[j]
        e, p, r, v, _ = make(tuple(full))
        return e, p, r, v
    return make_mapped


def ob_wrapper_history(kind, depth):
    def body():
        from specs import histories
        bad, n = histories.explore(_wrapper_world(kind), depth)
        if bad is not None:
            hist, got, want = bad
            raise Refuted("%s coalescent model after the history %s returns %s, a freshly built model holding the current values returns %s" % (kind, hist, got, want),
                          witness={"kind": kind, "history": hist}, replay={"kind": "custom", "contract": "C08", "func": "replay_wrapper_history", "args": {"kind": kind, "depth": depth}}, confirmed=True)
        return {"backend": "heap", "cases": n, "statement": "%d histories of parameter / height updates, height reads and evaluations: the %s coalescent model returns the density of the current values" % (n, kind)}
    return Ob("C08.model.history[%s,depth<=%d]" % (kind, depth), "B", body,
              clause="the model wrapper returns the Kingman density of the CURRENT parameter values and node heights after every history", funcs=FUNCS)


def ob_wrapper_dtype(kind):
    """the same model evaluated with every input in float32 and in float64 (and after model.to(float64) where supported): the float32 value
    is the float64 value to single precision (1e-4) — no integer truncation, no silent mixing — or the float32 evaluation raises"""
    def body():
        v64 = _wrapper_world(kind, torch.float64)(None)[0]()
        notes = []
        n = 1
        for idx in (None, (1, 1, 1, 1), (2, 2, 2, 2)):
            mk64 = _wrapper_world(kind, torch.float64)
            mk32 = _wrapper_world(kind, torch.float32)
            v64 = mk64(idx)[0]() if idx is None else mk64(tuple(idx[:len(mk64(None)[1])]))[0]()
            try:
                v32 = mk32(idx)[0]() if idx is None else mk32(tuple(idx[:len(mk32(None)[1])]))[0]()
            except Exception as e:
                notes.append("float32 inputs raise %s" % type(e).__name__)
                continue
            n += 1
            if not v32.dtype.is_floating_point or not torch.allclose(v32.to(torch.float64), v64, rtol=1e-4, atol=1e-4):
                raise Refuted("%s coalescent model: float32 inputs give %s (%s), float64 inputs %s" % (kind, v32.tolist(), v32.dtype, v64.tolist()),
                              witness={"kind": kind, "values_index": idx}, replay={"kind": "custom", "contract": "C08", "func": "replay_wrapper_dtype", "args": {"kind": kind}}, confirmed=True)
        return {"backend": "heap", "cases": n, "raised": "; ".join(sorted(set(notes))), "statement": "%s: float32 evaluation equals the float64 one to 1e-4 (%d points)" % (kind, n)}
    return Ob("C08.model.dtype[%s]" % kind, "B", body, clause="the density does not depend on the floating-point type the inputs are written in (to single precision)", funcs=FUNCS)


def replay_wrapper_dtype(args):
    try:
        ob_wrapper_dtype(args["kind"]).fn()
    except Refuted as e:
        return False, e.detail
    return True, "held"


def ob_json_event_data(kind):
    """models built from a JSON specification that gives the genealogy as event data ('times' or 'intervals' + 'events', no tree model) with
    float64 population sizes: the model value is the Kingman density of EXACTLY those times (decimal values that are not representable in
    single precision), 1e-10 relative against the oracle in Python floats"""
    def body():
        import torchtree.evolution.coalescent as co
        from torchtree.core.utils import process_object
        times = [0.0, 0.0, 30.013, 30.013, 30.4571, 30.4572, 30.9017, 31.3003, 33.1234567, 35.00001, 40.7]
        events = [1, 1, 1, 1, 0, 1, 0, 0, 0, 0, 0]     # 1 = sampling, 0 = coalescence (6 tips, 5 coalescences... kept consistent below)
        events = [1, 1, 1, 1, 0, 1, 0, 1, 0, 0, 0]
        tips = [t for t, e in zip(times, events) if e == 1]
        coal = [t for t, e in zip(times, events) if e == 0]
        P = lambda i, v: {"id": i, "type": "Parameter", "tensor": v, "dtype": "torch.float64"}
        n_coal = len(coal)
        specs = {
            "constant": ({"type": "ConstantCoalescentModel", "theta": P("theta", [3.7])}, lambda: kingman.Constant(3.7)),
            "exponential": ({"type": "ExponentialCoalescentModel", "theta": P("theta", [3.7]), "growth": P("growth", [0.013])}, lambda: kingman.Exponential(3.7, 0.013)),
            "skyride": ({"type": "PiecewiseConstantCoalescentModel", "theta": P("theta", [3.7, 1.3, 2.2, 5.1, 0.9][:n_coal])}, lambda: kingman.Skyride([3.7, 1.3, 2.2, 5.1, 0.9][:n_coal])),
            "skygrid": ({"type": "PiecewiseConstantCoalescentGridModel", "theta": P("theta", [3.7, 1.3, 2.2]), "grid": [30.2, 32.5]}, lambda: kingman.GridConstant([3.7, 1.3, 2.2], [30.2, 32.5])),
        }
        spec, demo = specs[kind]
        n = 0
        from vt.runner import default_dtype
        for form, dflt in (("times", torch.float64), ("intervals", torch.float64), ("times", torch.float32), ("intervals", torch.float32)):
          with default_dtype(dflt):
              d = dict(json.loads(json.dumps(spec)), id="c_%s_%s" % (form, str(dflt)[-2:]))
              d = json.loads(json.dumps(d).replace('"theta"', '"theta"'))
              for k_, v_ in list(d.items()):
                  if isinstance(v_, dict) and "id" in v_:
                      v_["id"] = v_["id"] + "_" + form + str(dflt)[-2:]
              if form == "times":
                  d["times"] = times
              else:
                  d["intervals"] = [b - a for a, b in zip(times[:-1], times[1:])]
              d["events"] = events
              m = process_object(d, {})
              got = float(m().reshape(-1)[0])
              want = float(kingman.log_density(tips, coal, demo()))
              tol = 1e-10 if form == "times" else 1e-9      # 'intervals' are re-accumulated: a few ulps of the sum
              n += 1
              if abs(got - want) > tol * max(1.0, abs(want)):
                  raise Refuted("%s coalescent built from JSON event data (%s): model returns %.12f, Kingman density of the given times %.12f"
                                % (kind, form, got, want), witness={"kind": kind, "form": form},
                                replay={"kind": "custom", "contract": "C08", "func": "replay_json_event_data", "args": {"kind": kind}}, confirmed=True)
              # the specification belongs to the caller: the SAME dict object, given other event data, is a new specification
              # (a template reused across data sets, a loop over time units): the second model is the Kingman density of the second data
              c = 2.5
              times2 = [c * t_ for t_ in times]
              if form == "times":
                  d["times"] = times2
              else:
                  d["intervals"] = [b - a for a, b in zip(times2[:-1], times2[1:])]
              d["id"] = d["id"] + "_again"
              keys_before = sorted(k_ for k_ in d if k_ not in ("times", "intervals"))
              m2 = process_object(d, {})
              got2 = float(m2().reshape(-1)[0])
              want2 = float(kingman.log_density([c * t_ for t_ in tips], [c * t_ for t_ in coal], demo()))
              n += 1
              if abs(got2 - want2) > tol * max(1.0, abs(want2)):
                  raise Refuted("%s coalescent built a second time from the same specification dict with new %s (all times x %s): model returns %.12f, Kingman density of the "
                                "given times %.12f (the first construction left keys %s in the caller's dict)" % (kind, form, c, got2, want2, sorted(set(d) - set(keys_before) - {"times", "intervals"}) or sorted(d)),
                                witness={"kind": kind, "form": form, "reuse": True},
                                replay={"kind": "custom", "contract": "C08", "func": "replay_json_event_data", "args": {"kind": kind}}, confirmed=True)
        return {"backend": "heap", "cases": n, "statement": "%s from JSON event data (times / intervals): Kingman density of exactly the given times" % kind}
    return Ob("C08.json_event_data[%s]" % kind, "B", body, clause="the density is that of the genealogy given in the specification (event-data form, float64)", funcs=FUNCS)


def replay_json_event_data(args):
    try:
        ob_json_event_data(args["kind"]).fn()
    except Refuted as e:
        return False, e.detail
    return True, "held"


def replay_wrapper_history(args):
    try:
        ob_wrapper_history(args["kind"], args["depth"]).fn()
    except Refuted as e:
        return False, e.detail
    return True, "held"


# ------------------------------------------------------------------------------------------
# exponential models over the whole range of the growth rate (0, tiny, large |growth x time|): value and reference in 50-digit arithmetic
# ------------------------------------------------------------------------------------------
_GROWTH_CASES = {
    # label: (model, tips, internal heights, theta, growth(s), grid)
    "exponential,growth=0": ("exp", [0.0, 0.0, 0.0], [1.0, 2.0], 3.0, [0.0], None),
    "exponential,growth=1e-12": ("exp", [0.0, 0.0, 0.0], [1.0, 2.0], 3.0, [1e-12], None),
    "exponential,growth=-1e-9": ("exp", [0.0, 0.5, 0.0], [1.0, 2.0], 3.0, [-1e-9], None),
    "exponential,growth=1e-8,serial": ("exp", [0.0, 0.0, 0.0, 0.0], [2.0, 6.0, 12.0], 3.0, [1e-8], None),
    "exponential,growth=0.3": ("exp", [0.0, 0.5, 0.0], [1.0, 2.0], 3.0, [0.3], None),
    "exponential,growth=-4,heights to 200": ("exp", [0.0, 0.0, 0.0], [100.0, 200.0], 3.0, [-4.0], None),
    "piecewise exponential,growth=[0,0]": ("pexp", [0.0, 0.0, 0.0], [1.0, 2.0], 3.0, [0.0, 0.0], [1.5]),
    "piecewise exponential,growth=[0.5,0]": ("pexp", [0.0, 0.0, 0.0], [1.0, 2.0], 3.0, [0.5, 0.0], [1.5]),
    "piecewise exponential,growth=[0,-0.7,0.2]": ("pexp", [0.0, 0.5, 0.0, 0.0], [1.0, 2.0, 3.5], 3.0, [0.0, -0.7, 0.2], [1.5, 2.5]),
    "piecewise exponential,growth=[1e-10,0.3]": ("pexp", [0.0, 0.0, 0.0], [1.0, 2.0], 3.0, [1e-10, 0.3], [1.5]),
    "piecewise exponential,growth=[0.4,-0.2]": ("pexp", [0.0, 0.0, 0.0], [1.0, 2.0], 3.0, [0.4, -0.2], [1.5]),
    # piecewise linear: neighbouring knots almost equal (the other removable 0/0: (log b - log a)/(b - a))
    "piecewise linear,knots one ulp apart": ("plin", [0.0, 0.0, 0.0], [1.0, 2.0], [1000.0, 1000.0000000000001, 1000.0], None, [1.5, 3.0]),
    "piecewise linear,knots 1e-9 apart": ("plin", [0.0, 0.5, 0.0], [1.0, 2.0], [3.0, 3.000000003, 2.999999999], None, [1.5, 3.0]),
    "piecewise linear,knots equal": ("plin", [0.0, 0.0, 0.0], [1.0, 2.0], [3.0, 3.0, 3.0], None, [1.5, 3.0]),
    "piecewise linear,knots apart": ("plin", [0.0, 0.0, 0.0], [1.0, 2.0], [3.0, 5.0, 2.0], None, [1.5, 3.0]),
}


def _growth_case(label):
    import mpmath
    import torchtree.evolution.coalescent as co
    model, tips, internal, theta, growth, grid = _GROWTH_CASES[label]
    mpmath.mp.dps = 50
    M = mpmath.mpf
    if model == "exp":
        demo = kingman.Exponential(M(theta), M(growth[0]))
    elif model == "plin":
        demo = kingman.GridLinear([M(x) for x in theta], [M(g) for g in grid])
    else:
        demo = kingman.GridExponential(M(theta), [M(g) for g in growth], [M(g) for g in grid])
    want = float(kingman.log_density([M(t) for t in tips], [M(t) for t in internal], demo))
    t64 = lambda v: torch.tensor(v, dtype=torch.float64)
    nh = t64(tips + internal)
    try:
        if model == "exp":
            got = co.ExponentialCoalescent(t64([theta]), t64(growth)).log_prob(nh)
        elif model == "plin":
            got = co.PiecewiseLinearCoalescentGrid(t64(theta), t64(grid)).log_prob(nh)
        else:
            got = co.PiecewiseExponentialCoalescentGrid(t64([theta]), t64(growth), t64(grid)).log_prob(nh)
        got = float(got.reshape(-1)[0])
    except Exception as e:
        from vt.scenario import _raised_in_repo
        if not _raised_in_repo(e):
            raise
        got = "%s: %s" % (type(e).__name__, str(e)[:100])
    return got, want


def _growth_bad(got, want):
    return isinstance(got, str) or not (abs(got - want) <= 1e-9 * max(1.0, abs(want)))


def ob_growth_range(label):
    def fn():
        got, want = _growth_case(label)
        if _growth_bad(got, want):
            model, tips, internal, theta, growth, grid = _GROWTH_CASES[label]
            raise Refuted("%s (tips %s, coalescent times %s, theta %s, grid %s): log density %s, Kingman density of N(t) in 50-digit arithmetic %.12f"
                          % (label, tips, internal, theta, grid, got if isinstance(got, str) else repr(got), want),
                          witness={"case": label, "got": got if isinstance(got, str) else repr(got), "want": want},
                          replay={"kind": "custom", "contract": "C08", "func": "replay_growth_range", "args": {"case": label}}, confirmed=True)
        return {"backend": "numeric (50-digit reference vs real code)", "cases": 1, "statement": "%s: |log density - Kingman density of the documented N(t)| <= 1e-9 relative" % label}
    return Ob("C08.growth_range[%s]" % label, "B", fn, clause="log density = Kingman density of the documented N(t) = theta exp(-growth t), including growth 0 (N constant), tiny growth and large |growth x time|", funcs=FUNCS)


def replay_growth_range(args):
    got, want = _growth_case(args["case"])
    if _growth_bad(got, want):
        return False, "%s: real log density %s, reference %.12f" % (args["case"], got, want)
    return True, "agree: %.12f" % want


def obligations(tier, seed):
    obs = []
    for kind in ("constant", "exponential", "skyride", "skygrid"):
        obs.append(ob_json_event_data(kind))
    for label in _GROWTH_CASES:
        obs.append(ob_growth_range(label))
    for kind in MODEL_WRAPPERS:
        obs.append(ob_wrapper_history(kind, 3 if tier == "quick" else 4))
        obs.append(ob_wrapper_dtype(kind))

    def add(name, args, clause, factory="scn_coalescent", **kw):
        kw.setdefault("max_paths", 20000)
        kw.setdefault("timeout", 900)
        obs.append(scenario_ob("C08", name, "V", factory, args, clause=clause, funcs=FUNCS, seed=seed, **kw))

    Ts = [2, 3, 4] if tier == "quick" else [2, 3, 4, 5]
    for T in Ts:
        for scheme in SCHEMES:
            if T == 2 and scheme in ("ties",):
                continue
            if scheme.startswith("shifted") and T >= 4:
                continue
            heavy = T >= 4
            for model in ("constant", "exponential", "skyride"):
                if T == 5 and model == "exponential":
                    continue
                if heavy and tier == "quick" and scheme in ("serial2",):
                    continue
                add("C08.%s[T=%d,%s]" % (model, T, scheme), (model, T, scheme, (), ()), "%s coalescent ≡ Kingman" % model)
            grids = [[0.7], [0.4, 2.5], [0.3, 1.2, 50.0]] if T <= 3 else ([[0.7], [0.4, 2.5]] if tier == "quick" else [[0.7], [0.4, 2.5], [0.3, 1.2, 50.0]])
            if T == 5:
                grids = []
            for grid in grids:
                for model in ("skygrid", "linear", "piecewise_exponential"):
                    if heavy and model != "skygrid" and (tier == "quick" or len(grid) > 2):
                        continue
                    add("C08.%s[T=%d,%s,grid=%s]" % (model, T, scheme, grid), (model, T, scheme, (), (), grid), "%s coalescent ≡ Kingman" % model)
    # batched heights and/or parameters
    for model, grid in (("constant", None), ("exponential", None), ("skyride", None), ("skygrid", [0.4, 2.5]), ("linear", [0.4, 2.5])):
        for hb, tb in (((2,), ()), ((), (2,)), ((2,), (2,))):
            if hb != tb and model in ("skyride", "linear"):
                continue  # mixed batching is not supported by these classes (they raise; C10 decides that clause)
            T = 3 if model in ("constant", "skyride") and tier == "thorough" else 2
            args = (model, T, "serial", hb, tb) + ((grid,) if grid else ())
            add("C08.%s[T=%d,serial,hbatch=%s,tbatch=%s]" % (model, T, hb, tb), args, "%s coalescent ≡ Kingman (batched)" % model)
    for T in (2, 3):
        for scheme in ("iso", "serial"):
            add("C08.exponential.zero_growth[T=%d,%s]" % (T, scheme), ("exponential_zero", T, scheme, (), ()), "exponential coalescent at growth 0 ≡ Kingman with constant N")
            for grid in ([0.7], [0.4, 2.5]):
                add("C08.piecewise_exponential.flat_pieces[T=%d,%s,grid=%s]" % (T, scheme, grid), ("piecewise_exponential_zero", T, scheme, (), (), grid),
                    "piecewise-exponential coalescent with flat pieces (growth 0) ≡ Kingman")
    add("C08.exponential.zero_growth[T=2,serial,tbatch=(2,)]", ("exponential_zero", 2, "serial", (), (2,)), "exponential coalescent at growth 0 ≡ Kingman with constant N (batched)")
    for T in (2, 3):
        for scheme in ("iso", "serial"):
            add("C08.linear.equal_knots[T=%d,%s,grid=[0.4, 2.5]]" % (T, scheme), ("linear_equal_knots", T, scheme, (), (), [0.4, 2.5]), "piecewise-linear coalescent with a flat piece inside the grid ≡ Kingman")
    for T in (2, 3):
        add("C08.consequences[T=%d]" % T, (T, "serial", [0.4, 2.5]), "same N(t) ⇒ same density; scaling law", factory="scn_consequences")
    add("C08.model_call[T=3]", (3, "serial"), "model wrapper passes tips+internal heights", factory="scn_model_call")
    add("C08.model_call[T=3,calendar]", (3, "serial2"), "model wrapper passes tips+internal heights", factory="scn_model_call")
    return obs
