"""C03 — likelihood accuracy does not degrade with tree size (no silent underflow) (DESIGN 4, C03).

Contracts
 * rescaled pruning functions ≡ plain pruning function over the reals, for EVERY positive scaler
   (torch.max replaced by the contract "returns some s > 0": stronger than the code's choice and
   avoids forking on the arg-max) — `calculate_treelikelihood_discrete_rescaled`,
   `calculate_treelikelihood_tip_states_discrete_rescaled`, `calculate_treelikelihood_discrete_safe`
   (every combination of per-node rescale decisions is a path).
 * sticky switch: once `rescale` is set every later evaluation uses the rescaled callee; only __init__ clears it.
 * guard of the switch (IEEE, one comparison): the plain result may be returned only when every site
   likelihood is a normal double.  The code's guard is `isinf(log_p)`, i.e. likelihood == 0.
"""
import ast
import inspect
import itertools
import random

import torch

from specs import treemodels, trees
from vt import nf
from vt.cond import Undecided
from vt.runner import Ob, Refuted
from vt.scenario import el, scenario_ob
from vt.stubs import symbolic_factories
from vt.symtorch import ST

FUNCS = [
    "torchtree.evolution.tree_likelihood:calculate_treelikelihood_discrete_rescaled",
    "torchtree.evolution.tree_likelihood:calculate_treelikelihood_tip_states_discrete_rescaled",
    "torchtree.evolution.tree_likelihood:calculate_treelikelihood_discrete_safe",
    "torchtree.evolution.tree_likelihood:calculate_treelikelihood_discrete",
    "torchtree.evolution.tree_likelihood:calculate_treelikelihood_tip_states_discrete",
    "torchtree.evolution.tree_likelihood:TreeLikelihoodModel.calculate_with_tip_partials",
    "torchtree.evolution.tree_likelihood:TreeLikelihoodModel.calculate_with_tip_states",
]

META = {
    "level": "other",
    "explanation": "The real-arithmetic equivalence of rescaled and plain evaluation is proved symbolically (all values, every "
                   "positive scaler, every per-node rescale decision) for all topologies up to the stated bound; the sticky flag "
                   "is a heap/AST argument; the guard clause is a single IEEE comparison decided by z3 and replayed on the real "
                   "code. Accumulated rounding error of either path (the 1e-8 clause beyond underflow) is floating point and not decided.",
    "bound": "enumerated topologies: all T<=4 quick / all T<=5 + 21 of 945 T=6 thorough, S=2, K<=2, N<=2; loop cuts: unbounded in taxa, shapes S<=4,K<=3,N<=2; guard: unbounded (one comparison)",
    "trusted_base": [
        "torch.max contract: returns (values, indices) with values > 0 when all entries are > 0 (the identity is proved for every positive scaler)",
        "real arithmetic for the equivalence; IEEE-754 double semantics of log(0) = -inf and of the sub-normal range for the guard",
        "C01 (plain pruning ≡ marginal sum) for the reference value",
    ],
    "assumptions": ["machine arithmetic treated as mathematical (reals) except in the guard obligation"],
}

MANIFEST = {
    "category": "other",
    "text": "Rescaled, 'safe' and plain pruning are proved equal over the reals for every positive choice of the scalers and every "
            "pattern of per-node rescaling decisions (symbolic execution of the real functions, exact normal form with log rules); "
            "the once-on-always-on behaviour of the switch is checked on the real model object; the guard that decides when the "
            "plain value may be returned is checked against the IEEE normal range (known finding: sub-normal band).",
    "note": "Reals except for the guard; shape-bounded equivalence (T<=5); rounding-error accumulation not decided.",
    "technique": "sidecar contracts + symbolic execution (max abstracted by its contract) + exact normal form; z3 for the IEEE guard; replay on the real code",
}


def _max_contract(mk, counter):
    real_max = torch.max

    def mx(x, dim=None, keepdim=False, **k):
        if isinstance(x, ST):
            if dim is None:
                # global maximum: contract "some positive value" (a fresh symbol; over-approximates, sound for the claims made)
                counter[0] += 1
                return mk.real("scaler%d" % counter[0], (), lo=0)
            import numpy as np
            shp = list(x.shape)
            d = dim % len(shp)
            if keepdim:
                shp[d] = 1
            else:
                shp.pop(d)
            counter[0] += 1
            s = mk.real("scaler%d" % counter[0], tuple(shp), lo=0)
            return s, torch.zeros(tuple(shp), dtype=torch.long)
        return real_max(x, dim, keepdim) if dim is not None else real_max(x)
    return mx


def scn_rescaled(variant, tree_s, S, K, batch, N_or_cols, real_max=False):
    tree = ast.literal_eval(tree_s)
    T = tree_s.count(",") + 1
    post = trees.postorder_triples(tree, T)
    batch = tuple(batch)

    def scn(mk):
        from torchtree.evolution import tree_likelihood as tl
        counter = [0]
        mats = mk.real("P", batch + (2 * T - 2, K, S, S), lo=0)
        freqs = mk.real("pi", (1, S), lo=0)
        props = mk.real("w", (K, 1, 1), lo=0)
        if variant == "states":
            cols = N_or_cols
            N = len(cols[0])
            tips = [torch.tensor(cols[i], dtype=torch.long) for i in range(T)]
        else:
            N = N_or_cols
            tips = [mk.real("tip%d" % i, (S, N), lo=0) for i in range(T)]
        weights = mk.real("wt", (N,), lo=0)
        pl = [list(p) for p in post]
        # real_max: keep torch.max (the arg-max forks): the scalers are then functions of the inputs, as C12 needs
        extra = {"max": _max_contract(mk, counter)} if (mk.symbolic and not real_max) else None
        with symbolic_factories(tl, extra=extra, enabled=mk.symbolic):
            if variant == "partials":
                plain = tl.calculate_treelikelihood_discrete(list(tips) + [None] * (T - 1), weights, pl, mats, freqs, props)
                resc = tl.calculate_treelikelihood_discrete_rescaled(list(tips) + [None] * (T - 1), weights, pl, mats, freqs, props)
            elif variant == "states":
                plain = tl.calculate_treelikelihood_tip_states_discrete(list(tips) + [None] * (T - 1), weights, pl, mats, freqs, props)
                resc = tl.calculate_treelikelihood_tip_states_discrete_rescaled(list(tips) + [None] * (T - 1), weights, pl, mats, freqs, props)
            else:  # safe: run after the plain one on the same partial list, as the model does
                partials = list(tips) + [None] * (T - 1)
                plain = tl.calculate_treelikelihood_discrete(partials, weights, pl, mats, freqs, props)
                plain = plain.clone() if not isinstance(plain, ST) else ST(plain.a.copy())
                try:
                    resc = tl.calculate_treelikelihood_discrete_safe(partials, weights, pl, mats, freqs, props, 1.0e-40 if mk.symbolic else 1.0e300)
                except ValueError as e:
                    if "non-empty list" in str(e):
                        # precondition of _safe (implied by an infinite plain value): at least one node is below the threshold
                        from vt.cond import Infeasible
                        raise Infeasible("no node below the threshold")
                    raise
        return [("true", "same_shape", tuple(plain.shape) == tuple(resc.shape), "%s vs %s" % (tuple(plain.shape), tuple(resc.shape))),
                ("eq", "rescaled_equals_plain", resc, plain)]
    return scn


def scn_rescaled_cut(variant, left_kind, right_kind, S, K, N):
    """One GENERIC iteration of the node loop of the real rescaled pruning function (body cut verbatim from source) under the
    ghost invariant  plain L(m) = partials[m]·C(m)  (C(m) = product of the scalers collected in the subtree of m, per site):
        iteration: exactly one scaler s is appended;  partials'[node]·s·C(left)·C(right) ≡ Felsenstein recursion of L(left), L(right);
                   no other entry of partials is written;
        suffix:    result ≡ Σ_n w_n [ log Σ_i pi_i Σ_k p_k partials[root][k,i,n] + Σ_{collected scalers} log s[n] ],
    i.e. log( root reduction of L ) since the collected scalers multiply to C(root).  Holds for every positive scaler (max contract)."""
    def scn(mk):
        from torchtree.evolution import tree_likelihood as tl
        from vt import loopcut
        from vt.scenario import slog
        f = tl.calculate_treelikelihood_discrete_rescaled if variant == "partials" else tl.calculate_treelikelihood_tip_states_discrete_rescaled
        c = loopcut.cut(f, 0)
        T = 5
        left = 1 if left_kind == "tip" else 6
        right = 3 if right_kind == "tip" else 5
        node = 7
        counter = [0]
        if variant == "partials":
            mats = mk.real("M", (2 * T - 2, K, S, S), lo=0)
        else:
            free = mk.real("M", (2 * T - 2, K, S, S - 1), lo=0, hi=1.0 / S)
            mats = torch.cat((free, 1.0 - free.sum(-1, keepdim=True)), -1)
        freqs = mk.real("pi", (1, S), lo=0)
        props = mk.real("w", (K, 1, 1), lo=0)
        weights = mk.real("wt", (N,), lo=0)
        partials = [None] * (2 * T - 1)
        sentinels = {}
        for m in range(2 * T - 1):
            if m not in (left, right):
                sentinels[m] = partials[m] = object()
        R, C = {}, {}
        for nm, m, kind, st in (("Rl", left, left_kind, [0, S]), ("Rr", right, right_kind, [S, 1])):
            if kind == "tip":
                R[m] = partials[m] = (mk.real(nm, (S, N), lo=0, lo_incl=True) if variant == "partials" else torch.tensor((st * N)[:N], dtype=torch.long))
                C[m] = None   # tips are not rescaled: C = 1
            else:
                R[m] = partials[m] = mk.real(nm, (K, S, N), lo=0, lo_incl=True)
                C[m] = mk.real("C" + nm, (N,), lo=0)
        post = [[5, 0, 2], [6, 5, 4], [node, left, right], [8, 7, 6]]
        extra = {"max": _max_contract(mk, counter)} if mk.symbolic else None
        with symbolic_factories(tl, extra=extra, enabled=mk.symbolic):
            state = c.prefix(partials, weights, post, mats, freqs, props)
            # the code's temporaries are identified by ROLE, not by name (a renamed local is not an alarm)
            SC = loopcut.local_by_role(state, lambda v: isinstance(v, list) and len(v) == 0, "the (empty) list the scalers are collected in", exclude=c.params)
            PL = c.params[0]
            if len(c.target_names) != 3:
                raise Undecided("loop target is no longer a (node, left, right) triple: %s" % c.header)
            n_before = len(state[SC])
            state.update(dict(zip(c.target_names, (node, left, right))))
            tag, st2 = c.body(state)
            out = st2[PL]
            scalers = st2[SC]
            cl = [("true", "loop_shape", c.kind == "for" and tag == "next", c.header),
                  ("true", "exactly_one_scaler_collected", len(scalers) == n_before + 1, "%d -> %d" % (n_before, len(scalers))),
                  ("true", "frame_only_partials[node]_written", all(out[m] is sentinels[m] for m in sentinels if m != node) and out[left] is R[left] and out[right] is R[right])]
            if len(scalers) != n_before + 1 or tuple(out[node].shape) != (K, S, N):
                return cl
            sc = scalers[-1]

            def Lval(m, kind, k, j, n):
                if kind == "tip":
                    if variant == "states":
                        s_ = int(R[m][n])
                        return 1 if (s_ >= S or s_ == j) else 0
                    return el(R[m], (j, n))
                return el(R[m], (k, j, n)) * el(C[m], (n,))
            code, spec = [], []
            for k in range(K):
                for i in range(S):
                    for n in range(N):
                        a = 0
                        for j in range(S):
                            a = a + el(mats, (left, k, i, j)) * Lval(left, left_kind, k, j, n)
                        b = 0
                        for j in range(S):
                            b = b + el(mats, (right, k, i, j)) * Lval(right, right_kind, k, j, n)
                        spec.append(a * b)
                        cprod = el(sc.reshape(-1) if not mk.symbolic else sc.reshape(-1), (n,))
                        for m, kind in ((left, left_kind), (right, right_kind)):
                            if kind != "tip":
                                cprod = cprod * el(C[m], (n,))
                        code.append(el(out[node], (k, i, n)) * cprod)
            cl.append(("eq", "iteration_keeps_plain_equals_rescaled_times_scalers", code, spec))
            # suffix: generic root vector, generic collected scalers
            root = mk.real("Rroot", (K, S, N), lo=0, lo_incl=True)
            s1 = mk.real("s1", (1, N), lo=0)
            s2 = mk.real("s2", (1, N), lo=0)
            st3 = dict(st2)
            pl = list(out)
            pl[node] = root
            st3[PL] = pl
            st3[SC] = [s1, s2]
            st3[c.params[2]] = [[node, left, right]]
            res = c.suffix(st3)
        want = 0
        for n in range(N):
            tot = 0
            for i in range(S):
                for k in range(K):
                    tot = tot + el(freqs, (0, i)) * el(props, (k, 0, 0)) * el(root, (k, i, n))
            want = want + el(weights, (n,)) * (slog(tot) + slog(el(s1, (0, n))) + slog(el(s2, (0, n))))
        cl.append(("eq", "suffix_adds_the_log_scalers_per_site", res, [want]))
        return cl
    return scn


def scn_safe_cut(left_kind, right_kind, S, K, N):
    """One GENERIC iteration of the node loop of the real calculate_treelikelihood_discrete_safe (body cut verbatim) under the ghost
    invariant  L(m) = partials[m]·C(m),  C(m) = 1 and partials[m] = plain value for nodes not (yet) rescaled (the list was filled by the
    plain function: precondition), C(m) = product of the collected scalers below m otherwise.  kinds: tip | plain | rescaled.
      recomputing path (a child rescaled, or the stale value below the threshold): one scaler s appended, rescaled[node] set,
            partials'[node]·s·C(left)·C(right) ≡ recursion of L(left), L(right);
      skipping path (only when NEITHER child is rescaled): nothing written, so partials[node] is still the plain L(node) and C(node)=1.
    The suffix is the same expression as in the rescaled function (C03.equiv.cut.*.suffix claim)."""
    def scn(mk):
        from torchtree.evolution import tree_likelihood as tl
        from vt import loopcut
        c = loopcut.cut(tl.calculate_treelikelihood_discrete_safe, 0)
        T = 5
        left = 1 if left_kind == "tip" else 6
        right = 3 if right_kind == "tip" else 5
        node = 7
        counter = [0]
        mats = mk.real("M", (2 * T - 2, K, S, S), lo=0)
        freqs = mk.real("pi", (1, S), lo=0)
        props = mk.real("w", (K, 1, 1), lo=0)
        weights = mk.real("wt", (N,), lo=0)
        thr = mk.real("threshold", (), lo=0)
        partials = [None] * (2 * T - 1)
        sentinels = {}
        for m in range(2 * T - 1):
            if m not in (left, right, node):
                sentinels[m] = partials[m] = object()
        R, C = {}, {}
        for nm, m, kind in (("Rl", left, left_kind), ("Rr", right, right_kind)):
            R[m] = partials[m] = mk.real(nm, (S, N) if kind == "tip" else (K, S, N), lo=0, lo_incl=True)
            C[m] = mk.real("C" + nm, (N,), lo=0) if kind == "rescaled" else None

        def Lval(m, kind, k, j, n):
            if kind == "tip":
                return el(R[m], (j, n))
            v = el(R[m], (k, j, n))
            return v * el(C[m], (n,)) if kind == "rescaled" else v

        def recursion():
            out = []
            for k in range(K):
                for i in range(S):
                    for n in range(N):
                        a = 0
                        for j in range(S):
                            a = a + el(mats, (left, k, i, j)) * Lval(left, left_kind, k, j, n)
                        b = 0
                        for j in range(S):
                            b = b + el(mats, (right, k, i, j)) * Lval(right, right_kind, k, j, n)
                        out.append(a * b)
            return out
        spec = recursion()
        any_rescaled = "rescaled" in (left_kind, right_kind)
        if any_rescaled:
            stale = mk.real("stale", (K, S, N), lo=0, lo_incl=True)      # whatever the plain pass left there
        else:
            # precondition: the plain pass stored the plain value of the node
            import numpy as np
            stale = ST(np.array(spec, dtype=object).reshape(K, S, N)) if mk.symbolic else torch.tensor([float(v) for v in spec], dtype=torch.float64).reshape(K, S, N)
        partials[node] = stale
        post = [[5, 0, 2], [6, 5, 4], [node, left, right], [8, 7, 6]]
        extra = {"max": _max_contract(mk, counter)} if mk.symbolic else None
        with symbolic_factories(tl, extra=extra, enabled=mk.symbolic):
            state = c.prefix(partials, weights, post, mats, freqs, props, el(thr) if mk.symbolic else float(thr))
            SC = loopcut.local_by_role(state, lambda v: isinstance(v, list) and len(v) == 0, "the (empty) list the scalers are collected in", exclude=c.params)
            FL = loopcut.local_by_role(state, lambda v: isinstance(v, list) and len(v) > 0 and all(isinstance(b, bool) for b in v), "the per-node list of 'already rescaled' marks", exclude=c.params)
            if len(c.target_names) != 3:
                raise Undecided("loop target is no longer a (node, left, right) triple: %s" % c.header)
            resc0 = list(state[FL])
            state[FL][left] = left_kind == "rescaled"
            state[FL][right] = right_kind == "rescaled"
            n_before = len(state[SC])
            state.update(dict(zip(c.target_names, (node, left, right))))
            tag, st2 = c.body(state)
        out, scalers, flags = st2[c.params[0]], st2[SC], st2[FL]
        cl = [("true", "loop_shape", c.kind == "for" and tag == "next", c.header),
              ("true", "prefix_marks_nothing_rescaled", len(resc0) == 2 * T - 1 and not any(resc0), repr(resc0)),
              ("true", "frame_only_partials[node]_written", all(out[m] is sentinels[m] for m in sentinels) and out[left] is R[left] and out[right] is R[right]),
              ("true", "frame_only_rescaled[node]_written", all(bool(flags[m]) == (m == left and left_kind == "rescaled" or m == right and right_kind == "rescaled") for m in range(2 * T - 1) if m != node))]
        if len(scalers) == n_before + 1:
            sc = scalers[-1]
            code = []
            for k in range(K):
                for i in range(S):
                    for n in range(N):
                        cprod = el(sc.reshape(-1), (n,))
                        for m, kind in ((left, left_kind), (right, right_kind)):
                            if kind == "rescaled":
                                cprod = cprod * el(C[m], (n,))
                        code.append(el(out[node], (k, i, n)) * cprod)
            cl.append(("true", "recomputed_node_is_marked_rescaled", bool(flags[node]) is True))
            cl.append(("eq", "recomputing_keeps_plain_equals_rescaled_times_scalers", code, spec))
        elif len(scalers) == n_before:
            cl.append(("true", "skipping_only_when_no_child_is_rescaled", not any_rescaled))
            cl.append(("true", "skipped_node_untouched_and_not_marked", out[node] is stale and not flags[node]))
        else:
            cl.append(("true", "at_most_one_scaler_per_node", False, "%d -> %d" % (n_before, len(scalers))))
        return cl
    return scn


# ----------------------------------------------------------------------------------------------


def _toy_model(use_tip_states=False):
    from torchtree.core.parameter import Parameter
    from torchtree.evolution.alignment import Alignment, Sequence
    from torchtree.evolution.datatype import NucleotideDataType
    from torchtree.evolution.site_model import ConstantSiteModel
    from torchtree.evolution.site_pattern import SitePattern
    from torchtree.evolution.substitution_model.nucleotide import JC69
    from torchtree.evolution.taxa import Taxa, Taxon
    from torchtree.evolution.tree_likelihood import TreeLikelihoodModel
    from torchtree.evolution.tree_model import UnRootedTreeModel, parse_tree
    names = ["A", "B", "C"]
    taxa = Taxa("taxa", [Taxon(n, {}) for n in names])
    aln = Alignment("a", [Sequence(n, s) for n, s in zip(names, ["AC", "AG", "CC"])], taxa, NucleotideDataType(None))
    tree = parse_tree(taxa, {"newick": "((A,B),C);"})
    tm = UnRootedTreeModel("t", tree, taxa, Parameter("bl", torch.tensor([0.1, 0.2, 0.3], dtype=torch.float64)))
    return TreeLikelihoodModel("like", SitePattern("sp", aln), tm, JC69("jc"), ConstantSiteModel("sm"), use_tip_states=use_tip_states)


def ob_sticky(use_tip_states):
    def body():
        import torchtree.evolution.tree_likelihood as tl
        # AST frame: `self.rescale = False` only in __init__
        src = inspect.getsource(tl.TreeLikelihoodModel)
        tree = ast.parse(src)
        writers = {}
        for fn in [n for n in ast.walk(tree) if isinstance(n, ast.FunctionDef)]:
            for node in ast.walk(fn):
                if isinstance(node, (ast.Assign, ast.AugAssign)):
                    targets = node.targets if isinstance(node, ast.Assign) else [node.target]
                    for t in targets:
                        if isinstance(t, ast.Attribute) and t.attr == "rescale":
                            val = getattr(node, "value", None)
                            writers.setdefault(fn.name, []).append(ast.unparse(val) if val is not None else "?")
        for fname, vals in writers.items():
            for v in vals:
                if v != "True" and fname != "__init__":
                    raise Refuted("TreeLikelihoodModel.%s assigns rescale = %s (the switch is not sticky)" % (fname, v),
                                  witness={"function": fname, "value": v}, confirmed=None)
        # dynamic: a tree large enough that the plain value genuinely underflows (JC69 caterpillar, 700 taxa)
        model = _caterpillar_model(700, False, use_tip_states)
        calls = []
        names = ["calculate_treelikelihood_discrete", "calculate_treelikelihood_discrete_rescaled", "calculate_treelikelihood_discrete_safe",
                 "calculate_treelikelihood_tip_states_discrete", "calculate_treelikelihood_tip_states_discrete_rescaled"]
        saved = {n: getattr(tl, n) for n in names}

        def wrap(n):
            def f(*a, **k):
                calls.append(n)
                return saved[n](*a, **k)
            return f
        try:
            for n in names:
                setattr(tl, n, wrap(n))
            v1 = model._call()          # plain underflows -> switch
            n_switch = len(calls)
            v2 = model._call()          # must use the rescaled callee
            # make the plain value representable again: the switch must stay on
            treemodels.tree_parameter(model.tree_model).tensor = torch.full((2 * 700 - 3,), 1.0e-4, dtype=torch.float64)
            v3 = model._call()
        finally:
            for n in names:
                setattr(tl, n, saved[n])
        later = calls[n_switch:]
        if not model.rescale or len(later) != 2 or any(not c.endswith("rescaled") for c in later):
            raise Refuted("after the switch to rescaling later evaluations used %s (rescale=%s)" % (later, model.rescale),
                          witness={"calls": calls}, replay={"kind": "custom", "contract": "C03", "func": "replay_sticky", "args": {"tip_states": use_tip_states}}, confirmed=True)
        ref = _caterpillar_model(700, False, use_tip_states)
        treemodels.tree_parameter(ref.tree_model).tensor = torch.full((2 * 700 - 3,), 1.0e-4, dtype=torch.float64)
        v3_ref = ref._call()
        if not (torch.isfinite(v1).all() and torch.allclose(v1, v2, rtol=1e-8, atol=0) and torch.allclose(v3, v3_ref, rtol=1e-8, atol=0)):
            raise Refuted("evaluations at/after the switch are inconsistent: %s %s ; %s vs plain reference %s" % (v1, v2, v3, v3_ref), witness={"calls": calls}, confirmed=True)
        return {"backend": "ast+heap", "statement": "rescale is only cleared in __init__; call sequence %s" % calls}
    return Ob("C03.sticky[tip_states=%s]" % use_tip_states, "U", body, clause="once rescaling is on it stays on", funcs=FUNCS)


def replay_sticky(args):
    try:
        ob_sticky(args["tip_states"]).fn()
    except Refuted as e:
        return False, e.detail
    return True, "held"


def ob_guard():
    """the plain value may be returned only if every site likelihood is a normal double"""
    def body():
        import z3
        import torchtree.evolution.tree_likelihood as tl
        src = inspect.getsource(tl.TreeLikelihoodModel.calculate_with_tip_partials)
        if "torch.isinf(log_p)" not in src:
            # the guard text changed: the IEEE model below no longer describes it. Decide by the real code only
            # (C03.switch.* obligations exercise the switch on real underflowing inputs).
            ok, msg, data = _replay_guard()
            if ok:
                return {"backend": "concrete (guard text changed, IEEE model skipped)", "statement": msg}
            raise Refuted("plain value returned for sub-normal site likelihoods. " + msg, witness=data,
                          replay={"kind": "custom", "contract": "C03", "func": "replay_guard", "args": {}}, confirmed=True)
        # IEEE model of the guard: log_p site value is -inf  iff  lik == 0 (after rounding to double, i.e. true lik < 2^-1075)
        lik = z3.Real("lik")
        tiny = z3.RealVal("2.2250738585072014e-308")
        denorm_min = z3.RealVal("4.9406564584124654e-324")
        s = z3.Solver()
        guard_keeps_plain = lik >= denorm_min   # plain value is returned whenever the rounded likelihood is non-zero
        s.add(guard_keeps_plain, lik < tiny, lik > 0)
        if s.check() != z3.sat:
            return {"backend": "z3", "statement": "guard implies normal range"}
        witness = str(s.model()[lik])
        ok, msg, data = _replay_guard()
        raise Refuted("the guard `isinf(log_p)` lets the plain value through for sub-normal site likelihoods (z3 witness lik=%s). %s" % (witness[:40], msg),
                      witness=data, replay={"kind": "custom", "contract": "C03", "func": "replay_guard", "args": {}}, confirmed=(not ok))
    return Ob("C03.guard.subnormal", "U", body, clause="plain value only when representable", funcs=FUNCS, timeout=1200)


def _caterpillar_batch_model(T, bls, use_tip_states=False):
    """one model, branch lengths batched: bls is a list of per-sample branch-length values"""
    m = _caterpillar_model(T, False, use_tip_states)
    t = torch.stack([torch.full((2 * T - 3,), float(b), dtype=torch.float64) for b in bls])
    treemodels.tree_parameter(m.tree_model).tensor = t
    return m


def tl_plain(m):
    """plain (unrescaled) evaluation of the same model state, without touching the switch"""
    saved = m.rescale
    import copy
    m2 = copy.copy(m)
    m2.partials = list(m.partials)
    m2.rescale = False
    import torchtree.evolution.tree_likelihood as tl
    bl = m.tree_model.branch_lengths()
    # evaluate through the real plain pruning function only
    sample_shape = m.sample_shape
    rates = m.site_model.rates().expand(sample_shape + (1, -1)) if m.site_model.rates().dim() == 1 else m.site_model.rates()
    bls = torch.cat((bl if bl.dim() > 1 else bl.expand(sample_shape + (-1,)), torch.zeros(sample_shape + (1,), dtype=bl.dtype)), -1)
    mats = m.subst_model.p_t(bls.reshape(sample_shape + (-1, 1)) * rates)
    freqs = m.subst_model.frequencies.reshape(m.subst_model.frequencies.shape[:-1] + (1, -1))
    probs = m.site_model.probabilities().unsqueeze(-1).unsqueeze(-1)
    f = tl.calculate_treelikelihood_tip_states_discrete if m.use_tip_states else tl.calculate_treelikelihood_discrete
    return f(list(m2.partials), m.weights, m.tree_model.postorder, mats, freqs, probs).reshape(-1)


def ob_switch(use_tip_states, which):
    """the switch to rescaling on REAL underflow: single sample, and a batch in which only some samples underflow.
    Every returned value must be finite and agree (1e-8) with the rescaled reference; later evaluations stay consistent."""
    def body():
        T = 400   # saturated branches (3.0): site likelihood ~0.25^400 = 1e-241 (representable); short branches on mismatching tips underflow

        def _ref(bls):
            out = []
            for b in bls:
                m = _caterpillar_model(T, True, use_tip_states)
                treemodels.tree_parameter(m.tree_model).tensor = torch.full((2 * T - 3,), float(b), dtype=torch.float64)
                out.append(float(m._call().reshape(-1)[0]))
            return out
        # long branches (0.5): site likelihood ~4^-700 underflows; very short branches with identical... use mixed lengths
        # sample with long branches underflows in the plain pass; the sample with tiny branch lengths on this alignment also has a
        # tiny likelihood, so use a short tree for "does not underflow" via near-zero mismatch penalty: branch 3.0 saturates (0.25 per tip)
        cases = {"single": [0.01], "all_underflow": [0.01, 0.02], "mixed": [3.0, 0.01], "mixed_reversed": [0.01, 3.0], "none": [3.0, 2.5]}[which]
        # check which samples underflow in a plain pass (facts about the input, not about the switch)
        m = _caterpillar_batch_model(T, cases, use_tip_states) if len(cases) > 1 else _caterpillar_model(T, False, use_tip_states)
        if len(cases) == 1:
            treemodels.tree_parameter(m.tree_model).tensor = torch.full((2 * T - 3,), cases[0], dtype=torch.float64)
        plain = tl_plain(m)
        v1 = m._call().reshape(-1)
        v2 = m._call().reshape(-1)
        ref = _ref(cases)
        expect_under = {"single": [True], "all_underflow": [True, True], "mixed": [False, True], "mixed_reversed": [True, False], "none": [False, False]}[which]
        if [bool(torch.isinf(x)) for x in plain] != expect_under:
            raise Undecided("scenario %s does not have the intended underflow pattern: plain values %s" % (which, plain.tolist()))
        bad = []
        for k in range(len(cases)):
            for name, v in (("first", v1), ("second", v2)):
                x = float(v[k])
                if ref[k] == float("-inf"):
                    continue   # true value not finite (impossible data): nothing required
                if not (x == x and abs(x) != float("inf")) or abs(x - ref[k]) > 1e-8 * abs(ref[k]):
                    bad.append({"sample": k, "branch_length": cases[k], "evaluation": name, "returned": x, "reference": ref[k]})
        if bad:
            raise Refuted("switch to rescaling (%s, tip_states=%s): %s" % (which, use_tip_states, bad[:2]), witness={"cases": cases, "bad": bad[:4]},
                          replay={"kind": "custom", "contract": "C03", "func": "replay_switch", "args": {"tip_states": use_tip_states, "which": which}}, confirmed=True)
        return {"backend": "concrete", "cases": 2 * len(cases), "statement": "700-taxon JC69 caterpillar, samples %s: finite and equal to the rescaled reference on the switching and on the next evaluation" % cases}
    return Ob("C03.switch.%s[tip_states=%s]" % (which, use_tip_states), "B", body, clause="finite whenever the true value is finite (real underflow, bounded)", funcs=FUNCS, timeout=900)


def ob_switch_mixed_shaped(shape, T, bls, use_tip_states=False, columns="alternating"):
    """a batch of branch-length samples on a LARGE tree in which the first sample is healthy (saturated branches: its partials decay slowly)
    and a later one has already underflowed to exact zeros deep in the tree when the first sample first asks for rescaling: every sample of
    the switching evaluation and of the next one is finite and equals its own always-rescaled single-sample evaluation"""
    def body():
        torch.set_num_threads(1)
        # 'constant': one invariable column - with short branches its likelihood stays near 0.25 however large the tree (a sample that never needs
        # rescaling), with saturated branches it is 0.25 per tip (a sample that underflows)
        cols = [lambda i: "A"] if columns == "constant" else [lambda i: "ACGT"[i % 4], lambda i: "ACGT"[(i // 3) % 4]]
        m = _shaped_model(shape, T, cols, bls[0], False, use_tip_states)
        treemodels.tree_parameter(m.tree_model).tensor = torch.stack([torch.full((2 * T - 3,), float(b), dtype=torch.float64) for b in bls])
        ref = []
        for b in bls:
            ref.append(float(_shaped_model(shape, T, cols, b, True, use_tip_states)._call().reshape(-1)[0]))
        bad = []
        for which in ("first (switching)", "second"):
            try:
                v = m._call().reshape(-1)
            except Exception as e:
                bad.append({"evaluation": which, "raised": "%s: %s" % (type(e).__name__, str(e)[:120])})
                break
            for k in range(len(bls)):
                x = float(v[k])
                if not (x == x and abs(x) != float("inf")) or abs(x - ref[k]) > 1e-8 * abs(ref[k]):
                    bad.append({"evaluation": which, "sample": k, "branch_length": bls[k], "returned": x, "reference": ref[k]})
        if bad:
            raise Refuted("switch to rescaling on a %s tree of %d taxa, branch-length samples %s (tip_states=%s): %s" % (shape, T, bls, use_tip_states, bad[:2]),
                          witness={"shape": shape, "T": T, "samples": bls, "bad": bad[:4]}, confirmed=True,
                          replay={"kind": "custom", "contract": "C03", "func": "replay_switch_mixed_shaped", "args": {"shape": shape, "T": T, "bls": bls, "tip_states": use_tip_states, "columns": columns}})
        return {"backend": "concrete", "cases": 2 * len(bls), "statement": "%s tree, %d taxa, samples %s: finite and equal to the rescaled single-sample reference on the switching and on the next evaluation" % (shape, T, bls)}
    return Ob("C03.switch.mixed.%s[T=%d,samples=%s,%s column,tip_states=%s]" % (shape, T, bls, columns, use_tip_states), "B", body,
              clause="finite whenever the true value is finite (a batch in which a later sample has underflowed before the first asks for rescaling, bounded)", funcs=FUNCS, timeout=900)


def replay_switch_mixed_shaped(args):
    try:
        ob_switch_mixed_shaped(args["shape"], int(args["T"]), list(args["bls"]), bool(args.get("tip_states", False)), args.get("columns", "alternating")).fn()
    except Refuted as e:
        return False, e.detail
    return True, "held"


def _shaped_model(shape, T, columns, bl, rescale, use_tip_states=False):
    """JC69 model on a caterpillar or balanced tree of T taxa; columns: list of functions i -> symbol; bl: branch length (all branches)"""
    from torchtree.core.parameter import Parameter
    from torchtree.evolution.alignment import Alignment, Sequence
    from torchtree.evolution.datatype import NucleotideDataType
    from torchtree.evolution.site_model import ConstantSiteModel
    from torchtree.evolution.site_pattern import SitePattern
    from torchtree.evolution.substitution_model.nucleotide import JC69
    from torchtree.evolution.taxa import Taxa, Taxon
    from torchtree.evolution.tree_likelihood import TreeLikelihoodModel
    from torchtree.evolution.tree_model import UnRootedTreeModel, parse_tree
    import sys
    sys.setrecursionlimit(20000)
    names = ["t%d" % i for i in range(T)]
    taxa = Taxa("taxa", [Taxon(n, {}) for n in names])
    seqs = ["".join(c(i) for c in columns) for i in range(T)]
    aln = Alignment("a", [Sequence(n, s_) for n, s_ in zip(names, seqs)], taxa, NucleotideDataType(None))
    if shape == "caterpillar":
        nw = names[0]
        for n in names[1:]:
            nw = "(%s,%s)" % (nw, n)
    else:
        level = list(names)
        while len(level) > 1:
            level = ["(%s,%s)" % (level[i], level[i + 1]) if i + 1 < len(level) else level[i] for i in range(0, len(level), 2)]
        nw = level[0]
    tree = parse_tree(taxa, {"newick": nw + ";"})
    tm = UnRootedTreeModel("t", tree, taxa, Parameter("bl", torch.full((2 * T - 3,), float(bl), dtype=torch.float64)))
    m = TreeLikelihoodModel("like", SitePattern("sp", aln), tm, JC69("jc"), ConstantSiteModel("sm"), use_tip_states=use_tip_states)
    m.rescale = rescale
    return m


SHAPED = {
    # name: (tree shape, taxa, columns, branch length): the plain pass underflows on the alternating column
    "balanced[T=256,bl=5e-4]": ("balanced", 256, [lambda i: "ACGT"[i % 4]], 5e-4),
    "balanced[T=128,bl=5e-4,slow+fast columns]": ("balanced", 128, [lambda i: "ACGT"[i % 4], lambda i: "A", lambda i: "ACGT"[(i // 2) % 4]], 5e-4),
    "caterpillar[T=900,bl=0.05,slow+fast columns]": ("caterpillar", 900, [lambda i: "A", lambda i: "ACGT"[i % 4], lambda i: "ACGT"[(i * 7) % 4]], 0.05),
    "balanced[T=1024,bl=0.08,slow+fast columns]": ("balanced", 1024, [lambda i: "A", lambda i: "ACGT"[(i * 5 + i // 3) % 4]], 0.08),
}


def ob_switch_shaped(name, use_tip_states):
    """the switching evaluation on tree shapes / alignments where (a) both root subtrees are far below 1 but above any reasonable threshold
    and their product underflows, (b) a slowly decaying (constant) column sits next to columns that underflow: first and second evaluation
    finite and equal (1e-8) to the always-rescaled evaluation"""
    def body():
        shape, T, cols, bl = SHAPED[name]
        torch.set_num_threads(1)
        m = _shaped_model(shape, T, cols, bl, False, use_tip_states)
        plain = tl_plain(m)
        if not bool(torch.isinf(plain).any()):
            raise Undecided("scenario %s does not underflow in the plain pass: %s" % (name, plain.tolist()))
        ref = float(_shaped_model(shape, T, cols, bl, True, use_tip_states)._call().reshape(-1)[0])
        bad = []
        for which in ("first (switching)", "second"):
            try:
                x = float(m._call().reshape(-1)[0])
            except Exception as e:
                bad.append({"evaluation": which, "raised": "%s: %s" % (type(e).__name__, str(e)[:120])})
                break
            if not (x == x and abs(x) != float("inf")) or abs(x - ref) > 1e-8 * abs(ref):
                bad.append({"evaluation": which, "returned": x, "reference": ref})
        if bad:
            raise Refuted("switch to rescaling on %s (tip_states=%s): %s" % (name, use_tip_states, bad), witness={"scenario": name, "bad": bad},
                          replay={"kind": "custom", "contract": "C03", "func": "replay_switch_shaped", "args": {"name": name, "tip_states": use_tip_states}}, confirmed=True)
        return {"backend": "concrete", "cases": 2, "statement": "%s: switching and next evaluation finite and equal to the rescaled reference %.6f" % (name, ref)}
    return Ob("C03.switch.%s[tip_states=%s]" % (name, use_tip_states), "B", body, clause="finite whenever the true value is finite (real underflow, bounded)", funcs=FUNCS, timeout=900)


def replay_switch_shaped(args):
    try:
        ob_switch_shaped(args["name"], args["tip_states"]).fn()
    except Refuted as e:
        return False, e.detail
    return True, "held"


def replay_switch(args):
    try:
        ob_switch(args["tip_states"], args["which"]).fn()
    except Refuted as e:
        return False, e.detail
    return True, "held"


def _caterpillar_model(T, rescale, use_tip_states=False):
    from torchtree.core.parameter import Parameter
    from torchtree.evolution.alignment import Alignment, Sequence
    from torchtree.evolution.datatype import NucleotideDataType
    from torchtree.evolution.site_model import ConstantSiteModel
    from torchtree.evolution.site_pattern import SitePattern
    from torchtree.evolution.substitution_model.nucleotide import JC69
    from torchtree.evolution.taxa import Taxa, Taxon
    from torchtree.evolution.tree_likelihood import TreeLikelihoodModel
    from torchtree.evolution.tree_model import UnRootedTreeModel, parse_tree
    import sys
    sys.setrecursionlimit(20000)
    names = ["t%d" % i for i in range(T)]
    taxa = Taxa("taxa", [Taxon(n, {}) for n in names])
    seqs = ["ACGT"[i % 4] for i in range(T)]
    aln = Alignment("a", [Sequence(n, s) for n, s in zip(names, seqs)], taxa, NucleotideDataType(None))
    nw = names[0]
    for n in names[1:]:
        nw = "(%s,%s)" % (nw, n)
    tree = parse_tree(taxa, {"newick": nw + ";"})
    tm = UnRootedTreeModel("t", tree, taxa, Parameter("bl", torch.full((2 * T - 3,), 0.5, dtype=torch.float64)))
    m = TreeLikelihoodModel("like", SitePattern("sp", aln), tm, JC69("jc"), ConstantSiteModel("sm"), use_tip_states=use_tip_states)
    m.rescale = rescale
    return m


def _replay_guard():
    """search the band on the real code: JC69 caterpillar, one site; compare the value the model returns
    with the rescaled evaluation (extended range)"""
    worst = None
    for T in range(480, 560, 2):
        plain = float(_caterpillar_model(T, False)().reshape(-1)[0])
        resc = float(_caterpillar_model(T, True)().reshape(-1)[0])
        if plain == float("-inf") or plain != plain:
            continue
        rel = abs(plain - resc) / abs(resc)
        if worst is None or rel > worst[1]:
            worst = (T, rel, plain, resc)
    if worst and worst[1] > 1e-8:
        return False, "real code: JC69 caterpillar with %d taxa returns %.12f, rescaled reference %.12f (relative error %.2e > 1e-8)" % (worst[0], worst[2], worst[3], worst[1]), {"taxa": worst[0], "returned": worst[2], "reference": worst[3], "relative_error": worst[1]}
    return True, "no tree size in 500..559 exhibits a relative error above 1e-8", {"searched": "T=500..559"}


def replay_guard(args):
    ok, msg, data = _replay_guard()
    return ok, msg


def _tree_strs(T):
    return [repr(t).replace(" ", "") for t in trees.all_rooted_binary(list(range(T)))]


def obligations(tier, seed):
    rng = random.Random(seed)
    obs = []

    def add(name, args, clause, **kw):
        obs.append(scenario_ob("C03", name, "V", "scn_rescaled", args, clause=clause, funcs=FUNCS, seed=seed, **kw))

    for T in ((3, 4) if tier == "quick" else (3, 4, 5, 6)):
        for k, ts in enumerate(_tree_strs(T)):
            if T == 5 and k % 5 and tier == "quick":
                continue
            if T == 6 and k % 45:
                continue   # 21 of the 945 six-taxon topologies (the loop-cut obligations below are unbounded in the number of taxa)
            ts = repr(trees.shuffle_children(ast.literal_eval(ts), rng)).replace(" ", "")
            add("C03.equiv.rescaled[tree=%s,S=2,K=2,N=2]" % ts, ("partials", ts, 2, 2, (), 2), "rescaled ≡ plain (tip partials)")
            if T <= 4:
                add("C03.equiv.safe[tree=%s,S=2,K=1,N=1]" % ts, ("safe", ts, 2, 1, (), 1), "safe (partial rescaling) ≡ plain", max_paths=400)
                pats = list(itertools.product(range(3), repeat=T))
                pats = rng.sample(pats, 4)
                cols = [[p[i] for p in pats] for i in range(T)]
                add("C03.equiv.states_rescaled[tree=%s,S=2,K=2]" % ts, ("states", ts, 2, 2, (), cols), "rescaled ≡ plain (tip states)")
            if k % 4 == 0:
                add("C03.equiv.rescaled[tree=%s,S=2,K=1,batch=(2,)]" % ts, ("partials", ts, 2, 1, (2,), 1), "rescaled ≡ plain (batched)")
                if T <= 4:
                    # sample shape equal to the number of rate categories (axes of equal length can be confused silently)
                    add("C03.equiv.rescaled[tree=%s,S=2,K=2,batch=(2,)]" % ts, ("partials", ts, 2, 2, (2,), 1), "rescaled ≡ plain (batched, batch size = categories)")
                    add("C03.equiv.states_rescaled[tree=%s,S=2,K=2,batch=(2,)]" % ts, ("states", ts, 2, 2, (2,), [[i % 2, (i + 1) % 3] for i in range(T)]),
                        "rescaled ≡ plain (tip states, batched, batch size = categories)")
    cut_shapes = [(2, 2, 2)] if tier == "quick" else [(2, 2, 2), (4, 1, 1), (3, 2, 1), (2, 3, 2)]
    for variant in ("partials", "states"):
        for lk in ("tip", "internal"):
            for rk in ("tip", "internal"):
              for (S_, K_, N_) in cut_shapes:
                obs.append(scenario_ob("C03", "C03.equiv.cut.%s[left=%s,right=%s%s]" % (variant, lk, rk, "" if (S_, K_, N_) == (2, 2, 2) else ",S=%d,K=%d,N=%d" % (S_, K_, N_)), "U", "scn_rescaled_cut", (variant, lk, rk, S_, K_, N_),
                                       clause="generic iteration of the rescaled pruning loop keeps plain = rescaled x scalers; suffix adds the log scalers (unbounded in taxa)",
                                       funcs=FUNCS, seed=seed))
    for lk in ("tip", "plain", "rescaled"):
        for rk in ("tip", "plain", "rescaled"):
            obs.append(scenario_ob("C03", "C03.equiv.cut.safe[left=%s,right=%s]" % (lk, rk), "U", "scn_safe_cut", (lk, rk, 2, 2, 2),
                                   clause="generic iteration of the switch-over pruning loop: recomputed nodes keep plain = rescaled x scalers, skipped nodes are plain and have no rescaled child (unbounded in taxa)",
                                   funcs=FUNCS, seed=seed))
    obs.append(ob_sticky(False))
    obs.append(ob_sticky(True))
    for which in ("single", "all_underflow", "mixed", "mixed_reversed", "none"):
        for ts in (False, True):
            obs.append(ob_switch(ts, which))
    for name in SHAPED:
        for ts in (False, True):
            obs.append(ob_switch_shaped(name, ts))
    obs.append(ob_guard())
    for shape_, T_, bls_ in (("balanced", 2048, [10.0, 0.01]), ("balanced", 2048, [10.0, 0.01, 0.3]), ("caterpillar", 1500, [10.0, 0.02])):
        obs.append(ob_switch_mixed_shaped(shape_, T_, bls_))
    for shape_, T_, bls_ in (("balanced", 2048, [0.001, 10.0]), ("balanced", 2048, [0.001, 10.0, 0.001]), ("caterpillar", 1500, [0.001, 10.0])):
        obs.append(ob_switch_mixed_shaped(shape_, T_, bls_, False, "constant"))
    return obs
