"""C01 — tree log-likelihood = exact marginalisation over ancestral states (DESIGN 4, C01).

Contracts
 * pruning functions (`calculate_treelikelihood_discrete`, `..._tip_states_discrete`):
     requires  postorder_ok(post_indexing)   (established by C01.postorder)
     ensures   result ≡ Σ_n w_n · log BF_n,  BF_n the brute-force sum over assignments (specs/marginal.py)
 * whole model (`TreeLikelihoodModel._call` with real tree model / site model / clock / site pattern /
   alignment / data type, substitution model replaced by the contract P(t,i,j) uninterpreted, P(0)=I):
     ensures   result ≡ Σ_columns log BF_column  with branch lengths × clock rates × site rates assembled as documented
 * `parse_tree` + `update_traversals` (dendropy-dependent, bounded stand-in): postorder_ok on every topology ≤ 6 taxa
 * data-type tables: finite, enumerated completely
"""
import ast
import itertools
import math
import random

import torch

from specs import marginal, trees
from vt import nf
from vt.cond import Undecided
from vt.runner import Ob, Refuted
from vt.scenario import el, scenario_ob, slog, sexp
from vt.symtorch import ST, from_rfs

FUNCS = [
    "torchtree.evolution.tree_likelihood:calculate_treelikelihood_discrete",
    "torchtree.evolution.tree_likelihood:calculate_treelikelihood_tip_states_discrete",
    "torchtree.evolution.tree_likelihood:TreeLikelihoodModel.__init__",
    "torchtree.evolution.tree_likelihood:TreeLikelihoodModel._call",
    "torchtree.evolution.tree_likelihood:TreeLikelihoodModel.calculate_with_tip_partials",
    "torchtree.evolution.tree_likelihood:TreeLikelihoodModel.calculate_with_tip_states",
    "torchtree.evolution.alignment:read_fasta_sequences",
    "torchtree.evolution.alignment:Alignment.from_json",
    "torchtree.evolution.tree_model:parse_tree",
    "torchtree.evolution.tree_model:setup_indexes",
    "torchtree.evolution.tree_model:AbstractTreeModel.update_traversals",
    "torchtree.evolution.tree_model:UnRootedTreeModel.branch_lengths",
    "torchtree.evolution.tree_model:TimeTreeModel.update_leaf_heights",
    "torchtree.evolution.tree_model:TimeTreeModel.update_traversals",
    "torchtree.evolution.tree_model:TimeTreeModel.node_heights",
    "torchtree.evolution.tree_model:TimeTreeModel.branch_lengths",
    "torchtree.evolution.branch_model:StrictClockModel.rates",
    "torchtree.evolution.branch_model:SimpleClockModel.rates",
    "torchtree.evolution.site_pattern:compress",
    "torchtree.evolution.site_pattern:compress_alignment",
    "torchtree.evolution.site_pattern:compress_alignment_states",
    "torchtree.evolution.alignment:Alignment.__init__",
    "torchtree.evolution.datatype:NucleotideDataType.partial",
    "torchtree.evolution.datatype:NucleotideDataType.encoding",
    "torchtree.evolution.datatype:AminoAcidDataType.partial",
    "torchtree.evolution.datatype:AminoAcidDataType.encoding",
    "torchtree.evolution.datatype:CodonDataType.partial",
    "torchtree.evolution.datatype:CodonDataType.encoding",
    "torchtree.evolution.datatype:GeneralDataType.partial",
]

META = {
    "level": "other",
    "explanation": "Symbolic in all real values (transition probabilities, frequencies, proportions, tip vectors, weights, "
                   "branch lengths, heights, clock and site rates), enumerated in shape: every rooted binary topology up to "
                   "the stated taxon bound, S, K, batch shapes. Each obligation is an exact polynomial identity between the "
                   "argument of every log computed by the real code and the brute-force marginal sum. The traversal contract "
                   "(dendropy-dependent) is checked by exhaustive bounded enumeration (tag B) and is not counted as proved.",
    "bound": "V: pruning on all topologies T<=4 (quick) / T<=5 (thorough), S in {2,4}, K in {1,2}; model pipeline T<=4 (quick) / T<=5; "
             "B: parse_tree/update_traversals on all labelled rooted binary topologies with 3..6 taxa",
    "trusted_base": [
        "real arithmetic (IEEE rounding not modelled; the 1e-9 agreement clause is over the reals)",
        "substitution model replaced by its contract: p_t(t)[...,i,j] = P(t,i,j) uninterpreted, P(0)=I (C04 proves exp(Qt) for the shipped models)",
        "dendropy (Tree.get, postorder/preorder iteration, resolve_polytomies): no contract assumed, result checked by bounded enumeration",
        "distributive law linking pruning to the brute-force sum is *checked* (not assumed) up to the taxon bound; beyond it it is the classical Felsenstein lemma",
    ],
    "assumptions": ["machine arithmetic treated as mathematical (reals)",
                    "float literals within one rounding of a small rational denote that rational"],
}

MANIFEST = {
    "category": "other",
    "text": "Deductive, symbolic-in-values verification of the real pruning functions and of the real TreeLikelihoodModel pipeline "
            "against the brute-force marginal sum written from the statement: exact polynomial identities for every rooted "
            "binary topology up to 5 taxa (all real parameter values at once), plus exhaustive enumeration of the traversal "
            "contract for 3..6 taxa and of the finite data-type tables. Shape-bounded, hence not claimed as a full proof.",
    "note": "Reals instead of doubles; substitution model abstracted by the contract P(t,i,j), P(0)=I; dendropy traversal checked "
            "by bounded enumeration (B); shapes beyond the bound rely on the classical Felsenstein recursion lemma.",
    "technique": "sidecar contracts + symbolic execution of the real functions (__torch_function__) + exact polynomial normal form; bounded enumeration for the dendropy-dependent traversal",
}

IUPAC = {  # written from the IUPAC definition (independent of the repository tables)
    "A": "A", "C": "C", "G": "G", "T": "T", "U": "T", "R": "AG", "Y": "CT", "M": "AC", "W": "AT", "S": "CG", "K": "GT",
    "B": "CGT", "D": "AGT", "H": "ACT", "V": "ACG", "N": "ACGT", "?": "ACGT", "-": "ACGT",
}


def iupac_vector(c, use_ambiguities=True):
    c = c.upper()
    if c not in IUPAC:
        return (1.0, 1.0, 1.0, 1.0)
    if not use_ambiguities and c not in "ACGTU":
        return (1.0, 1.0, 1.0, 1.0)
    return tuple(1.0 if s in IUPAC[c] else 0.0 for s in "ACGT")


# ----------------------------------------------------------------------------------------------
# pruning functions on symbolic inputs


def scn_prune(variant, tree_s, S, K, batch, cols):
    tree = ast.literal_eval(tree_s)
    T = tree_s.count(",") + 1
    post = trees.postorder_triples(tree, T)
    children = {i: [] for i in range(T)}
    for n, l, r in post:
        children[n] = [l, r]
    root = post[-1][0]
    batch = tuple(batch)

    def scn(mk):
        from torchtree.evolution import tree_likelihood as tl
        if variant == "partials":
            mats = mk.real("P", batch + (2 * T - 2, K, S, S), lo=0)
        else:
            # precondition taken from C04's postcondition: rows of every transition matrix sum to one
            free = mk.real("P", batch + (2 * T - 2, K, S, S - 1), lo=0, hi=1.0 / S)
            mats = torch.cat((free, 1.0 - free.sum(-1, keepdim=True)), -1)
        freqs = mk.real("pi", (1, S), lo=0)
        props = mk.real("w", (K, 1, 1), lo=0)
        if variant == "partials":
            N = cols
            weights = mk.real("wt", (N,), lo=0)
            tips = [mk.real("tip%d" % i, (S, N), lo=0, lo_incl=True) for i in range(T)]
            partials = list(tips) + [None] * (T - 1)
            res = tl.calculate_treelikelihood_discrete(partials, weights, [list(p) for p in post], mats, freqs, props)

            def tipf(n):
                return lambda leaf, j: el(tips[leaf], (j, n))
        else:
            N = len(cols[0])
            weights = mk.real("wt", (N,), lo=0)
            states = [torch.tensor(cols[i], dtype=torch.long) for i in range(T)]
            partials = list(states) + [None] * (T - 1)
            res = tl.calculate_treelikelihood_tip_states_discrete(partials, weights, [list(p) for p in post], mats, freqs, props)

            def tipf(n):
                # an unknown state (== S) is compatible with everything
                return lambda leaf, j: 1 if cols[leaf][n] >= S or cols[leaf][n] == j else 0
        spec = []
        for b in itertools.product(*[range(s) for s in batch]):
            tot = 0
            for n in range(N):
                bf = marginal.site_likelihood(
                    children, root, S, K,
                    P=lambda c, k, i, j: el(mats, b + (c, k, i, j)),
                    pi=lambda i: el(freqs, (0, i)), w=lambda k: el(props, (k, 0, 0)), tip=tipf(n))
                tot = tot + el(weights, (n,)) * slog(bf)
            spec.append(tot)
        return [("eq", "loglik_is_marginal", res, spec)]
    return scn


# ----------------------------------------------------------------------------------------------
# unbounded in the number of taxa: cut of the pruning loop (DESIGN A.1)


def scn_prune_cut(variant, left_kind, right_kind, S, K, N):
    """One GENERIC iteration of the `for node, left, right in post_indexing` loop of the real pruning function, cut from
    its current source (loop body compiled verbatim), on a pre-state that satisfies the invariant "partials[m] holds the
    Felsenstein vector L(m) of every processed node": partials[left], partials[right] are arbitrary symbolic vectors.
      iteration:  partials[node] ≡ (Σ_j M[left,k,i,j] L_left[k,j,n]) · (Σ_j M[right,k,i,j] L_right[k,j,n])   (the defining
                  recursion of L), and no other entry of `partials` is written (frame);
      suffix:     result ≡ Σ_n w_n log Σ_i pi_i Σ_k p_k L_root[k,i,n].
    With postorder_ok (children processed before parents, C01.postorder) this gives, by induction over the loop, the
    Felsenstein value for EVERY tree size; that value equals the brute-force marginal by the distributive law
    (validated up to 5 taxa by C01.prune.*, classical lemma beyond)."""
    def scn(mk):
        from torchtree.evolution import tree_likelihood as tl
        from vt import loopcut
        f = tl.calculate_treelikelihood_discrete if variant == "partials" else tl.calculate_treelikelihood_tip_states_discrete
        c = loopcut.cut(f, 0)
        T = 5                      # index layout only: tips 0..4, internal 5..8; the iteration touches 3 indices
        left = 1 if left_kind == "tip" else 6
        right = 3 if right_kind == "tip" else 5
        node = 7
        if variant == "partials":
            mats = mk.real("M", (2 * T - 2, K, S, S), lo=0)
        else:
            # precondition from C04: rows of every transition matrix sum to one (the unknown tip state is a column of ones)
            free = mk.real("M", (2 * T - 2, K, S, S - 1), lo=0, hi=1.0 / S)
            mats = torch.cat((free, 1.0 - free.sum(-1, keepdim=True)), -1)
        freqs = mk.real("pi", (1, S), lo=0)
        props = mk.real("w", (K, 1, 1), lo=0)
        weights = mk.real("wt", (N,), lo=0)
        partials = [None] * (2 * T - 1)
        sentinels = {}
        for m in range(2 * T - 1):
            if m in (left, right):
                continue
            sentinels[m] = partials[m] = object()
        Lv = {}
        if variant == "partials":
            for nm, m, kind in (("Ll", left, left_kind), ("Lr", right, right_kind)):
                Lv[m] = partials[m] = mk.real(nm, (S, N) if kind == "tip" else (K, S, N), lo=0, lo_incl=True)
        else:
            for nm, m, kind, st in (("Ll", left, left_kind, [0, S][:N] + [1] * max(0, N - 2)), ("Lr", right, right_kind, [S, 1][:N] + [0] * max(0, N - 2))):
                if kind == "tip":
                    Lv[m] = partials[m] = torch.tensor(st[:N], dtype=torch.long)
                else:
                    Lv[m] = partials[m] = mk.real(nm, (K, S, N), lo=0, lo_incl=True)
        # the prefix reads only len(post_indexing) (tip count); T-1 triples, the generic one among them
        post = [[5, 0, 2], [6, 5, 4], [node, left, right], [8, 7, 6]]
        state = c.prefix(partials, weights, post, mats, freqs, props)
        if len(c.target_names) != 3:
            raise Undecided("loop target is no longer a (node, left, right) triple: %s" % c.header)
        state.update(dict(zip(c.target_names, (node, left, right))))     # loop variables by position in the header, not by name
        tag, st2 = c.body(state)
        out = st2[c.params[0]]
        cl = [("true", "loop_shape", c.kind == "for" and c.n_body >= 1 and tag == "next", c.header)]
        cl.append(("true", "frame_only_partials[node]_written", all(out[m] is sentinels[m] for m in sentinels if m != node) and out[left] is Lv[left] and out[right] is Lv[right]))

        def vec(m, kind, k, j, n):
            if variant == "states" and kind == "tip":
                s_ = int(Lv[m][n])
                return 1 if (s_ >= S or s_ == j) else 0
            return el(Lv[m], (j, n) if kind == "tip" else (k, j, n))
        code, spec = [], []
        got = out[node]
        if tuple(got.shape) != (K, S, N):
            cl.append(("true", "partial_shape", False, str(tuple(got.shape))))
            return cl
        unknown_ok = True
        for k in range(K):
            for i in range(S):
                for n in range(N):
                    a = 0
                    for j in range(S):
                        a = a + el(mats, (left, k, i, j)) * vec(left, left_kind, k, j, n)
                    b = 0
                    for j in range(S):
                        b = b + el(mats, (right, k, i, j)) * vec(right, right_kind, k, j, n)
                    spec.append(a * b)
                    code.append(el(got, (k, i, n)))
        if variant == "states" and "tip" in (left_kind, right_kind):
            # the unknown state is a column of ones, which is Σ_j M[.,i,j]·1 only for row-stochastic M (C04): encode the precondition
            pass
        cl.append(("eq", "iteration_is_felsenstein_recursion", code, spec))
        # suffix on a generic root vector
        root = mk.real("Lroot", (K, S, N), lo=0, lo_incl=True)
        st3 = dict(st2)
        plist = list(out)
        plist[node] = root
        st3[c.params[0]] = plist
        st3[c.params[2]] = [[node, left, right]]
        res = c.suffix(st3)
        want = 0
        for n in range(N):
            tot = 0
            for i in range(S):
                for k in range(K):
                    tot = tot + el(freqs, (0, i)) * el(props, (k, 0, 0)) * el(root, (k, i, n))
            want = want + el(weights, (n,)) * slog(tot)
        cl.append(("eq", "suffix_is_weighted_log_of_root_reduction", res, [want]))
        return cl
    return scn


# ----------------------------------------------------------------------------------------------
# whole model pipeline


def _pfun(t, i, j, S):
    """concrete stand-in for the uninterpreted P (only used by the numeric cross-check / replay);
    deliberately non-symmetric, row-normalised, P(0)=I"""
    import math
    if t == 0:
        return 1.0 if i == j else 0.0
    w = [math.exp(-t * (1 + 0.3 * i + 0.7 * jj)) * (1.0 if i == jj else 0.0) + (1 - math.exp(-t)) * (jj + 1 + 0.5 * i) for jj in range(S)]
    return w[j] / sum(w)


def make_subst_stub(mk, freqs, S):
    from torchtree.core.parameter import Parameter
    from torchtree.evolution.substitution_model.abstract import SymmetricSubstitutionModel

    class ContractSubstModel(SymmetricSubstitutionModel):
        """contract stub: p_t(t)[..., i, j] = P(t, i, j); P(0) = I"""

        def __init__(self):
            super().__init__("subst", Parameter("freqs", freqs))

        @property
        def rates(self):
            return None

        def q(self):
            raise NotImplementedError

        @classmethod
        def from_json(cls, data, dic):
            raise NotImplementedError

        def handle_model_changed(self, *a):
            pass

        def handle_parameter_changed(self, *a):
            self.fire_model_changed()

        def p_t(self, t):
            if isinstance(t, ST):
                import numpy as np
                out = np.empty(t.a.shape + (S, S), dtype=object)
                for ix in np.ndindex(*t.a.shape):
                    v = nf.simplify(t.a[ix])
                    for i in range(S):
                        for j in range(S):
                            out[ix + (i, j)] = P_of(v, i, j, S)
                return ST(out)
            out = torch.empty(tuple(t.shape) + (S, S), dtype=torch.float64)
            import numpy as np
            for ix in np.ndindex(*t.shape):
                for i in range(S):
                    for j in range(S):
                        out[ix + (i, j)] = _pfun(float(t[ix]), i, j, S)
            return out
    return ContractSubstModel()


def P_of(t, i, j, S):
    """oracle-side P"""
    if isinstance(t, nf.RF):
        t = nf.simplify(t)
        if t.is_zero():
            return nf.ONE if i == j else nf.ZERO
        if j == S - 1:
            # contract (C04 postcondition): rows sum to one
            r = nf.ONE
            for jj in range(S - 1):
                r = r - nf.ufn("P", t, i, jj, positive=True)
            return r
        return nf.ufn("P", t, i, j, positive=True)
    return _pfun(float(t), i, j, S)


def P_jc(t, i, j):
    """oracle-side JC69 transition probability (closed form from the literature)"""
    e = sexp(t * (-4.0 / 3.0)) if not isinstance(t, nf.RF) else nf.rexp(t * nf.const(-4) / 3)
    if i == j:
        return e * 3 / 4 + (nf.const(1) / 4 if isinstance(t, nf.RF) else 0.25)
    return (nf.const(1) / 4 if isinstance(t, nf.RF) else 0.25) - e / 4


def scn_model(newick, taxa_names, seqs, dates, tree_kind, clock, site, K, tip_states, use_amb, batch, subst_kind="stub", rescale=False, clock_batch=None, aln_taxa_shift=0):
    """tree_kind: 'unrooted' | 'time'; clock: None|'strict'|'simple'; site: 'constant'|'weibull'|'invariant'"""
    batch = tuple(batch)
    cbatch = batch if clock_batch is None else tuple(clock_batch)   # the clock rates may carry their own sample shape
    T = len(taxa_names)
    S = 4

    def scn(mk):
        from torchtree.core.parameter import Parameter
        from torchtree.evolution.alignment import Alignment, Sequence
        from torchtree.evolution.branch_model import SimpleClockModel, StrictClockModel
        from torchtree.evolution.datatype import NucleotideDataType
        from torchtree.evolution.site_model import ConstantSiteModel, InvariantSiteModel, WeibullSiteModel
        from torchtree.evolution.site_pattern import SitePattern
        from torchtree.evolution.taxa import Taxa, Taxon
        from torchtree.evolution.tree_likelihood import TreeLikelihoodModel
        from torchtree.evolution.tree_model import (TimeTreeModel, UnRootedTreeModel, initialize_dates_from_taxa, parse_tree)
        taxa = Taxa("taxa", [Taxon(n, {"date": d}) for n, d in zip(taxa_names, dates)])
        # sequences supplied in a different order than the taxa on purpose
        order = list(range(T))[::-1]
        aln_taxa = taxa
        if aln_taxa_shift:
            # the alignment holds a Taxa object of its own listing the same taxa ROTATED by aln_taxa_shift positions (a permutation that is
            # not its own inverse for T >= 3): tip data are still matched to the leaves by name
            rot = [(i + aln_taxa_shift) % T for i in range(T)]
            aln_taxa = Taxa("taxa.alignment", [Taxon(taxa_names[i], {"date": dates[i]}) for i in rot])
        alignment = Alignment("aln", [Sequence(taxa_names[i], seqs[i]) for i in order], aln_taxa, NucleotideDataType(None))
        sp = SitePattern("sp", alignment)
        tree = parse_tree(taxa, {"newick": newick})
        # oracle view of the same inputs (own parser, documented index convention)
        nodes, root = trees.index_tree(trees.parse_newick(newick), taxa_names)
        children = {i: n["children"] for i, n in nodes.items()}
        freqs = mk.real("pi", (S,), lo=0) if subst_kind == "stub" else mk.lift(torch.full((4,), 0.25, dtype=torch.float64))
        if tree_kind == "unrooted":
            bl = mk.real("bl", batch + (2 * T - 3,), lo=0)
            tm = UnRootedTreeModel("tree", tree, taxa, Parameter("bl", bl))
        else:
            initialize_dates_from_taxa(tree, taxa)
            hs = mk.real("h", batch + (T - 1,), lo=0)
            tm = TimeTreeModel("tree", tree, taxa, Parameter("h", hs))
        sm_inv = sm_mu = None
        if site == "constant":
            sm = ConstantSiteModel("site")
            KK = 1
        elif site == "weibull":
            shape = mk.real("shape", (1,), lo=0)
            sm = WeibullSiteModel("site", Parameter("shape", shape), K)
            KK = K
        elif site.startswith("weibull+"):
            # "weibull+inv", "weibull+mu", "weibull+inv+mu": the optional invariant category and relative rate
            shape = mk.real("shape", (1,), lo=0)
            sm_inv = mk.real("inv", (1,), lo=0, hi=1, lo_incl=True) if "+inv" in site else None
            sm_mu = mk.real("mu", (1,), lo=0) if "+mu" in site else None
            sm = WeibullSiteModel("site", Parameter("shape", shape), K, None if sm_inv is None else Parameter("inv", sm_inv),
                                  None if sm_mu is None else Parameter("mu", sm_mu))
            KK = K + (1 if sm_inv is not None else 0)
        elif site == "invariant+mu":
            sm_inv = mk.real("inv", (1,), lo=0, hi=1, lo_incl=True)
            sm_mu = mk.real("mu", (1,), lo=0)
            sm = InvariantSiteModel("site", Parameter("inv", sm_inv), Parameter("mu", sm_mu))
            KK = 2
        else:
            inv = mk.real("inv", (1,), lo=0, hi=1, lo_incl=True)
            sm = InvariantSiteModel("site", Parameter("inv", inv))
            KK = 2
            sm_inv = inv
        cm = None
        if clock == "strict":
            cr = mk.real("clock", cbatch + (1,), lo=0)
            cm = StrictClockModel("clock", Parameter("clock", cr), tm)
        elif clock == "simple":
            cr = mk.real("clock", cbatch + (2 * T - 2,), lo=0)
            cm = SimpleClockModel("clock", Parameter("clock", cr), tm)
        if subst_kind == "stub":
            subst = make_subst_stub(mk, freqs, S)
        else:
            from torchtree.evolution.substitution_model.nucleotide import JC69
            subst = JC69("jc")
        model = TreeLikelihoodModel("like", sp, tm, subst, sm, cm, use_ambiguities=use_amb, use_tip_states=tip_states)
        if rescale:
            # the rescaled evaluation path of the model (the marginal is the same number); torch.max is replaced by
            # its contract "some positive scaler" as in C03
            import contracts.C03 as C03
            import torchtree.evolution.tree_likelihood as tlm
            from vt.stubs import symbolic_factories
            model.rescale = True
            with symbolic_factories(tlm, extra={"max": C03._max_contract(mk, [0])}, enabled=mk.symbolic):
                res = model()
        else:
            res = model()
        # ---- oracle
        site_rates = mk.lift(sm.rates())
        site_probs = mk.lift(sm.probabilities())
        max_date = max(dates)
        ages = [d if min(dates) == 0.0 else max_date - d for d in dates]

        def tipvec(leaf, col):
            c = seqs[leaf][col]
            if tip_states:
                # ambiguous / unknown symbols are treated as missing
                if c.upper() in "ACGTU":
                    return iupac_vector(c)
                return (1.0, 1.0, 1.0, 1.0)
            return iupac_vector(c, use_amb)

        spec = []
        ncol = len(seqs[0])
        obatch = batch if len(batch) >= len(cbatch) else cbatch
        for ob in itertools.product(*[range(s) for s in obatch]):
            b = ob[:len(batch)] if batch else ()
            cb = ob[:len(cbatch)] if cbatch else ()

            def length(c):
                if tree_kind == "unrooted":
                    if c == 2 * T - 3:
                        return 0
                    return el(bl, b + (c,))
                p = nodes[c]["parent"]
                hp = el(hs, b + (p - T,))
                hc = ages[c] if c < T else el(hs, b + (c - T,))
                d = hp - hc
                mk.require(d > 0)
                if clock == "strict":
                    return d * el(cr, cb + (0,))
                if clock == "simple":
                    return d * el(cr, cb + (c,))
                return d
            tot = 0
            for col in range(ncol):
                bf = marginal.site_likelihood(
                    children, root, S, KK,
                    P=(lambda c, k, i, j: P_of(length(c) * el(site_rates, (k,)), i, j, S)) if subst_kind == "stub" else
                      (lambda c, k, i, j: P_jc(length(c) * el(site_rates, (k,)), i, j)),
                    pi=lambda i: el(freqs, (i,)), w=lambda k: el(site_probs, (k,)),
                    tip=lambda leaf, j: tipvec(leaf, col)[j])
                tot = tot + slog(bf)
            spec.append(tot)
        cl = [("eq", "model_loglik_is_marginal", res, spec)]
        # the marginal sum above runs over the categories the site model publishes; what those categories must satisfy is C05's contract,
        # re-stated on the instance this pipeline uses (relative rate applied, invariant category with rate 0 and probability p_inv)
        from contracts.C05 import _claims as _site_claims
        cl += [c for c in _site_claims(mk, sm.rates(), sm.probabilities(), sm_mu, sm_inv) if c[1] != "rates_value"]
        return cl
    return scn


# ----------------------------------------------------------------------------------------------
# traversal contract (bounded stand-in for dendropy) and finite tables


def postorder_ok(postorder, T, tree_nested, names, taxa_order):
    """checks the structural contract the numeric proofs require; returns error string or None"""
    if len(postorder) != T - 1:
        return "expected %d internal nodes, got %d" % (T - 1, len(postorder))
    seen = set(range(T))
    for k, (n, l, r) in enumerate(postorder):
        if n != T + k:
            return "internal indices must be T..2T-2 in visit order"
        if l not in seen or r not in seen:
            return "child visited after parent"
        if n in seen:
            return "node visited twice"
        seen.add(n)
    # leaf index = position of its label in the taxa list; topology equals the input topology
    idx_of = {name: i for i, name in enumerate(taxa_order)}
    clade = {i: frozenset([i]) for i in range(T)}
    for n, l, r in postorder:
        clade[n] = clade[l] | clade[r]

    def clades(t):
        if not isinstance(t, tuple):
            return frozenset([idx_of[names[t]]]), set()
        a, ca = clades(t[0])
        b, cb = clades(t[1])
        u = a | b
        return u, ca | cb | {u}
    _, want = clades(tree_nested)
    got = {clade[n] for n, _, _ in postorder}
    if got != want:
        return "clades differ from the input tree (leaf index is not the taxon position?)"
    root = postorder[-1]
    if (2 * T - 3) not in (root[1], root[2]):
        return "index 2T-3 is not a child of the root"
    return None


def ob_postorder(T, tier, seed):
    def body():
        from torchtree.evolution.taxa import Taxa, Taxon
        from torchtree.evolution.tree_model import UnRootedTreeModel, parse_tree
        from torchtree.core.parameter import Parameter
        rng = random.Random(seed + T)
        names = ["t%c" % (97 + i) for i in range(T)]
        n = 0
        perms = list(itertools.permutations(range(T))) if T <= 4 else None
        for tree in trees.all_rooted_binary(list(range(T))):
            tr = trees.shuffle_children(tree, rng)
            orders = perms if perms is not None else [tuple(rng.sample(range(T), T)) for _ in range(3 if tier == "quick" else 24)]
            if T == 6 and tier == "quick":
                orders = orders[:1]
            for perm in orders:
                taxa_order = [names[i] for i in perm]
                taxa = Taxa("taxa", [Taxon(nm, {}) for nm in taxa_order])
                newick = trees.to_newick(tr, names)
                tree_d = parse_tree(taxa, {"newick": newick})
                tm = UnRootedTreeModel("t", tree_d, taxa, Parameter("bl", torch.ones(2 * T - 3)))
                err = postorder_ok(tm.postorder, T, tr, names, taxa_order)
                n += 1
                if err:
                    raise Refuted("postorder contract violated for %s with taxa %s: %s; postorder=%s" % (newick, taxa_order, err, tm.postorder),
                                  witness={"newick": newick, "taxa": taxa_order, "postorder": [list(p) for p in tm.postorder]},
                                  replay={"kind": "custom", "contract": "C01", "func": "replay_postorder", "args": {"newick": newick, "taxa": taxa_order}},
                                  confirmed=True)
        return {"backend": "enum", "cases": n, "statement": "parse_tree+update_traversals satisfies postorder_ok on all %d-taxon rooted binary topologies" % T}
    return Ob("C01.postorder[T=%d]" % T, "B", body, clause="traversal contract (dendropy)", funcs=FUNCS)


def replay_postorder(args):
    from torchtree.evolution.taxa import Taxa, Taxon
    from torchtree.evolution.tree_model import UnRootedTreeModel, parse_tree
    from torchtree.core.parameter import Parameter
    taxa_order = args["taxa"]
    T = len(taxa_order)
    taxa = Taxa("taxa", [Taxon(nm, {}) for nm in taxa_order])
    tm = UnRootedTreeModel("t", parse_tree(taxa, {"newick": args["newick"]}), taxa, Parameter("bl", torch.ones(2 * T - 3)))
    nested = _nested_from_newick(args["newick"])
    names = sorted(taxa_order)
    err = postorder_ok(tm.postorder, T, _relabel(nested, names), names, taxa_order)
    return (err is None), ("postorder=%s err=%s" % (tm.postorder, err))


def _nested_from_newick(s):
    n = trees.parse_newick(s)

    def rec(x):
        if not x["children"]:
            return x["name"]
        return tuple(rec(c) for c in x["children"])
    return rec(n)


def _relabel(t, names):
    if isinstance(t, tuple):
        return tuple(_relabel(c, names) for c in t)
    return names.index(t)


def ob_tips():
    def body():
        from torchtree.evolution.datatype import AminoAcidDataType, CodonDataType, GeneralDataType, NucleotideDataType
        n = 0
        nt = NucleotideDataType(None)
        for code in range(128):
            c = chr(code)
            for amb in (True, False):
                got = tuple(nt.partial(c, amb))
                want = iupac_vector(c, amb) if c.upper() in IUPAC else (1.0, 1.0, 1.0, 1.0)
                n += 1
                if got != want:
                    raise Refuted("NucleotideDataType.partial(%r,%s)=%s, IUPAC says %s" % (c, amb, got, want), witness={"char": c, "amb": amb}, confirmed=True)
            enc = nt.encoding(c)
            want_state = "ACGT".index("T" if c.upper() == "U" else c.upper()) if c.upper() in "ACGTU" and c.strip() else None
            if want_state is not None and enc != want_state:
                raise Refuted("NucleotideDataType.encoding(%r)=%s" % (c, enc), witness={"char": c}, confirmed=True)
            if want_state is None and enc < 4:
                raise Refuted("NucleotideDataType.encoding(%r)=%s for a non-state symbol" % (c, enc), witness={"char": c}, confirmed=True)
        aa = AminoAcidDataType(None)
        AA = "ACDEFGHIKLMNPQRSTVWY"
        amb_aa = {"B": "DN", "Z": "EQ"}
        for code in range(33, 127):
            c = chr(code)
            for amb in (True, False):
                got = tuple(aa.partial(c, amb))
                u = c.upper()
                if u in AA:
                    want = tuple(1.0 if a == u else 0.0 for a in AA)
                elif u in amb_aa and amb:
                    want = tuple(1.0 if a in amb_aa[u] else 0.0 for a in AA)
                else:
                    want = (1.0,) * 20
                n += 1
                if got != want:
                    raise Refuted("AminoAcidDataType.partial(%r,%s) wrong" % (c, amb), witness={"char": c, "amb": amb, "got": got}, confirmed=True)
        # codon: for every genetic code, sense codons get a unit vector at their rank among sense codons
        std = {0: "KNKNTTTTRSRSIIMIQHQHPPPPRRRRLLLLEDEDAAAAGGGGVVVV*Y*YSSSS*CWCLFLF"}
        for gi, gname in enumerate(CodonDataType.GENETIC_CODE_NAMES):
            cd = CodonDataType(None, gname)
            table = CodonDataType.GENETIC_CODE_TABLES[gi]
            triplets = ["".join(p) for p in itertools.product("ACGT", repeat=3)]
            sense = [t for k, t in enumerate(triplets) if table[k] != "*"]
            if cd.state_count != len(sense) or tuple(cd.states) != tuple(sense):
                raise Refuted("CodonDataType(%s): states are not the sense codons in order" % gname, witness={"code": gname}, confirmed=True)
            for k, t in enumerate(triplets):
                got = cd.partial(t)
                n += 1
                if table[k] == "*":
                    continue  # stop codons in data: behaviour not constrained by the statement
                want = tuple(1.0 if s == t else 0.0 for s in sense)
                if tuple(got) != want:
                    raise Refuted("CodonDataType(%s).partial(%s) is not the indicator of the codon" % (gname, t), witness={"code": gname, "codon": t}, confirmed=True)
            for t in ("---", "???", "A-C", "NNN"):
                if tuple(cd.partial(t)) != (1.0,) * len(sense):
                    raise Refuted("CodonDataType(%s).partial(%s) should be all ones" % (gname, t), witness={"code": gname, "codon": t}, confirmed=True)
        gd = GeneralDataType(None, ("X", "Y", "Z"), {"W": ["X", "Y"], "V": "Z"})
        for c, want in (("X", (1, 0, 0)), ("Y", (0, 1, 0)), ("Z", (0, 0, 1)), ("W", (1, 1, 0)), ("V", (0, 0, 1)), ("?", (1, 1, 1))):
            n += 1
            if tuple(float(v) for v in gd.partial(c)) != tuple(float(v) for v in want):
                raise Refuted("GeneralDataType.partial(%s)=%s want %s" % (c, gd.partial(c), want), witness={"char": c}, confirmed=True)
        return {"backend": "enum", "cases": n, "statement": "tip vectors equal the IUPAC / codon / amino-acid indicator vectors on the whole finite alphabet"}
    return Ob("C01.tips", "V", body, clause="tip compatibility tables (finite, exhaustive)", funcs=FUNCS)


def ob_general_alphabet():
    """general alphabets whose state codes have MORE than one character (the data type's `size`): the tip vectors / tip states that
    reach the pruning functions through the real compress_alignment(_states) are the indicator vectors of the codes in the alignment"""
    def body():
        from torchtree.evolution.alignment import Alignment, Sequence
        from torchtree.evolution.datatype import GeneralDataType
        from torchtree.evolution.site_pattern import compress_alignment, compress_alignment_states
        from torchtree.evolution.taxa import Taxa, Taxon
        n = 0
        for codes, amb in ((("00", "01", "10", "11"), {"0?": ["00", "01"], "??": ["00", "01", "10", "11"]}),
                           (("ab", "cd", "ef"), {}), (("x", "y", "z"), {"w": ["x", "y"]}), (("AAA", "CCC"), {})):
            size = len(codes[0])
            dt = GeneralDataType(None, codes, dict(amb))
            names = ["t0", "t1", "t2"]
            taxa = Taxa("taxa", [Taxon(nm, {}) for nm in names])
            symbols = list(codes) + list(amb) + ["?" * size]
            cols = [(symbols[(i + j) % len(symbols)] for j in range(3)) for i in range(len(symbols) + 1)]
            cols = [tuple(c) for c in cols]
            seqs = ["".join(c[k] for c in cols) for k in range(3)]
            aln = Alignment("a", [Sequence(nm, sq) for nm, sq in zip(names, seqs)], taxa, dt)

            def vec(sym, use_amb=True):
                if sym in codes:
                    return tuple(1.0 if c == sym else 0.0 for c in codes)
                if sym in amb and use_amb:
                    return tuple(1.0 if c in amb[sym] else 0.0 for c in codes)
                return (1.0,) * len(codes)
            from collections import Counter
            want = Counter(tuple(vec(sy) for sy in col) for col in cols)
            parts, w = compress_alignment(aln, None, True)
            got = Counter()
            for p_ in range(len(w)):
                got[tuple(tuple(float(v) for v in parts[i][:, p_]) for i in range(3))] += int(w[p_])
            n += 1
            if got != want:
                raise Refuted("GeneralDataType with codes %s: the tip vectors produced by compress_alignment are not the indicators of the codes (e.g. %s)" % (
                    list(codes), [k for k in got if k not in want][:1]), witness={"codes": list(codes), "sequences": seqs}, confirmed=True)
            st, w2 = compress_alignment_states(aln)
            want_s = Counter(tuple(codes.index(sy) if sy in codes else len(codes) for sy in col) for col in cols)
            got_s = Counter()
            for p_ in range(len(w2)):
                got_s[tuple(min(int(st[i][p_]), len(codes)) for i in range(3))] += int(w2[p_])
            n += 1
            if got_s != want_s:
                raise Refuted("GeneralDataType with codes %s: the tip states produced by compress_alignment_states are not the indices of the codes" % (list(codes),),
                              witness={"codes": list(codes), "sequences": seqs, "got": [list(k) for k in got_s], "want": [list(k) for k in want_s]}, confirmed=True)
        return {"backend": "enum", "cases": n, "statement": "general alphabets with codes of 1, 2 and 3 characters (with ambiguity codes): tip vectors / tip states are those of the codes"}
    return Ob("C01.tips.general_alphabet", "B", body, clause="tip compatibility for general alphabets with multi-character codes (bounded)", funcs=FUNCS)


def ob_site_indices():
    """SitePattern 'indices' (a comma-separated list of Python-style indices and slices): the patterns are exactly the columns the list
    selects, in any spelling - several entries, single (also negative) indices, steps, reversed order - for tip partials and tip states"""
    def body():
        from collections import Counter
        from torchtree.evolution.alignment import Alignment, Sequence
        from torchtree.evolution.datatype import NucleotideDataType
        from torchtree.evolution.site_pattern import SitePattern
        from torchtree.evolution.taxa import Taxa, Taxon
        names = ["t0", "t1", "t2"]
        seqs = ["ACGTACGTRYNA", "AAGTCCGTRC-A", "ACGGACTTAYNC"]
        L = len(seqs[0])
        taxa = Taxa("taxa", [Taxon(nm, {}) for nm in names])
        aln = Alignment("a", [Sequence(nm, sq) for nm, sq in zip(names, seqs)], taxa, NucleotideDataType(None))
        specs = ["0:6,6:12", "6:12,0:6", "11,10,9,8,7,6,5,4,3,2,1,0", "0:12:2,1:12:2", "::3,1::3", "2::3", "0:6,8,-1", "-1,0", "-2,-1", "5", "-1:", ":-1", "3:9"]
        n = 0
        for spec in specs:
            sel = []
            for part in spec.split(","):
                if ":" in part:
                    f = [None if x == "" else int(x) for x in part.split(":")]
                    sel += list(range(L))[slice(*f)]
                else:
                    sel.append(list(range(L))[int(part)])
            sp = SitePattern.from_json({"id": "sp", "type": "SitePattern", "alignment": "a", "indices": spec}, {"a": aln})
            for states in (False, True):
                try:
                    parts, w = sp.compute_tips_states() if states else sp.compute_tips_partials(True)
                except Exception as e:
                    from vt.scenario import _raised_in_repo
                    if _raised_in_repo(e) and len(sel) > 0:
                        raise Refuted("SitePattern(indices=%r) raises %s: %s" % (spec, type(e).__name__, e), witness={"indices": spec}, confirmed=True,
                                      replay={"kind": "custom", "contract": "C01", "func": "replay_site_indices", "args": {}})
                    raise
                n += 1
                nt = NucleotideDataType(None)
                want = Counter()
                for c in sel:
                    col = tuple(sq[c] for sq in seqs)
                    want[tuple(min(nt.encoding(ch), 4) for ch in col) if states else tuple(tuple(iupac_vector(ch)) for ch in col)] += 1
                got = Counter()
                for p_ in range(len(w)):
                    key = tuple(min(int(parts[i][p_]), 4) for i in range(3)) if states else tuple(tuple(float(v) for v in parts[i][:, p_]) for i in range(3))
                    got[key] += int(w[p_])
                if got != want:
                    raise Refuted("SitePattern(indices=%r)%s: %d sites in the patterns (weights %s), the index list selects the %d columns %s" % (
                        spec, " (tip states)" if states else "", int(w.sum()), w.tolist(), len(sel), sel), witness={"indices": spec, "selected": sel}, confirmed=True,
                        replay={"kind": "custom", "contract": "C01", "func": "replay_site_indices", "args": {}})
        return {"backend": "enum", "cases": n, "bounded": "%d index lists over 12 columns" % len(specs),
                "statement": "SitePattern 'indices': the compressed patterns are the multiset of the selected columns for %d spellings" % len(specs)}
    return Ob("C01.site_indices", "B", body, clause="column selection (bounded enumeration)", funcs=FUNCS)


def replay_site_indices(args):
    try:
        ob_site_indices().fn()
    except Refuted as e:
        return False, e.detail
    return True, "held"


def ob_codon_models_one_process():
    """two likelihood models over codon data for DIFFERENT genetic codes (same number of sense codons) built in one process, then evaluated:
    each equals the marginal sum computed from the documented MG94 matrix of its own code (star tree, 3 taxa: one internal node)"""
    def body():
        import contracts.C04 as C04
        from torchtree.core.parameter import Parameter
        from torchtree.evolution.alignment import Alignment, Sequence
        from torchtree.evolution.datatype import CodonDataType
        from torchtree.evolution.site_model import ConstantSiteModel
        from torchtree.evolution.site_pattern import SitePattern
        from torchtree.evolution.substitution_model.codon import MG94
        from torchtree.evolution.taxa import Taxa, Taxon
        from torchtree.evolution.tree_likelihood import TreeLikelihoodModel
        from torchtree.evolution.tree_model import UnRootedTreeModel, parse_tree
        t64 = lambda v: torch.tensor(v, dtype=torch.float64)
        names = ["A", "B", "C"]
        seqs = {"A": "CTGAGAATAAAA---", "B": "CTAAGGATAAAGCCC", "C": "TTGCGAATGAAAC?C"}
        bl = [0.11, 0.23, 0.07]
        n = 0
        for order in (["Universal", "Alternative Yeast", "Bacterial"], ["Alternative Yeast", "Universal"], ["Yeast", "Mycoplasma"]):
            built = []
            for code in order:
                dt = CodonDataType("codon", code)
                S = dt.state_count
                taxa = Taxa("taxa", [Taxon(nm, {}) for nm in names])
                aln = Alignment("a", [Sequence(nm, seqs[nm]) for nm in names], taxa, dt)
                tree = parse_tree(taxa, {"newick": "((A,B),C);"})
                tm = UnRootedTreeModel("t", tree, taxa, Parameter("bl", t64(bl)))
                g_ = torch.Generator().manual_seed(S)
                f = torch.rand(S, generator=g_, dtype=torch.float64) + 0.2
                f = f / f.sum()
                sub = MG94("m", dt, Parameter("al", t64([0.6])), Parameter("be", t64([2.5])), Parameter("ka", t64([3.7])), Parameter("f", f))
                built.append((code, dt, sub, f, TreeLikelihoodModel("like", SitePattern("sp", aln), tm, sub, ConstantSiteModel("sm"))))
            for code, dt, sub, f, like in built:
                got = float(like().reshape(-1)[0])
                S = dt.state_count
                exch = C04._exchangeability_spec("MG94", code, sub, S)
                Q = torch.zeros(S, S, dtype=torch.float64)
                for i in range(S):
                    for j in range(S):
                        if i != j:
                            Q[i, j] = float(exch((), i, j)) * float(f[j])
                    Q[i, i] = -Q[i].sum()
                Q = Q / (-(f * torch.diagonal(Q)).sum())
                # unrooted tree ((A,B),C): branch index = node index; the two root branches merge into one
                br = like.tree_model.branch_lengths().reshape(-1)
                idx = {nm: k for k, nm in enumerate(names)}
                tA, tB = float(br[idx["A"]]), float(br[idx["B"]])
                tC = float(br[idx["C"]]) + float(br[3]) if br.numel() > 3 else float(br[idx["C"]])
                P = {nm: torch.matrix_exp(Q * t_) for nm, t_ in (("A", tA), ("B", tB), ("C", tC))}
                states = list(dt.states)
                want = 0.0
                for col in range(0, len(seqs["A"]), 3):
                    tipv = {}
                    for nm in names:
                        cod = seqs[nm][col:col + 3]
                        tipv[nm] = torch.tensor([1.0 if (cod not in states or cod == s_) else 0.0 for s_ in states], dtype=torch.float64)
                    lik = (f * (P["A"] @ tipv["A"]) * (P["B"] @ tipv["B"]) * (P["C"] @ tipv["C"])).sum()
                    want += math.log(float(lik))
                n += 1
                if abs(got - want) > 1e-9 * abs(want):
                    raise Refuted("codon likelihood for the genetic code %r (models built in one process in the order %s): %.10f, marginal sum with the documented MG94 matrix of this code %.10f" % (
                        code, order, got, want), witness={"code": code, "order": order}, confirmed=True,
                        replay={"kind": "custom", "contract": "C01", "func": "replay_codon_models_one_process", "args": {}})
        return {"backend": "concrete", "cases": n, "bounded": "3 construction orders, 3 taxa, 5 codon columns",
                "statement": "%d codon likelihoods of models built side by side equal the marginal sum under their own genetic code" % n}
    return Ob("C01.codon.models_in_one_process", "B", body, clause="the likelihood of a model does not depend on which models were built before it (bounded)", funcs=FUNCS)


def replay_codon_models_one_process(args):
    try:
        ob_codon_models_one_process().fn()
    except Refuted as e:
        return False, e.detail
    return True, "held"


def ob_compress(tier, seed):
    def body():
        from torchtree.evolution.alignment import Alignment, Sequence
        from torchtree.evolution.datatype import NucleotideDataType
        from torchtree.evolution.site_pattern import compress_alignment, compress_alignment_states
        from torchtree.evolution.taxa import Taxa, Taxon
        n = 0
        alphabet = "AR-" if tier == "quick" else "ACR-"
        for T in (2, 3):
            L = {(2, "quick"): 5, (3, "quick"): 3, (2, "thorough"): 5, (3, "thorough"): 3}[(T, tier)]
            names = ["t%d" % i for i in range(T)]
            taxa = Taxa("taxa", [Taxon(nm, {}) for nm in names])
            for flat in itertools.product(alphabet, repeat=T * L):
                seqs = ["".join(flat[i * L:(i + 1) * L]) for i in range(T)]
                aln = Alignment("a", [Sequence(names[i], seqs[i]) for i in reversed(range(T))], taxa, NucleotideDataType(None))
                for states in (False, True):
                    if states:
                        parts, w = compress_alignment_states(aln)
                    else:
                        parts, w = compress_alignment(aln, None, True)
                    n += 1
                    if int(w.sum()) != L:
                        raise Refuted("weights sum %d != columns %d" % (int(w.sum()), L), witness={"seqs": seqs}, confirmed=True)
                    # multiset of columns preserved
                    from collections import Counter
                    want = Counter(tuple(s[c] for s in seqs) for c in range(L))
                    got = Counter()
                    for p in range(len(w)):
                        if states:
                            col = tuple(int(parts[i][p]) for i in range(T))
                            key = col
                        else:
                            col = tuple(tuple(float(v) for v in parts[i][:, p]) for i in range(T))
                            key = col
                        got[key] += int(w[p])
                    nt = NucleotideDataType(None)
                    want2 = Counter()
                    for colchars, cnt in want.items():
                        if states:
                            key = tuple(min(nt.encoding(ch), 4) for ch in colchars)
                        else:
                            key = tuple(tuple(iupac_vector(ch)) for ch in colchars)
                        want2[key] += cnt
                    if got != want2:
                        raise Refuted("compressed patterns are not the multiset of columns (row i must belong to taxa[i])", witness={"seqs": seqs, "states": states}, confirmed=True)
        return {"backend": "enum", "cases": n, "statement": "compress_alignment(_states): multiset of columns preserved, sum weights = #columns, row i is taxa[i]"}
    return Ob("C01.compress", "B", body, clause="pattern compression (bounded enumeration)", funcs=FUNCS)


def _fasta_spec(text):
    """the FASTA format as the statement's 'alignment' needs it: a record starts at a line whose first non-blank character is '>',
    its name is the rest of that line without surrounding white space, its sequence the concatenation of the following lines
    without their surrounding white space (line ends \n or \r\n, blank lines ignored); records in file order"""
    recs = []
    for raw in text.replace("\r\n", "\n").split("\n"):
        line = raw.strip()
        if line.startswith(">"):
            recs.append([line[1:].strip(), ""])
        elif line and recs:
            recs[-1][1] += line
    return [(a, b) for a, b in recs]


def ob_fasta():
    """read_fasta_sequences / Alignment.from_json({'file': ...}) against the format, over an enumeration of lay-outs (bounded)"""
    def body():
        import os
        import shutil
        import tempfile
        from torchtree.evolution import alignment as am
        from torchtree.evolution.taxa import Taxa, Taxon
        names = ["B", "A", "D", "C"]
        seqs = ["ACGTRN-ACGTTAC", "CCGYAN?GTTAGCA", "GATTAC-KAACCGT", "TAGSWMBDCGTNNA"]
        n = 0
        d = tempfile.mkdtemp(prefix="vt_fasta_")
        try:
            for width in (None, 5, 8):
                for deco in ("none", "trailing blanks", "leading tab", "mixed", "crlf", "blank lines", "no final newline", "blanks after name"):
                    lines = []
                    for r, (nm, sq) in enumerate(zip(names, seqs)):
                        lines.append(">" + nm + ("  " if deco == "blanks after name" else ""))
                        chunks = [sq] if width is None else [sq[i:i + width] for i in range(0, len(sq), width)]
                        for c, ch in enumerate(chunks):
                            if deco == "trailing blanks" and (r + c) % 2 == 0:
                                ch = ch + "  "
                            elif deco == "leading tab" and (r + c) % 3 == 0:
                                ch = "\t" + ch
                            elif deco == "mixed" and r == 1:
                                ch = " " + ch + " \t"
                            lines.append(ch)
                        if deco == "blank lines":
                            lines.append("")
                    eol = "\r\n" if deco == "crlf" else "\n"
                    text = eol.join(lines) + ("" if deco == "no final newline" else eol)
                    fn = os.path.join(d, "a.fa")
                    with open(fn, "w", newline="") as fp:
                        fp.write(text)
                    want = _fasta_spec(text)
                    if want != list(zip(names, seqs)):
                        raise Undecided("the FASTA specification of the contract does not reproduce the records it wrote")
                    got = [(q.taxon, q.sequence) for q in am.read_fasta_sequences(fn)]
                    n += 1
                    if got != want:
                        bad = [(g, w) for g, w in zip(got, want) if g != w][:2]
                        raise Refuted("read_fasta_sequences (line width %s, %s): records differ from the file's content, e.g. %r" % (width, deco, bad),
                                      witness={"file_text": text, "got": got, "want": want}, confirmed=True)
                    taxa = Taxa("taxa", [Taxon(nm, {}) for nm in sorted(names)])
                    aln = am.Alignment.from_json({"id": "a", "type": "Alignment", "datatype": "nucleotide", "taxa": "taxa", "file": fn}, {"taxa": taxa})
                    rows = [(q.taxon, q.sequence) for q in aln]
                    if sorted(rows) != sorted(want) or len({len(b) for _, b in rows}) != 1:
                        raise Refuted("Alignment.from_json(file) (line width %s, %s): rows %r" % (width, deco, rows[:2]), witness={"file_text": text}, confirmed=True)
        finally:
            shutil.rmtree(d, ignore_errors=True)
        return {"backend": "enum", "cases": n, "bounded": "4 records x 14 columns, line widths none/5/8, 8 white-space / line-end lay-outs",
                "statement": "read_fasta_sequences(file) and Alignment.from_json({'file': file}) return exactly the records of the file (names and sequences "
                             "without surrounding white space, wrapped lines joined, file order kept)"}
    return Ob("C01.fasta", "B", body, clause="alignment read from a FASTA file (bounded enumeration of lay-outs)", funcs=FUNCS)


# ----------------------------------------------------------------------------------------------


def _tree_strs(T):
    return [repr(t).replace(" ", "") for t in trees.all_rooted_binary(list(range(T)))]


def ob_underflow_value(name, use_tip_states):
    """the value returned on the evaluation that switches to rescaling (and on the next one) is the exact marginal: JC69 on trees large
    enough for the plain pass to underflow (C03's scenarios), against an INDEPENDENT log-space pruning in Python floats"""
    def body():
        import contracts.C03 as C03
        from specs import marginal
        shape, T, cols, bl = C03.SHAPED[name]
        torch.set_num_threads(1)
        m = C03._shaped_model(shape, T, cols, bl, False, use_tip_states)
        if shape == "caterpillar":
            tree = 0
            for i in range(1, T):
                tree = (tree, i)
        else:
            level = list(range(T))
            while len(level) > 1:
                level = [(level[i], level[i + 1]) if i + 1 < len(level) else level[i] for i in range(0, len(level), 2)]
            tree = level[0]
        want = sum(marginal.jc69_logspace(tree, [c(i) for i in range(T)], bl) for c in cols)
        bad = []
        for which in ("first (switching)", "second"):
            try:
                x = float(m().reshape(-1)[0]) if which.startswith("first") else float(m._call().reshape(-1)[0])
            except Exception as e:
                bad.append("%s evaluation raised %s: %s" % (which, type(e).__name__, str(e)[:100]))
                break
            if not (x == x) or abs(x - want) > 1e-8 * abs(want):
                bad.append("%s evaluation returns %r, log-space marginal %r" % (which, x, want))
        if bad:
            raise Refuted("%s (tip_states=%s): %s" % (name, use_tip_states, "; ".join(bad)), witness={"scenario": name, "problems": bad},
                          replay={"kind": "custom", "contract": "C01", "func": "replay_underflow_value", "args": {"name": name, "tip_states": use_tip_states}}, confirmed=True)
        return {"backend": "concrete", "cases": 2, "statement": "%s: model value equals the log-space marginal %.6f on the switching and on the next evaluation" % (name, want)}
    return Ob("C01.model.underflow[%s,tip_states=%s]" % (name, use_tip_states), "B", body,
              clause="the log-likelihood is the exact marginal also when the plain pass underflows (large trees, bounded)", funcs=FUNCS, timeout=600)


def replay_underflow_value(args):
    try:
        ob_underflow_value(args["name"], args["tip_states"]).fn()
    except Refuted as e:
        return False, e.detail
    return True, "held"


def _history_world(kind, values_index):
    """real TreeLikelihoodModel (JC69, constant site model, strict clock for time trees) over a tree model of the given kind"""
    from torchtree.core.parameter import Parameter
    from torchtree.evolution.alignment import Alignment, Sequence
    from torchtree.evolution.branch_model import StrictClockModel
    from torchtree.evolution.datatype import NucleotideDataType
    from torchtree.evolution.site_model import ConstantSiteModel
    from torchtree.evolution.site_pattern import SitePattern
    from torchtree.evolution.substitution_model.nucleotide import JC69
    from torchtree.evolution.tree_likelihood import TreeLikelihoodModel
    from torchtree.evolution.tree_model import UnRootedTreeModel, parse_tree
    from specs import treemodels
    names = ["A", "B", "C", "D"]
    tree = ((0, 1), (2, 3))
    dates = [0.0, 1.0, 0.0, 2.0]
    seqs = ["ACGT", "CCGA", "GATT", "TAGA"]
    if kind == "unrooted":
        vals = [[0.1, 0.2, 0.3, 0.4, 0.5], [0.3, 0.1, 0.25, 0.2, 0.6], [0.2, 0.2, 0.1, 0.7, 0.3], [0.5, 0.4, 0.3, 0.2, 0.1], [0.15, 0.35, 0.55, 0.25, 0.45]]
        taxa = treemodels.make_taxa(names, [0.0] * 4)
        tm = UnRootedTreeModel("t", parse_tree(taxa, {"newick": treemodels.newick_of(tree, names)}), taxa,
                               Parameter("bl", torch.tensor(vals[values_index], dtype=torch.float64)))
        p = treemodels.tree_parameter(tm)
        cm = None
    elif kind == "time":
        vals = [[1.5, 2.5, 3.0], [1.2, 2.2, 4.0], [1.8, 2.1, 2.6], [1.1, 3.0, 3.5], [1.6, 2.05, 5.0]]
        tm, _ = treemodels.build_timetree(tree, names, dates, torch.tensor(vals[values_index], dtype=torch.float64))
        p = treemodels.tree_parameter(tm)
        cm = StrictClockModel("clock", Parameter("rate", torch.tensor([0.3], dtype=torch.float64)), tm)
    else:
        vals = [[0.5, 0.25, 3.0], [0.3, 0.6, 4.0], [0.8, 0.1, 2.5], [0.45, 0.55, 5.0], [0.2, 0.9, 3.5]]
        tm, _ = treemodels.build_reparam(tree, names, dates, torch.tensor(vals[values_index], dtype=torch.float64), "ratios")
        taxa = treemodels.make_taxa(names, dates)
        p = treemodels.tree_parameter(tm)
        cm = StrictClockModel("clock", Parameter("rate", torch.tensor([0.3], dtype=torch.float64)), tm)
    taxa2 = treemodels.make_taxa(names, [0.0] * 4 if kind == "unrooted" else dates)
    aln = Alignment("a", [Sequence(n, s_) for n, s_ in zip(names, seqs)], taxa2, NucleotideDataType(None))
    like = TreeLikelihoodModel("like", SitePattern("sp", aln), tm, JC69("jc"), ConstantSiteModel("sm"), cm)
    return like, tm, p, vals


def likelihood_histories(kind, depth):
    """EVERY history (length <= depth, ending in an evaluation) over {assign new tree parameters, in-place update + notification, read node
    heights, read branch lengths, evaluate the likelihood} on a real TreeLikelihoodModel: each evaluation equals that of a freshly built
    pipeline holding the current parameter values.  Returns (first failure | None, number of histories)."""
    ops = ("set", "inplace", "heights", "bl", "like")
    fresh = {}

    def fresh_value(i):
        if i not in fresh:
            fresh[i] = _history_world(kind, i)[0]().detach().clone()
        return fresh[i]
    n = 0
    for d in range(1, depth + 1):
        for hist in itertools.product(ops, repeat=d):
            if hist[-1] != "like" or (kind == "unrooted" and "heights" in hist):
                continue
            n += 1
            like, tm, p, vals = _history_world(kind, 0)
            cur = 0
            for k, op in enumerate(hist):
                if op == "set":
                    cur += 1
                    p.tensor = torch.tensor(vals[cur], dtype=torch.float64)
                elif op == "inplace":
                    cur += 1
                    with torch.no_grad():
                        p.tensor.copy_(torch.tensor(vals[cur], dtype=torch.float64))
                    p.fire_parameter_changed()
                elif op == "heights":
                    tm.node_heights
                elif op == "bl":
                    tm.branch_lengths()
                else:
                    got = like()
                    want = fresh_value(cur)
                    if got.shape != want.shape or not torch.allclose(got.detach(), want, rtol=1e-10, atol=1e-12):
                        return (list(hist[:k + 1]), got.detach().tolist(), want.tolist()), n
    return None, n


def ob_likelihood_history(kind, depth):
    def body():
        bad, n = likelihood_histories(kind, depth)
        if bad is not None:
            hist, got, want = bad
            raise Refuted("%s tree: after the history %s the likelihood is %s, a freshly built pipeline with the current parameter values gives %s"
                          % (kind, hist, got, want), witness={"kind": kind, "history": hist},
                          replay={"kind": "custom", "contract": "C01", "func": "replay_likelihood_history", "args": {"kind": kind, "depth": depth}}, confirmed=True)
        return {"backend": "heap", "cases": n, "statement": "%d histories of updates / reads / evaluations (%s tree): every evaluation is the marginal likelihood of the CURRENT parameter values" % (n, kind)}
    return Ob("C01.model.history[%s,depth<=%d]" % (kind, depth), "B", body,
              clause="the log-likelihood returned is that of the current parameter values after every history of updates and reads", funcs=FUNCS)


def replay_likelihood_history(args):
    try:
        ob_likelihood_history(args["kind"], args["depth"]).fn()
    except Refuted as e:
        return False, e.detail
    return True, "held"


def obligations(tier, seed):
    rng = random.Random(seed)
    obs = []

    def add(name, factory, args, clause, tag="V", **kw):
        obs.append(scenario_ob("C01", name, tag, factory, args, clause=clause, funcs=FUNCS, seed=seed, **kw))

    # pruning, tip partials: all topologies
    Ts = [3, 4, 5]
    for T in Ts:
        for ti, ts in enumerate(_tree_strs(T)):
            t = ast.literal_eval(ts)
            ts2 = repr(trees.shuffle_children(t, rng)).replace(" ", "")
            if T == 5 and tier == "quick" and ti % 7:
                continue
            cfgs = [(2, 2, (), 2)] if T >= 4 else [(2, 2, (), 2), (4, 1, (), 1), (2, 2, (2,), 1), (3, 1, (), 1)]
            if T == 5:
                cfgs = [(2, 1, (), 1)] if ti % 3 else [(2, 2, (), 1)]
            for S, K, batch, N in cfgs:
                add("C01.prune.partials[tree=%s,S=%d,K=%d,batch=%s,N=%d]" % (ts2, S, K, batch, N), "scn_prune",
                    ("partials", ts2, S, K, batch, N), "pruning ≡ marginal sum (tip partials)")
    # loop cut: one generic iteration + suffix, every tree size
    for variant in ("partials", "states"):
        for lk in ("tip", "internal"):
            for rk in ("tip", "internal"):
                obs.append(scenario_ob("C01", "C01.prune.cut.%s[left=%s,right=%s]" % (variant, lk, rk), "U", "scn_prune_cut", (variant, lk, rk, 2, 2, 2),
                                       clause="generic iteration of the pruning loop ≡ Felsenstein recursion; suffix ≡ root reduction (unbounded in taxa)", funcs=FUNCS, seed=seed))
    obs.append(scenario_ob("C01", "C01.prune.cut.partials[left=internal,right=tip,S=4,K=1]", "U", "scn_prune_cut", ("partials", "internal", "tip", 4, 1, 1),
                           clause="generic iteration of the pruning loop ≡ Felsenstein recursion (S=4)", funcs=FUNCS, seed=seed))
    # pruning, tip states: all state patterns as columns
    for T in ([3] if tier == "quick" else [3, 4]):
        S = 2
        pats = list(itertools.product(range(S + 1), repeat=T))
        if T == 4:
            pats = rng.sample(pats, 12)
        cols = [[p[i] for p in pats] for i in range(T)]
        for ts in _tree_strs(T):
            t = ast.literal_eval(ts)
            ts2 = repr(trees.shuffle_children(t, rng)).replace(" ", "")
            add("C01.prune.states[tree=%s,S=%d,K=2,npat=%d]" % (ts2, S, len(pats)), "scn_prune",
                ("states", ts2, S, 2, (), cols), "pruning ≡ marginal sum (tip states, unknown = missing)")
    # whole pipeline
    names4 = ["A", "B", "C", "D", "E"]
    seq_pool = ["ACGTRN-AC", "CCGYAN?GT", "GATTAC-KA", "TAGSWMBDC", "AMCGTVHAG"]
    model_cfgs = []
    for T in [3, 4, 5]:
        tlist = _tree_strs(T)
        picks = tlist if (T == 3 or (T == 4 and tier == "thorough")) else rng.sample(tlist, (6 if T == 4 else 3) if tier == "quick" else 12)
        for k, ts in enumerate(picks):
            t = trees.shuffle_children(ast.literal_eval(ts), rng)
            names = names4[:T]
            perm = rng.sample(range(T), T)
            taxa_names = [names[i] for i in perm]
            newick = trees.to_newick(t, names)
            L = 4 if T >= 4 else 6
            seqs = [seq_pool[names.index(nm)][k % 3:k % 3 + L] + seq_pool[names.index(nm)][k % 3] for nm in taxa_names]
            variants = [
                ("unrooted", None, "constant", 1, False, True, ()),
                ("unrooted", None, "weibull", 2, False, False, (2,)),
                ("time", "strict", "constant", 1, False, True, ()),
                ("time", "simple", "invariant", 2, False, True, ()),
                ("unrooted", None, "constant", 1, True, True, ()),
                ("time", "strict", "weibull", 2, True, True, (2,)),
            ]
            if T >= 4:
                variants = [variants[k % len(variants)], variants[(k + 2) % len(variants)]]
            for tree_kind, clock, site, K, tip_states, use_amb, batch in variants:
                dates = [0.0] * T if tree_kind == "unrooted" else [float((i * 3) % 4) for i in range(T)]
                if tree_kind == "time" and k % 2 == 1:
                    dates = [2010.0 + d for d in dates]  # calendar dates
                add("C01.model[%s,taxa=%s,%s,clock=%s,site=%s,K=%d,tipstates=%s,amb=%s,batch=%s]" % (
                    newick, "".join(taxa_names), tree_kind, clock, site, K, tip_states, use_amb, batch),
                    "scn_model", (newick, taxa_names, seqs, dates, tree_kind, clock, site, K, tip_states, use_amb, batch),
                    "TreeLikelihoodModel pipeline ≡ marginal sum", fns={"P": lambda t, i, j: _pfun(t, i, j, 4)})
    for site_, K_ in (("weibull+inv+mu", 2), ("weibull+mu", 2), ("weibull+inv", 2), ("invariant+mu", 2), ("weibull+mu", 1), ("weibull+inv+mu", 1)):
        add("C01.model.JC69[((A,B),C);,unrooted,site=%s,K=%d]" % (site_, K_), "scn_model",
            ("((A,B),C);", ["C", "A", "B"], ["ACR", "CGN", "GT-"], [0.0, 0.0, 0.0], "unrooted", None, site_, K_, False, True, (), "JC69"),
            "TreeLikelihoodModel pipeline ≡ marginal sum over the categories of a site model with invariant class and relative rate")
    for shift_ in (1, 2):
        for ts_ in (False, True):
            add("C01.model.JC69[((A,B),(C,D));,unrooted,alignment taxa rotated by %d,tipstates=%s]" % (shift_, ts_), "scn_model",
                ("((A,B),(C,D));", ["A", "B", "C", "D"], ["ACR", "CGN", "GT-", "TAC"], [0.0] * 4, "unrooted", None, "constant", 1, ts_, True, (), "JC69", False, None, shift_),
                "TreeLikelihoodModel pipeline ≡ marginal sum when the alignment carries a Taxa object of its own in another order")
    add("C01.model.JC69[((A,B),C);,unrooted,weibull]", "scn_model",
        ("((A,B),C);", ["C", "A", "B"], ["ACR", "CGN", "GT-"], [0.0, 0.0, 0.0], "unrooted", None, "weibull", 2, False, True, (), "JC69"),
        "TreeLikelihoodModel pipeline with the real JC69 model ≡ marginal sum")
    add("C01.model.JC69[((A,B),(C,D));,time,strict,invariant]", "scn_model",
        ("((A,B),(C,D));", ["A", "B", "C", "D"], ["AC", "CG", "GT", "TN"], [0.0, 1.0, 0.0, 2.0], "time", "strict", "invariant", 2, False, True, (2,), "JC69"),
        "TreeLikelihoodModel pipeline with the real JC69 model ≡ marginal sum")
    for ck in ("strict", "simple"):
        add("C01.model.JC69[((A,B),C);,time,%s,clock batched (3,), heights fixed]" % ck, "scn_model",
            ("((A,B),C);", ["A", "B", "C"], ["AC", "CG", "GT"], [0.0, 1.0, 0.0], "time", ck, "constant", 1, False, True, (), "JC69", False, (3,)),
            "TreeLikelihoodModel pipeline ≡ marginal sum: clock rates carry a sample dimension, node heights do not")
        add("C01.model.JC69[((A,B),C);,time,%s,heights batched (2,), clock fixed]" % ck, "scn_model",
            ("((A,B),C);", ["A", "B", "C"], ["AC", "CG", "GT"], [0.0, 1.0, 0.0], "time", ck, "constant", 1, False, True, (2,), "JC69", False, ()),
            "TreeLikelihoodModel pipeline ≡ marginal sum: node heights carry a sample dimension, clock rates do not")
    for ts_ in (False, True):
        add("C01.model.rescaled[((A,B),C);,unrooted,tipstates=%s]" % ts_, "scn_model",
            ("((A,B),C);", ["C", "A", "B"], ["ACRA", "CGNC", "GT-G"], [0.0, 0.0, 0.0], "unrooted", None, "weibull", 2, ts_, True, (), "stub", True),
            "TreeLikelihoodModel pipeline with rescaling on ≡ marginal sum", fns={"P": lambda t, i, j: _pfun(t, i, j, 4)})
        add("C01.model.rescaled[((A,B),(C,D));,time,strict,tipstates=%s]" % ts_, "scn_model",
            ("((A,B),(C,D));", ["A", "B", "C", "D"], ["ACA", "CGC", "GTG", "TNT"], [0.0, 1.0, 0.0, 2.0], "time", "strict", "constant", 1, ts_, True, (), "stub", True),
            "TreeLikelihoodModel pipeline with rescaling on ≡ marginal sum", fns={"P": lambda t, i, j: _pfun(t, i, j, 4)})
    # rescaling on AND a sample dimension (the scalers are per sample)
    for ts_ in (False, True):
        for b in ((2,), (3,)):
            add("C01.model.rescaled[((A,B),C);,unrooted,tipstates=%s,batch=%s]" % (ts_, b), "scn_model",
                ("((A,B),C);", ["C", "A", "B"], ["ACRA", "CGNC", "GT-G"], [0.0, 0.0, 0.0], "unrooted", None, "constant", 1, ts_, True, b, "stub", True),
                "TreeLikelihoodModel pipeline with rescaling on ≡ marginal sum (batched)", fns={"P": lambda t, i, j: _pfun(t, i, j, 4)})
    add("C01.model.rescaled[((A,B),C);,time,strict,batch=(2,)]", "scn_model",
        ("((A,B),C);", ["A", "B", "C"], ["ACA", "CGC", "GTG"], [0.0, 1.0, 0.0], "time", "strict", "constant", 1, False, True, (2,), "stub", True),
        "TreeLikelihoodModel pipeline with rescaling on ≡ marginal sum (batched)", fns={"P": lambda t, i, j: _pfun(t, i, j, 4)})
    import contracts.C03 as _c03
    for name_ in _c03.SHAPED:
        if "1024" in name_ and tier == "quick":
            continue
        for ts_ in (False, True):
            obs.append(ob_underflow_value(name_, ts_))
    for kind in ("time", "ratios", "unrooted"):
        obs.append(ob_likelihood_history(kind, 4 if tier == "quick" else 5))
    for T in (3, 4, 5, 6):
        obs.append(ob_postorder(T, tier, seed))
    obs.append(ob_tips())
    obs.append(ob_compress(tier, seed))
    obs.append(ob_general_alphabet())
    obs.append(ob_codon_models_one_process())
    obs.append(ob_site_indices())
    obs.append(ob_fasta())
    return obs
