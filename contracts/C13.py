"""C13 — every id denotes exactly one shared object (DESIGN 4 C13, appendix A.2).

Functions under contract (the real objects imported from the repository on every run):
process_object, process_objects, process_object_with_key, JSONSerializable.from_json_safe,
get_class, remove_comments, expand_plates.

Contract of process_object(data, dic)  (postconditions written from the property statement)
  reference   data:str, data in old(dic)      -> result is old(dic)[data], dic unchanged
              data:str, data not in old(dic)  -> raises JSONParseError, dic unchanged
  definition  data:dict, data.id in old(dic)  -> raises JSONParseError before any construction
              data:dict, returns              -> dic[data.id] is result, result is the object the
                                                 constructor returned, result not in range(old(dic))
  frame       forall k in dom(old dic): dic[k] is old(dic)[k]      (also when an error is raised)
              every object constructed during the call has its own id: the ids of the constructed
              objects are pairwise distinct and disjoint from dom(old dic); dom(dic) = dom(old dic) + those ids
              ("defining an id twice anywhere in the nesting is rejected")
  otherwise   data neither str nor dict       -> raises JSONParseError, dic unchanged
  errors      the only exception type is JSONParseError; a specification without duplicate / dangling
              ids is not rejected
Assumed contract of the callee  klass.from_json(data, dic)  (adversarial; justified for the classes of
the repository by the AST frame scan C13.scan.*):
  may call process_object(sub, dic) on sub-specifications any number of times in any order; may register
  itself under data['id'] after testing `data['id'] in dic` (FlexibleTimeTreeModel does); may read dic;
  otherwise does not write dic; does not swallow a parse error; returns a fresh object.
"""
import ast
import copy
import importlib
import itertools
import json
import os

from vt import jsonheap as jh
from vt.cond import Undecided
from vt.runner import Ob, Refuted

FUNCS = [
    "torchtree.core.utils:process_object",
    "torchtree.core.utils:process_objects",
    "torchtree.core.utils:process_object_with_key",
    "torchtree.core.utils:get_class",
    "torchtree.core.utils:remove_comments",
    "torchtree.core.utils:expand_plates",
    "torchtree.core.serializable:JSONSerializable.from_json_safe",
]

STUB_TYPE = "vt.Stub"


def _utils():
    import torchtree.core.utils as u
    return u


def _base():
    from torchtree.core.serializable import JSONSerializable
    return JSONSerializable


# ======================================================================================
# the contract as a predicate over one observed call (used for every call at every depth)
# ======================================================================================

def check_call(run, ev, JSONParseError, root=True):
    """returns list of (clause, message) violated by the observed call `ev` of process_object"""
    bad = []
    node, B, A = ev["node"], ev["before"], ev["after"]
    raised = "exc" in ev
    exc = ev.get("exc")
    made = [c for c in run.ctors[ev["ctor_lo"]:ev["ctor_hi"]] if "obj" in c]       # objects constructed during the call
    entered = [c for c in run.ctors[ev["ctor_lo"]:ev["ctor_hi"]] if c.get("by") == "ctor" and c["path"] == ev["path"]]

    # frame (always, also on error): nothing that was registered is replaced or removed
    for k in B:
        if k not in A:
            bad.append(("frame", "id %r was removed from the registry" % (k,)))
        elif A[k] is not B[k]:
            bad.append(("frame", "id %r was re-bound from %r to %r" % (k, B[k], A[k])))
    # errors: only parse errors
    if raised and not isinstance(exc, JSONParseError):
        bad.append(("errors", "raised %s instead of JSONParseError: %s" % (type(exc).__name__, exc)))

    if node[0] == "r":
        i = node[1]
        if i in B:
            if raised:
                bad.append(("reference", "reference to defined id %r rejected: %s" % (i, exc)))
            elif ev["ret"] is not B[i]:
                bad.append(("reference", "reference to %r returned %r, registry holds %r" % (i, ev["ret"], B[i])))
        elif not raised:
            bad.append(("reference", "dangling reference %r accepted, returned %r" % (i, ev["ret"])))
        if not jh.same_map(A, B):
            bad.append(("reference", "resolving reference %r changed the registry: %s -> %s" % (i, list(B), list(A))))
        return bad

    if node[0] == "other":
        if not raised:
            bad.append(("otherwise", "%r accepted as a specification, returned %r" % (node[1], ev["ret"])))
        if not jh.same_map(A, B):
            bad.append(("otherwise", "registry changed"))
        return bad

    # definition
    i = node[1]
    if i in B:
        if not raised:
            bad.append(("definition", "id %r defined although already registered; accepted" % (i,)))
        if entered:
            bad.append(("definition", "constructor of %r ran although the id was already registered" % (i,)))
        if not jh.same_map(A, B):
            bad.append(("definition", "registry changed by a rejected duplicate definition of %r" % (i,)))
        return bad
    ids_made = [c["id"] for c in made]
    if not raised:
        r = ev["ret"]
        if i not in A or A[i] is not r:
            bad.append(("definition", "after defining %r the registry holds %r, returned %r" % (i, A.get(i), r)))
        own = [c for c in entered if "obj" in c]
        if len(own) != 1 or own[0]["obj"] is not r:
            bad.append(("definition", "result is not the object returned by the constructor of %r" % (i,)))
        if any(r is v for v in B.values()):
            bad.append(("definition", "result of defining %r is an object that was already registered" % (i,)))
        dup = sorted({x for x in ids_made if ids_made.count(x) > 1})
        if dup:
            bad.append(("frame", "id(s) %s: %s objects were constructed under one id and the specification was accepted"
                        % (dup, [ids_made.count(x) for x in dup])))
        old = sorted({x for x in ids_made if x in B})
        if old:
            bad.append(("frame", "objects constructed under already registered id(s) %s" % old))
        if set(A) - set(B) != set(ids_made):
            bad.append(("frame", "ids added %s differ from ids of constructed objects %s" % (sorted(set(A) - set(B)), sorted(ids_made))))
        for c in made:
            if c["id"] in A and A[c["id"]] is not c["obj"] and ids_made.count(c["id"]) == 1:
                bad.append(("frame", "registry does not hold the object constructed for %r" % (c["id"],)))
    else:
        if not set(A) - set(B) <= set(ids_made):
            bad.append(("frame", "ids added %s without a constructed object" % sorted(set(A) - set(B) - set(ids_made))))
        # no spurious rejection: the error must have a cause
        inner = [e for e in run.calls if e is not ev and e["path"][:len(ev["path"])] == ev["path"]
                 and len(e["path"]) == len(ev["path"]) + 1 and "exc" in e]
        own_raise = any(c.get("raised") for c in entered)
        by_other = i in A and not any(c.get("obj") is A[i] for c in entered)   # somebody else registered the id meanwhile
        if not inner and not own_raise and not by_other and not ev.get("cause"):
            bad.append(("complete", "definition of unregistered id %r rejected without a duplicate or dangling id: %s" % (i, exc)))
    return bad


def check_log(run):
    """history invariant over the access log: no store on a present key with a different object, no
    deletion, no bulk write; the function under test touches the registry only with in / [] / []= """
    bad = []
    for e in run.log:
        actor, op = e[0], e[1]
        if not op.startswith("dic."):
            continue
        o = op[4:]
        if o == "set" and e[3] and e[4] is not e[5]:
            bad.append(("frame", "%s overwrote id %r: %r replaced by %r" % (actor, e[2], e[4], e[5])))
        elif o == "del" or o.startswith("write:"):
            bad.append(("frame", "%s performed %s on the registry" % (actor, o)))
        elif o.startswith("bulk:") and actor == "fut":
            bad.append(("footprint", "function under test performed %s on the registry" % o))
    return bad


# ======================================================================================
# V: enumerated specification trees, real recursion, adversarial constructors
# ======================================================================================

def _index_tree(tree, data, path, out):
    if tree[0] == "d":
        out[id(data)] = (tree, path)
        for j, c in enumerate(tree[2]):
            _index_tree(c, data["children"][j], path + (j,), out)


def run_tree(po_ns, tree, pre_ids, chooser, max_calls):
    """execute process_object from namespace po_ns on an abstract tree with stub classes"""
    run = jh.Run(pre_ids)
    data = jh.tree_to_json(tree, STUB_TYPE)
    tree_of = {}
    _index_tree(tree, data, (), tree_of)
    beh = jh.enumerating_ctor(chooser, lambda: po_ns["process_object"], max_calls, tree_of)
    Stub = jh.make_stub_class(run, _base(), beh)

    def get_class(name):
        if name != STUB_TYPE:
            raise AttributeError("unexpected type %r" % (name,))
        return Stub
    with jh.patched(po_ns, get_class=get_class):
        try:
            jh.call_sub(run, po_ns["process_object"], tree, data, ())
        except Exception as e:
            jh.reraise_harness(e)
    return run


def tree_failures(po_ns, trees_pre, max_calls, JSONParseError, clauses=None, stop_after=40):
    """explore every constructor behaviour on every (tree, pre) and check every observed call"""
    fails = []
    paths = 0
    calls = 0
    for tree, pre in trees_pre:
        def one(ch):
            nonlocal calls
            run = run_tree(po_ns, tree, pre, ch, max_calls)
            calls += len(run.calls)
            bad = []
            for ev in run.calls:
                bad += [(c, m, ev["path"]) for c, m in check_call(run, ev, JSONParseError)]
            bad += [(c, m, None) for c, m in check_log(run)]
            if clauses is not None:
                bad = [b for b in bad if b[0] in clauses]
            if bad and len(fails) < stop_after:
                fails.append({"tree": tree, "pre": list(pre), "bad": bad, "decisions": ch.decisions(),
                              "seqs": [(c["path"], c.get("seq")) for c in run.ctors if c.get("by") == "ctor"],
                              "accepted": "exc" not in run.calls[0],
                              "exc": repr(run.calls[0].get("exc"))})
        paths += jh.explore(one)
    return fails, paths, calls


def pre_choices(tree, nblocks):
    """which of the ids of the tree are registered before the call: all subsets"""
    ids = sorted(set(jh.tree_ids(tree)))
    for r in range(len(ids) + 1):
        for s in itertools.combinations(ids, r):
            yield s


def tree_sets(tier):
    """named groups of labelled trees — the V enumeration bound (names are stable across tiers)"""
    big = tier == "thorough"
    return {
        # depth 1, width <= 3, constructors may repeat a call (k+1 calls)
        "d1w3": lambda: jh.labelled_trees(1, 3),
        # depth 2, width <= 2, every child called at most ... k calls in any order with repeats
        "d2w2": lambda: jh.labelled_trees(2, 2, exact_depth=2),
        # depth 2, width <= 2, k+1 calls (one call more than children), small trees
        "d2w2r": lambda: jh.labelled_trees(2, 2, exact_depth=2, max_slots=5 if big else 4),
        "d2w3": lambda: jh.labelled_trees(2, 3, exact_depth=2, max_slots=6 if big else 5),
        "d3w2": lambda: jh.labelled_trees(3, 2, exact_depth=3, max_slots=6 if big else 5),
    }


def _max_calls_for(group):
    if group in ("d1w3", "d2w2r"):
        return lambda k: k + 1
    return lambda k: k


# ---------------------------------------------------------------- real-class translation / replay

def real_spec(tree, seqs=None, path=()):
    """translate an abstract tree into a specification over real shipped classes:
    leaf definition -> Parameter, definition with children -> JointDistributionModel (its from_json
    calls process_object on every element of 'distributions' in order).  `seqs` (path -> call sequence)
    re-orders / repeats children the way the abstract constructor called them."""
    if tree[0] == "r":
        return tree[1]
    seq = None if seqs is None else seqs.get(path)
    order = list(range(len(tree[2]))) if seq is None else list(seq)
    if not tree[2]:
        return {"id": tree[1], "type": "Parameter", "tensor": [1.0]}
    return {"id": tree[1], "type": "JointDistributionModel",
            "distributions": [real_spec(tree[2][j], seqs, path + (j,)) for j in order]}


def real_specs(tree, pre, seqs=None):
    return [{"id": p, "type": "Parameter", "tensor": [0.5]} for p in pre] + [real_spec(tree, seqs)]


def _load_real(specs):
    """load like torchtree.torchtree.main does: register classes, process_objects per element"""
    import logging
    u = _utils()
    for m in sorted(u.package_contents("torchtree")):
        if ".cli" in m:
            continue
        try:
            importlib.import_module(m)
        except Exception as e:
            jh.reraise_harness(e)
    dic = {}
    lvl = logging.root.manager.disable
    logging.disable(logging.CRITICAL)
    try:
        for el in copy.deepcopy(specs):
            u.process_objects(el, dic)
        return dic, None
    except Exception as e:
        jh.reraise_harness(e)
        return dic, e
    finally:
        logging.disable(lvl)


def _spec_def_ids(x, out):
    if isinstance(x, dict):
        if "id" in x and "type" in x:
            out.append(x["id"])
        for v in x.values():
            _spec_def_ids(v, out)
    elif isinstance(x, list):
        for v in x:
            _spec_def_ids(v, out)
    return out


def _held_objects(o, seen=None, depth=0):
    """objects reachable from a loaded JointDistributionModel through its container (real attributes)"""
    out = []
    c = getattr(o, "_distributions", None)
    if c is not None:
        for d in (getattr(c, "_models", {}), getattr(c, "_parameters", {})):
            for v in d.values():
                out.append(v)
                if depth < 6:
                    out += _held_objects(v, seen, depth + 1)
    return out


def replay_spec(args):
    """re-run a witness on the real, unstubbed code.  args: {"specs": [...], "expect": "reject"|"accept"}.
    returns (ok, msg); ok=False means the failure reproduced on the real code."""
    u = _utils()
    specs = args["specs"]
    expect = args.get("expect", "reject")
    dic, exc = _load_real(specs)
    if expect == "reject":
        if exc is None:
            ids = _spec_def_ids(specs, [])
            dup = sorted({i for i in ids if ids.count(i) > 1})
            msg = "real process_objects ACCEPTED %s ; registry: %s" % (
                json.dumps(specs), {k: type(v).__name__ for k, v in dic.items()})
            for i in dup:
                held = [h for k in dic for h in _held_objects(dic[k]) if getattr(h, "id", None) == i and h is not dic.get(i)]
                if held:
                    msg += " ; id %r is defined %d times: registry holds a %s, while a different %s with the same id " \
                           "is still held by its parent" % (i, ids.count(i), type(dic[i]).__name__, type(held[0]).__name__)
            return False, msg
        if not isinstance(exc, u.JSONParseError):
            return False, "rejected with %s (%s), not a JSONParseError" % (type(exc).__name__, exc)
        return True, "real code rejects the specification: %s" % exc
    else:
        if exc is not None:
            return False, "real code rejected a well-formed specification: %s: %s" % (type(exc).__name__, exc)
        return True, "accepted"


def _refute_from_tree_failure(f, name, npaths, nfails):
    tree, pre = f["tree"], f["pre"]
    seqs = {tuple(p): s for p, s in f["seqs"] if s is not None}
    specs = real_specs(tree, pre, seqs)
    expect = "reject" if f["accepted"] else "accept"
    witness = {"abstract_tree": jh.tree_to_list(tree), "registered_before": pre,
               "constructor_call_sequences": [[list(p), s] for p, s in f["seqs"]],
               "observed": [{"clause": c, "what": m, "at_path": list(p) if p is not None else None} for c, m, p in f["bad"][:6]],
               "outcome": "accepted" if f["accepted"] else "rejected: " + f["exc"],
               "specs": specs, "expect": expect}
    confirmed = None
    try:
        ok, msg = replay_spec(witness)
        confirmed = (not ok)
        witness["real_code"] = msg
    except Exception as e:  # replay impossible -> no-failing-input-found
        witness["real_code"] = "replay failed: %r" % (e,)
    detail = "%s: %d of %d explored executions violate the contract; smallest: tree=%s registered_before=%s -> %s" % (
        name, nfails, npaths, json.dumps(jh.tree_to_list(tree)), pre, "; ".join(m for _, m, _ in f["bad"][:3]))
    return Refuted(detail, witness=witness,
                   replay={"kind": "custom", "contract": "C13", "func": "replay_spec", "args": {"specs": specs, "expect": expect}},
                   confirmed=confirmed)


def _smallest(fails):
    return min(fails, key=lambda f: (jh.tree_size(f["tree"]), len(f["pre"]), len(f["decisions"])))


def ob_trees(group, tier, clauses, part=0, nparts=1, po_variant=None):
    """V obligation: every tree of the group, every id-equality pattern, every pre-registration subset,
    every constructor call sequence; each observed call (all depths) checked for the given clauses"""
    def fn():
        u = _utils()
        gen = tree_sets(tier)[group]
        items = []
        n = 0
        for tree, nb in gen():
            for pre in pre_choices(tree, nb):
                if n % nparts == part:
                    items.append((tree, pre))
                n += 1
        if not items:
            raise Undecided("empty enumeration for %s" % group)
        ns = u.__dict__ if po_variant is None else po_variant()[1]
        fails, paths, calls = tree_failures(ns, items, _max_calls_for(group), u.JSONParseError, clauses)
        if fails:
            raise _refute_from_tree_failure(_smallest(fails), "trees[%s]" % group, paths, len(fails))
        return {"backend": "enum", "cases": paths, "trees": len(items), "calls_checked": calls,
                "statement": "for every tree in %s (all id-equality patterns x registered subsets x constructor call "
                             "sequences): every observed process_object call satisfies clauses %s" % (group, sorted(clauses))}
    return fn


def check_sharing(run):
    """all successful references to one id, over the whole run, yield one instance, and it is the
    instance the registry holds at the end"""
    bad = []
    seen = {}
    final = run.dic.raw()
    for ev in run.calls:
        if ev["node"][0] == "r" and "ret" in ev:
            i = ev["node"][1]
            if i in seen and seen[i] is not ev["ret"]:
                bad.append(("sharing", "two references to id %r resolved to different instances %r and %r" % (i, seen[i], ev["ret"])))
            seen.setdefault(i, ev["ret"])
            if final.get(i) is not ev["ret"]:
                bad.append(("sharing", "a holder obtained %r for id %r but the registry finally holds %r" % (ev["ret"], i, final.get(i))))
    return bad


def run_sequence(po_ns, trees, pre_ids, chooser, max_calls):
    """top-level list of specifications loaded one after the other into one registry (what main() does)"""
    run = jh.Run(pre_ids)
    datas = [jh.tree_to_json(t, STUB_TYPE) for t in trees]
    tree_of = {}
    for j, (t, d) in enumerate(zip(trees, datas)):
        _index_tree(t, d, (j,), tree_of)
    beh = jh.enumerating_ctor(chooser, lambda: po_ns["process_object"], max_calls, tree_of)
    Stub = jh.make_stub_class(run, _base(), beh)
    with jh.patched(po_ns, get_class=lambda name: Stub):
        try:
            for j, (t, d) in enumerate(zip(trees, datas)):
                jh.call_sub(run, po_ns["process_object"], t, d, (j,))
        except Exception as e:
            jh.reraise_harness(e)
    return run


def sequence_items(tier):
    """[t1, t2] with joint id-equality patterns: t1 of depth <= 2, t2 a reference or a small definition"""
    first = [s for s in jh.tree_shapes(2, 2) if jh.shape_slots(s) <= 4]
    second = ["r", ("d", ()), ("d", ("r",)), ("d", (("d", ()),))]
    if tier == "thorough":
        second += [("d", ("r", "r"))]
    for s1 in first:
        for s2 in second:
            n1, n2 = jh.shape_slots(s1), jh.shape_slots(s2)
            for g in jh.growth_strings(n1 + n2):
                t1 = jh.label_shape(s1, g[:n1])
                t2 = jh.label_shape(s2, g[n1:])
                ids = sorted(set(jh.tree_ids(t1) + jh.tree_ids(t2)))
                for r in range(len(ids) + 1):
                    for pre in itertools.combinations(ids, r):
                        yield (t1, t2), pre


def ob_sequences(tier, clauses):
    def fn():
        u = _utils()
        fails = []
        paths = 0
        n = 0
        for trees, pre in sequence_items(tier):
            n += 1

            def one(ch):
                run = run_sequence(u.__dict__, trees, pre, ch, lambda k: k)
                bad = []
                for ev in run.calls:
                    bad += [(c, m, ev["path"]) for c, m in check_call(run, ev, u.JSONParseError)]
                bad += [(c, m, None) for c, m in check_log(run)]
                bad += [(c, m, None) for c, m in check_sharing(run)]
                bad = [b for b in bad if b[0] in clauses]
                if bad and len(fails) < 40:
                    fails.append({"trees": trees, "pre": list(pre), "bad": bad, "decisions": ch.decisions(),
                                  "seqs": {tuple(c["path"]): c.get("seq") for c in run.ctors if c.get("by") == "ctor" and c.get("seq") is not None},
                                  "accepted": all("exc" not in e for e in run.calls)})
            paths += jh.explore(one)
        if n == 0:
            raise Undecided("empty enumeration")
        if fails:
            f = min(fails, key=lambda f: (sum(jh.tree_size(t) for t in f["trees"]), len(f["pre"]), len(f["decisions"])))
            specs = [{"id": p, "type": "Parameter", "tensor": [0.5]} for p in f["pre"]] + [real_spec(t, f["seqs"], (j,)) for j, t in enumerate(f["trees"])]
            witness = {"abstract_trees": [jh.tree_to_list(t) for t in f["trees"]], "registered_before": f["pre"],
                       "observed": [{"clause": c, "what": m} for c, m, _ in f["bad"][:6]],
                       "specs": specs, "expect": "reject" if f["accepted"] else "accept"}
            confirmed = None
            try:
                ok, msg = replay_spec(witness)
                confirmed = not ok
                witness["real_code"] = msg
            except Exception as e:
                witness["real_code"] = "replay failed: %r" % (e,)
            raise Refuted("sequences: %d of %d executions violate %s; smallest: %s registered_before=%s -> %s" % (
                len(fails), paths, sorted(clauses), json.dumps(witness["abstract_trees"]), f["pre"], f["bad"][0][1]),
                witness=witness,
                replay={"kind": "custom", "contract": "C13", "func": "replay_spec",
                        "args": {"specs": specs, "expect": witness["expect"]}}, confirmed=confirmed)
        return {"backend": "enum", "cases": paths, "sequences": n,
                "statement": "two specifications loaded one after the other into one registry, all id-equality patterns: clauses %s" % sorted(clauses)}
    return fn


# ======================================================================================
# U: generic node, recursive calls replaced by the contract of process_object itself
# ======================================================================================

def po_contract(run, I, ch, JSONParseError, j):
    """ASSUMED contract of process_object on a strict sub-specification (induction hypothesis):
    returns a fresh or an already registered object, or raises JSONParseError; registers only ids that
    are not in the registry at that moment (possibly the enclosing node's id I, if still unregistered),
    each with its own fresh object; never re-binds or removes a registered id."""
    dic = run.dic
    opts = ["def_ok", "ref_ok", "reject", "def_partial"]
    if not dic.raw_has(I):
        opts += ["def_is_I", "def_ok_plus_I", "partial_I"]
    o = ch.pick(opts, "sub%d" % j)
    ev = {"path": (j,), "node": ("assumed", o), "assumed": o, "before": dic.raw(), "ctor_lo": len(run.ctors)}
    run.calls.append(ev)

    def add(i):
        assert not dic.raw_has(i)
        ob = jh.Obj("sub:" + i)
        dic[i] = ob
        run.ctors.append({"id": i, "obj": ob, "by": "contract", "path": (j,)})
        return ob
    try:
        if o == "ref_ok":
            k = next(iter(dic.raw()))
            ev["ret"] = dic.raw_get(k)
        elif o == "reject":
            raise JSONParseError("assumed: sub-specification rejected")
        elif o == "def_ok":
            ev["ret"] = add(run.fresh_id())
        elif o == "def_partial":
            add(run.fresh_id())
            raise JSONParseError("assumed: sub-specification rejected after registering a nested id")
        elif o == "def_is_I":
            ev["ret"] = add(I)
        elif o == "def_ok_plus_I":
            add(I)
            ev["ret"] = add(run.fresh_id())
        elif o == "partial_I":
            add(I)
            raise JSONParseError("assumed: sub-specification rejected after registering a nested id")
    except JSONParseError as e:
        ev["exc"] = e
        raise
    finally:
        ev["after"] = dic.raw()
        ev["ctor_hi"] = len(run.ctors)
    return ev["ret"]


CTOR_ACTIONS = ["return", "sub", "selfreg", "read_dangling", "raise_parse"]
ALLOWED_DATA_KEYS = {"id", "type"}


def run_generic(po, ns, ch, JSONParseError, max_steps=3):
    """one execution of the real process_object on a generic definition node.  Scenario (all chosen by
    the chooser): own id registered before or not; get_class outcome; constructor = up to max_steps
    actions, each a contract sub-call / guarded self-registration / dangling direct read / own error."""
    run = jh.Run(["p"])
    I = jh.SymId("I", run.log)
    if ch.choose(2, "I_registered"):
        o = jh.Obj("pre:I")
        dict.__setitem__(run.dic, I, o)
        run.pre[I] = o
    data = jh.RecDict({"id": I, "type": jh.SymId("T", run.log), "x": {"id": "anything"}, "y": ["anything"]}, run.log, "data")
    gc = ch.pick(["class", "ModuleNotFoundError", "AttributeError", "ValueError"], "get_class")
    steps = []

    def beh(run_, cls, data_, dic_):
        rec = {"path": (), "id": I, "in_dic_at_entry": run.dic.raw_has(I), "by": "ctor"}
        run.ctors.append(rec)
        if dic_ is not run.dic or data_ is not data:
            rec["wrong_args"] = True
        me = jh.Obj("new:I")
        for j in range(max_steps):
            a = ch.pick(CTOR_ACTIONS, "step%d" % j)
            steps.append(a)
            if a == "return":
                break
            if a == "sub":
                try:
                    po_contract(run, I, ch, JSONParseError, j)
                    steps[-1] = "sub:" + run.calls[-1]["assumed"]
                except JSONParseError:
                    steps[-1] = "sub:" + run.calls[-1]["assumed"]
                    raise
            elif a == "selfreg":
                if rec.get("selfreg"):
                    continue
                if run.dic.raw_has(I):
                    rec["raised"] = True
                    raise JSONParseError("constructor: id already exists")
                dic_[I] = me
                rec["selfreg"] = True
                rec["obj"] = me          # the object exists from the moment it is registered
            elif a == "read_dangling":
                rec["raised"] = True
                dic_["no-such-id"]
            elif a == "raise_parse":
                rec["raised"] = True
                raise JSONParseError("constructor: own parse error")
        rec["obj"] = me
        return me
    Stub = jh.make_stub_class(run, _base(), beh)

    def get_class(name):
        if name is not dict.__getitem__(data, "type"):
            raise RuntimeError("get_class called with something else than data['type']")
        if gc == "class":
            return Stub
        raise {"ModuleNotFoundError": ModuleNotFoundError, "AttributeError": AttributeError, "ValueError": ValueError}[gc]("assumed: unknown type")
    node = ("d", I, ())
    with jh.patched(ns, get_class=get_class):
        try:
            jh.call_sub(run, po, node, data, ())
        except Exception as e:
            jh.reraise_harness(e)
    ev = run.calls[0]
    if gc != "class":
        ev["cause"] = "unknown type"
    run.scenario = {"own_id_registered_before": I in run.pre, "get_class": gc, "constructor_steps": steps}
    return run


def footprint_violations(run, allowed_dic_ops, allowed_data_keys=ALLOWED_DATA_KEYS, allowed_str=()):
    """what the function under test did beyond the footprint the genericity argument relies on"""
    bad = []
    for e in run.log:
        if e[0] != "fut":
            continue
        op = e[1]
        if op.startswith("dic."):
            if (op[4:], str(e[2])) not in allowed_dic_ops:
                bad.append("registry access %s(%r)" % (op, e[2]))
        elif op.startswith("data."):
            if op[5:] not in ("get", "in") or e[2] not in allowed_data_keys:
                bad.append("specification access %s(%r)" % (op, e[2]))
        elif op.startswith("str."):
            if (op[4:], e[3]) not in allowed_str:
                bad.append("inspects the spelling of id %r: %s%r" % (e[2], op, e[3]))
    return bad


def _u_witness_tree(sc):
    """translate a generic-node scenario into a concrete abstract tree (None if not expressible)"""
    kids = []
    n = 0
    for s in sc["constructor_steps"]:
        if s == "return":
            break
        if not s.startswith("sub:"):
            return None
        k = s[4:]
        n += 1
        if k == "def_ok":
            kids.append(("d", "n%d" % n, ()))
        elif k == "ref_ok":
            kids.append(("r", "p"))
        elif k == "def_is_I":
            kids.append(("d", "I", ()))
        elif k == "def_ok_plus_I":
            kids.append(("d", "n%d" % n, (("d", "I", ()),)))
        else:
            return None
    return ("d", "I", tuple(kids))


def ob_generic_node(clauses, po_variant=None):
    """U obligation (modular): the real process_object on a generic definition node"""
    def fn():
        u = _utils()
        if po_variant is None:
            po, ns = u.process_object, u.__dict__
        else:
            po, ns = po_variant()
        fails = []
        undec = []
        stats = {"paths": 0}

        def one(ch):
            run = run_generic(po, ns, ch, u.JSONParseError)
            stats["paths"] += 1
            ev = run.calls[0]
            bad = check_call(run, ev, u.JSONParseError) + check_log(run)
            for c in run.ctors:
                if c.get("wrong_args"):
                    bad.append(("definition", "constructor did not receive the very data / registry objects"))
            fp = footprint_violations(run, {("in", "I"), ("set", "I"), ("get", "I")})
            if fp:
                undec.append((run.scenario, fp))
            bad = [b for b in bad if b[0] in clauses]
            if bad:
                fails.append({"scenario": run.scenario, "bad": bad, "n": len(ch.decisions()),
                              "accepted": "exc" not in ev, "exc": repr(ev.get("exc"))})
        jh.explore(one)
        if fails:
            def _rank(f):
                t = _u_witness_tree(f["scenario"])
                return (len(f["scenario"]["constructor_steps"]), jh.tree_size(t) if t is not None else 99, f["n"])
            f = min(fails, key=_rank)
            sc = f["scenario"]
            witness = {"generic_node": {"id": "I", "type": "T"}, "scenario": sc,
                       "observed": [{"clause": c, "what": m} for c, m in f["bad"][:6]],
                       "outcome": "accepted" if f["accepted"] else "rejected: " + f["exc"]}
            confirmed, replay = None, None
            t = _u_witness_tree(sc)
            if t is not None and sc["get_class"] == "class":
                pre = ["p"] + (["I"] if sc["own_id_registered_before"] else [])
                specs = real_specs(t, pre)
                witness.update(specs=specs, expect="reject" if f["accepted"] else "accept", abstract_tree=jh.tree_to_list(t))
                replay = {"kind": "custom", "contract": "C13", "func": "replay_spec",
                          "args": {"specs": specs, "expect": witness["expect"]}}
                try:
                    ok, msg = replay_spec(witness)
                    confirmed = not ok
                    witness["real_code"] = msg
                except Exception as e:
                    witness["real_code"] = "replay failed: %r" % (e,)
            elif sc["get_class"] == "class" and not sc["own_id_registered_before"] and not f["accepted"] \
                    and [x for x in sc["constructor_steps"] if x != "return"] == ["selfreg"]:
                # a constructor that registers itself: FlexibleTimeTreeModel is the shipped instance
                try:
                    args = {"specs": [_flexible_tree_spec()], "expect": "accept"}
                    ok, msg = replay_spec(args)
                    witness.update(args, real_code=msg)
                    replay = {"kind": "custom", "contract": "C13", "func": "replay_spec", "args": args}
                    confirmed = not ok
                except Exception as e:
                    witness["real_code"] = "replay failed: %r" % (e,)
            raise Refuted("generic node: %d of %d scenarios violate %s; shortest: %s -> %s" % (
                len(fails), stats["paths"], sorted(clauses), json.dumps(sc), "; ".join(m for _, m in f["bad"][:2])),
                witness=witness, replay=replay, confirmed=confirmed)
        if undec:
            raise Undecided("process_object leaves the footprint the structural-induction argument relies on: %s (scenario %s)"
                            % (undec[0][1][:3], json.dumps(undec[0][0])))
        return {"backend": "proxy-exec", "cases": stats["paths"], "paths": stats["paths"],
                "statement": "generic definition node {id:I,type:T,...}, registry generic, sub-calls = contract of process_object "
                             "(may register any unregistered ids, incl. I), constructor = <=3 actions: clauses %s hold; footprint: "
                             "dic touched only at key I (`I in dic`, `dic[I]`, `dic[I] = result`), data read only at id/type, id spelling not inspected"
                             % sorted(clauses)}
    return fn


def ob_generic_reference():
    def fn():
        u = _utils()
        n = 0
        class _Falsy(jh.Obj):
            """a registered object whose truth value is False (an empty Taxa list, a Taxon without attributes, a zero): only identity counts"""
            __slots__ = ()

            def __bool__(self):
                return False

            def __len__(self):
                return 0

            def __eq__(self, other):
                return False

            __hash__ = object.__hash__
        for registered in (False, True, "falsy"):
            run = jh.Run(["p"])
            R = jh.SymId("R", run.log)
            if registered:
                o = _Falsy("pre:R") if registered == "falsy" else jh.Obj("pre:R")
                dict.__setitem__(run.dic, R, o)
                run.pre[R] = o
            with jh.patched(u.__dict__, get_class=_no_get_class):
                try:
                    jh.call_sub(run, u.process_object, ("r", R), R, ())
                except Exception as e:
                    jh.reraise_harness(e)
            bad = check_call(run, run.calls[0], u.JSONParseError) + check_log(run)
            if bad:
                spec = ["R"]
                specs = ([{"id": "R", "type": "Parameter", "tensor": [1.0]}] if registered is True else [{"id": "R", "type": "Taxon"}] if registered else []) + spec
                confirmed, replay = None, None
                if not registered and "exc" not in run.calls[0]:
                    replay = {"kind": "custom", "contract": "C13", "func": "replay_spec", "args": {"specs": specs, "expect": "reject"}}
                    try:
                        confirmed = not replay_spec(replay["args"])[0]
                    except Exception as e:
                        jh.reraise_harness(e)
                elif registered == "falsy":
                    # real falsy objects: a Taxon without attributes is an empty UserDict, an empty Taxa an empty UserList
                    specs = [{"id": "taxa", "type": "Taxa", "taxa": [{"id": "A", "type": "Taxon"}, {"id": "B", "type": "Taxon"}]},
                             {"id": "empty", "type": "Taxa", "taxa": []}, {"id": "clade", "type": "Taxa", "taxa": ["A", "B"]}, "empty"]
                    replay = {"kind": "custom", "contract": "C13", "func": "replay_spec", "args": {"specs": specs, "expect": "accept"}}
                    try:
                        confirmed = not replay_spec(replay["args"])[0]
                    except Exception as e:
                        jh.reraise_harness(e)
                raise Refuted("generic reference (registered=%s): %s" % (registered, bad[0][1]),
                              witness={"data": "R", "registered": registered, "observed": [m for _, m in bad], "specs": specs},
                              replay=replay, confirmed=confirmed)
            fp = footprint_violations(run, {("get", "R")}, allowed_str={("__contains__", ("{",))})
            if fp:
                raise Undecided("reference case leaves the expected footprint: %s" % fp[:3])
            n += 1
        return {"backend": "proxy-exec", "cases": n,
                "statement": "data:str without '{': registered -> result is old(dic)[data]; unregistered -> JSONParseError; registry "
                             "identical; footprint: one dic[data] read, the only inspection of the spelling is `'{' in data`"}
    return fn


def _no_get_class(name):
    raise RuntimeError("get_class must not be called here")


def ob_other_types():
    def fn():
        u = _utils()
        vals = [5, 1.5, None, True, [], ["a"], [{"id": "a", "type": "T"}], ("a",), 0, b"a"]
        for v in vals:
            run = jh.Run(["a"])
            with jh.patched(u.__dict__, get_class=_no_get_class):
                try:
                    jh.call_sub(run, u.process_object, ("other", repr(v)), v, ())
                except Exception as e:
                    jh.reraise_harness(e)
            bad = check_call(run, run.calls[0], u.JSONParseError) + check_log(run)
            if any(e[0] == "fut" and e[1].startswith("dic.") for e in run.log):
                bad.append(("otherwise", "registry accessed"))
            if bad:
                raise Refuted("data=%r: %s" % (v, bad[0][1]), witness={"data": repr(v), "observed": [m for _, m in bad]},
                              replay=None, confirmed=None)
        return {"backend": "proxy-exec", "cases": len(vals),
                "statement": "data neither str nor dict (int, float, None, bool, list, tuple, bytes): JSONParseError, registry not accessed"}
    return fn


def ob_missing_keys():
    def fn():
        u = _utils()
        n = 0
        for keys in (("type",), (), ("id",), ("x",), ("id", "x")):
            for registered in (False, True):
                run = jh.Run(["I"] if registered else [])
                d = {"id": "I", "type": STUB_TYPE, "x": 1}
                data = jh.RecDict({k: d[k] for k in keys}, run.log, "data")
                called = []

                def get_class(name):
                    called.append(name)
                    raise RuntimeError("constructed")
                ev = None
                with jh.patched(u.__dict__, get_class=get_class):
                    try:
                        jh.call_sub(run, u.process_object, ("d", "I", ()), data, ())
                    except Exception as e:
                        jh.reraise_harness(e)
                ev = run.calls[0]
                msgs = []
                if "exc" not in ev or not isinstance(ev["exc"], u.JSONParseError):
                    msgs.append("specification with keys %s: expected JSONParseError, got %r" % (list(keys), ev.get("exc", ev.get("ret"))))
                if called:
                    msgs.append("class looked up for an ill-formed specification")
                if not jh.same_map(ev["before"], ev["after"]):
                    msgs.append("registry changed")
                if msgs:
                    raise Refuted(msgs[0], witness={"keys": list(keys), "registered": registered, "observed": msgs}, replay=None, confirmed=None)
                n += 1
        return {"backend": "proxy-exec", "cases": n,
                "statement": "definition without id or without type: JSONParseError, nothing constructed, registry identical"}
    return fn


# ======================================================================================
# range references  "stem{a:b}"  (the only place where the spelling of a reference is inspected)
# ======================================================================================

def ob_range_reference():
    def fn():
        u = _utils()
        n = 0
        observed_other = {}
        for a in range(0, 4):
            for b in range(0, 4):
                for present in itertools.product((False, True), repeat=4):
                    pre = ["s%d" % i for i in range(4) if present[i]]
                    run = jh.Run(pre)
                    data = "s{%d:%d}" % (a, b)
                    with jh.patched(u.__dict__, get_class=_no_get_class):
                        try:
                            jh.call_sub(run, u.process_object, ("range", data), data, ())
                        except Exception as e:
                            jh.reraise_harness(e)
                    ev = run.calls[0]
                    wanted = ["s%d" % i for i in range(a, b)]
                    msgs = []
                    if not jh.same_map(ev["before"], ev["after"]):
                        msgs.append("registry changed")
                    msgs += [m for _, m in check_log(run)]
                    if wanted and all(w in pre for w in wanted):
                        if "exc" in ev:
                            msgs.append("range reference to registered ids rejected: %r" % ev["exc"])
                        elif not any(ev["ret"] is run.pre[w] for w in wanted):
                            msgs.append("range reference returned %r which is none of the referenced objects" % (ev["ret"],))
                    elif wanted:
                        if "exc" not in ev:
                            msgs.append("range reference with unregistered member accepted")
                        elif not isinstance(ev["exc"], u.JSONParseError):
                            msgs.append("dangling range reference raised %s, not JSONParseError" % type(ev["exc"]).__name__)
                    else:
                        # empty range: refers to no id at all; the statement only demands that it is not silently accepted
                        if "exc" not in ev:
                            msgs.append("empty range reference accepted, returned %r" % (ev["ret"],))
                        else:
                            observed_other[type(ev["exc"]).__name__] = observed_other.get(type(ev["exc"]).__name__, 0) + 1
                    if msgs:
                        specs = [{"id": p, "type": "Parameter", "tensor": [1.0]} for p in pre] + [data]
                        raise Refuted("data=%r registered=%s: %s" % (data, pre, msgs[0]),
                                      witness={"data": data, "registered_before": pre, "observed": msgs, "specs": specs}, replay=None, confirmed=None)
                    n += 1
        return {"backend": "enum", "cases": n, "empty_range_exception_types": observed_other,
                "statement": "data='s{a:b}', 0<=a,b<=3, every subset of s0..s3 registered: all members registered -> returns one of them "
                             "(identity), some member missing -> JSONParseError, empty range -> rejected; registry identical"}
    return fn


# ======================================================================================
# process_objects / process_object_with_key  (modular: process_object replaced by its contract)
# ======================================================================================

def ob_process_objects():
    def fn():
        u = _utils()
        n = 0
        for nel in range(0, 4):
            for fail_at in [None] + list(range(nel)):
                for force_list in (False, True):
                    for mode in ("plain", "key_present", "key_absent"):
                        run = jh.Run([])
                        elems = [{"id": "e%d" % j} if j % 2 else "e%d" % j for j in range(nel)]
                        calls, rets = [], []

                        def po(d, dic_):
                            calls.append((d, dic_))
                            if fail_at is not None and len(calls) - 1 == fail_at:
                                raise u.JSONParseError("assumed")
                            o = jh.Obj("r%d" % len(rets))
                            rets.append(o)
                            return o
                        holder = jh.RecDict({"k": elems, "other": 1}, run.log, "data") if mode != "plain" else elems
                        key = {"plain": None, "key_present": "k", "key_absent": "nokey"}[mode]
                        out = exc = None
                        with jh.patched(u.__dict__, process_object=po):
                            try:
                                with run.log.as_("fut"):
                                    out = u.process_objects(holder, run.dic, force_list, key) if key is not None \
                                        else u.process_objects(holder, run.dic, force_list)
                            except Exception as e:
                                jh.reraise_harness(e)
                                exc = e
                        msgs = []
                        if any(e[1].startswith("dic.") for e in run.log):
                            msgs.append("process_objects accessed the registry directly")
                        if mode == "key_absent":
                            if calls or exc is not None or out != ([] if force_list else None):
                                msgs.append("absent key: expected %r and no call, got %r / %r / %d calls" % ([] if force_list else None, out, exc, len(calls)))
                        else:
                            exp_n = nel if fail_at is None else fail_at + 1
                            if [c[0] for c in calls] != elems[:exp_n] or any(c[0] is not e for c, e in zip(calls, elems)):
                                msgs.append("elements not processed once each, in order")
                            if any(c[1] is not run.dic for c in calls):
                                msgs.append("a different registry object was passed on")
                            if fail_at is not None:
                                if not isinstance(exc, u.JSONParseError):
                                    msgs.append("parse error of element %d not propagated (got %r / %r)" % (fail_at, exc, out))
                            elif exc is not None or not isinstance(out, list) or len(out) != nel or any(a is not b for a, b in zip(out, rets)):
                                msgs.append("result %r is not the list of the element results %r" % (out, rets))
                        if msgs:
                            raise Refuted("process_objects n=%d fail_at=%s force_list=%s %s: %s" % (nel, fail_at, force_list, mode, msgs[0]),
                                          witness={"n": nel, "mode": mode, "force_list": force_list, "observed": msgs}, replay=None, confirmed=None)
                        n += 1
        # non-list data: one call, result passed through (wrapped when force_list)
        for force_list in (False, True):
            for d in ("ref", {"id": "x"}):
                run = jh.Run([])
                o = jh.Obj("r")
                seen = []

                def po1(x, dic_):
                    seen.append((x, dic_))
                    return o
                with jh.patched(u.__dict__, process_object=po1):
                    out = u.process_objects(d, run.dic, force_list)
                ok = len(seen) == 1 and seen[0][0] is d and seen[0][1] is run.dic and \
                    ((isinstance(out, list) and len(out) == 1 and out[0] is o) if force_list else out is o)
                if not ok or len(run.log):
                    raise Refuted("process_objects on a single specification (force_list=%s): got %r" % (force_list, out),
                                  witness={"data": repr(d), "force_list": force_list}, replay=None, confirmed=None)
                n += 1
        return {"backend": "proxy-exec", "cases": n,
                "statement": "process_objects(list) = [process_object(e, dic) for e in list] in order, same registry object, errors propagate; "
                             "key absent -> None / [] without any call; key present -> data[key]; registry never accessed directly"}
    return fn


def ob_with_key():
    def fn():
        u = _utils()
        n = 0
        for present in (False, True):
            for default in (None, jh.Obj("default")):
                for fail in (False, True):
                    run = jh.Run([])
                    sub = {"id": "x"}
                    data = jh.RecDict({"k": sub} if present else {"z": sub}, run.log, "data")
                    o = jh.Obj("r")
                    seen = []

                    def po(x, dic_):
                        seen.append((x, dic_))
                        if fail:
                            raise u.JSONParseError("assumed")
                        return o
                    out = exc = None
                    with jh.patched(u.__dict__, process_object=po):
                        try:
                            out = u.process_object_with_key("k", data, run.dic, default) if default is not None \
                                else u.process_object_with_key("k", data, run.dic)
                        except Exception as e:
                            jh.reraise_harness(e)
                            exc = e
                    msgs = []
                    if any(e[1].startswith("dic.") for e in run.log):
                        msgs.append("registry accessed directly")
                    if present:
                        if len(seen) != 1 or seen[0][0] is not sub or seen[0][1] is not run.dic:
                            msgs.append("data[key] not processed exactly once with the same registry")
                        if fail and not isinstance(exc, u.JSONParseError):
                            msgs.append("parse error not propagated")
                        if not fail and out is not o:
                            msgs.append("result is not the processed object")
                    else:
                        if seen or exc is not None or out is not default:
                            msgs.append("absent key: expected the default %r, got %r" % (default, out))
                    if msgs:
                        raise Refuted("process_object_with_key present=%s: %s" % (present, msgs[0]), witness={"observed": msgs}, replay=None, confirmed=None)
                    n += 1
        return {"backend": "proxy-exec", "cases": n,
                "statement": "process_object_with_key: key present -> process_object(data[key], dic) (identity, errors propagate); absent -> default (None)"}
    return fn


# ======================================================================================
# JSONSerializable.from_json_safe and get_class
# ======================================================================================

def ob_from_json_safe():
    def fn():
        u = _utils()
        base = _base()
        n = 0
        for beh in ("return", "keyerror_dangling_read", "keyerror_missing_data_key", "keyerror_id", "parse_error"):
            for with_id in (True, False):
                run = jh.Run(["p"])
                data = jh.RecDict({"id": "I", "type": "T"} if with_id else {"type": "T"}, run.log, "data")
                o = jh.Obj("made")

                class K(base):
                    @classmethod
                    def from_json(cls, data_, dic_):
                        with run.log.as_("env"):
                            if data_ is not data or dic_ is not run.dic:
                                raise RuntimeError("arguments not passed through")
                            if beh == "return":
                                return o
                            if beh == "keyerror_dangling_read":
                                return dic_["no-such-id"]
                            if beh == "keyerror_missing_data_key":
                                return {"a": 1}["tree_model"]
                            if beh == "keyerror_id":
                                return {}["id"]
                            raise u.JSONParseError("inner")
                if beh == "parse_error" and not with_id:
                    continue  # process_object guarantees 'id' before construction (C13.illformed.missing_keys)
                out = exc = None
                try:
                    with run.log.as_("fut"):
                        out = K.from_json_safe(data, run.dic)
                except Exception as e:
                    jh.reraise_harness(e)
                    exc = e
                msgs = []
                if any(e[0] == "fut" and e[1].startswith("dic.") for e in run.log):
                    msgs.append("from_json_safe accessed the registry")
                if not jh.same_map(run.dic.raw(), run.pre):
                    msgs.append("registry changed")
                if beh == "return":
                    if out is not o or exc is not None:
                        msgs.append("constructed object not returned as is")
                elif not isinstance(exc, u.JSONParseError):
                    msgs.append("%s surfaced as %r, not as JSONParseError" % (beh, exc))
                if msgs:
                    raise Refuted("from_json_safe/%s: %s" % (beh, msgs[0]), witness={"behaviour": beh, "data_has_id": with_id, "observed": msgs},
                                  replay=None, confirmed=None)
                n += 1
        return {"backend": "proxy-exec", "cases": n,
                "statement": "real from_json_safe over a stub from_json: result passed through (identity); KeyError (dangling dic[...] read, "
                             "missing data key) and JSONParseError surface as JSONParseError; registry not touched"}
    return fn


def ob_get_class():
    def fn():
        u = _utils()
        from torchtree.core.parameter import Parameter
        msgs = []
        if u.get_class("Parameter") is not Parameter:
            msgs.append("registered short name does not resolve to the registered class")
        if u.get_class("torchtree.core.parameter.Parameter") is not Parameter:
            msgs.append("dotted name does not resolve")
        bad_types = ["NoSuchClassAnywhere", "no_such_module_xyz.K", "torchtree.core.utils.NoSuchClass", "", "torchtree.core.nosuchmodule.K"]
        n = 2
        for t in bad_types:
            run = jh.Run(["p"])
            data = {"id": "I", "type": t}
            try:
                jh.call_sub(run, u.process_object, ("d", "I", ()), data, ())
            except Exception as e:
                jh.reraise_harness(e)
            ev = run.calls[0]
            if not isinstance(ev.get("exc"), u.JSONParseError):
                msgs.append("unknown type %r: %r instead of JSONParseError" % (t, ev.get("exc", ev.get("ret"))))
            if not jh.same_map(ev["before"], ev["after"]):
                msgs.append("unknown type %r: registry changed" % t)
            n += 1
        if msgs:
            raise Refuted(msgs[0], witness={"observed": msgs}, replay=None, confirmed=None)
        return {"backend": "concrete", "cases": n,
                "statement": "real get_class: registered / dotted names resolve to the class; unknown types make process_object raise JSONParseError, registry identical"}
    return fn


# ======================================================================================
# AST frame scan of every from_json
# ======================================================================================

def _repo_pkg():
    import torchtree
    return os.path.dirname(os.path.abspath(torchtree.__file__))


def ob_scan(kind):
    def fn():
        r = jh.frame_scan(_repo_pkg())
        if r["parse_errors"]:
            raise Undecided("frame scan could not parse: %s" % r["parse_errors"][:3])
        if r["roots"] == 0:
            raise Undecided("no from_json found (vacuous scan)")
        if kind == "writes":
            if r["flags"]:
                raise Refuted("%d use(s) of the registry outside the constructor contract: %s" % (len(r["flags"]), r["flags"][:5]),
                              witness={"flags": r["flags"]}, replay=None, confirmed=None)
            return {"backend": "ast", "cases": len(r["functions"]), "roots": r["roots"],
                    "self_registrations": r["self_registrations"], "direct_reads": r["direct_reads"],
                    "delegations_without_safe": r["unsafe_delegations"],
                    "statement": "in all %d from_json/from_json_safe and the %d helpers the registry is handed to, `dic` is only passed to the "
                                 "process_* family / another from_json / a scanned helper, read, or written by a guarded self-registration"
                                 % (r["roots"], len(r["functions"]) - r["roots"])}
        if kind == "swallow":
            if r["swallowed"]:
                raise Refuted("constructor swallows the parse error of a sub-specification: %s" % r["swallowed"][:5],
                              witness={"handlers": r["swallowed"]}, replay=None, confirmed=None)
            return {"backend": "ast", "cases": len(r["functions"]),
                    "statement": "no from_json catches JSONParseError/Exception around a process_* call without re-raising"}
    return fn


def ob_footprint_ast():
    """syntactic footprint of the real process_* functions: covers every path, executed or not"""
    def fn():
        u = _utils()
        allowed = {
            "process_object": {("dic", "read[]"), ("dic", "in"), ("dic", "write[]"), ("dic", "arg")},
            "process_objects": {("dic", "arg")},
            "process_object_with_key": {("dic", "arg")},
        }
        n = 0
        import inspect as _insp
        import textwrap as _tw
        for name, ok in allowed.items():
            # locals by ROLE (renaming a local is not an alarm): the id local = the name(s) bound from data["id"]; the class local = the
            # name(s) bound from get_class(...)
            _t = ast.parse(_tw.dedent(_insp.getsource(getattr(u, name))))
            id_names = {x.targets[0].id for x in ast.walk(_t) if isinstance(x, ast.Assign) and len(x.targets) == 1 and isinstance(x.targets[0], ast.Name)
                        and isinstance(x.value, ast.Subscript) and isinstance(x.value.slice, ast.Constant) and x.value.slice.value == "id"}
            cls_names = {x.targets[0].id for x in ast.walk(_t) if isinstance(x, ast.Assign) and len(x.targets) == 1 and isinstance(x.targets[0], ast.Name)
                         and isinstance(x.value, ast.Call) and isinstance(x.value.func, ast.Name) and x.value.func.id == "get_class"}
            fp = jh.function_footprint(getattr(u, name), {"dic"})
            if not fp:
                raise Undecided("no occurrence of dic in %s" % name)
            for who, kind, detail in fp:
                n += 1
                if (who, kind) not in ok:
                    raise Refuted("%s uses the registry as %s (%s)" % (name, kind, detail), witness={"function": name, "footprint": fp},
                                  replay=None, confirmed=None)
                if kind == "write[]" and detail not in id_names:
                    raise Refuted("%s writes dic[%s], not dic[<the local bound from data['id']: %s>]" % (name, detail, sorted(id_names)), witness={"footprint": fp}, replay=None, confirmed=None)
                if kind == "arg" and not (detail.split("#")[0] in {"process_object"} | {"%s.from_json_safe" % k for k in cls_names}):
                    raise Refuted("%s passes the registry to %s" % (name, detail), witness={"footprint": fp}, replay=None, confirmed=None)
        return {"backend": "ast", "cases": n,
                "statement": "every syntactic occurrence of dic in process_object/process_objects/process_object_with_key is dic[...] read, "
                             "`in dic`, dic[id_] = ..., or passing dic to process_object / klass.from_json_safe"}
    return fn


# ======================================================================================
# remove_comments / expand_plates
# ======================================================================================

def _ignored(e):
    return isinstance(e, dict) and "ignore" in e and bool(e["ignore"])


def clean_oracle(x):
    """from the statement: `_`-keys and objects marked ignored have no effect = the specification
    without them, everything else in the original order"""
    if isinstance(x, list):
        return [clean_oracle(e) for e in x if not _ignored(e)]
    if isinstance(x, dict):
        return {k: clean_oracle(v) for k, v in x.items() if not k.startswith("_") and not _ignored(v)}
    return x


def _residue(x, top=True):
    """any `_`-key or ignored dict left below the top-level container"""
    if isinstance(x, list):
        return any(_ignored(e) or _residue(e, False) for e in x)
    if isinstance(x, dict):
        return any(k.startswith("_") or _ignored(v) or _residue(v, False) for k, v in x.items())
    return False


def _same_json(a, b):
    """equal including key order"""
    if type(a) is not type(b):
        return False
    if isinstance(a, dict):
        return list(a.keys()) == list(b.keys()) and all(_same_json(a[k], b[k]) for k in a)
    if isinstance(a, list):
        return len(a) == len(b) and all(_same_json(x, y) for x, y in zip(a, b))
    return a == b


def ob_remove_comments_enum(bounds):
    def fn():
        u = _utils()
        n = 0
        for (d, w, dw) in bounds:
            for shape in jh.json_shapes(d, w, dw):
                x = jh.json_build(shape)
                orig = copy.deepcopy(x)
                ret = u.remove_comments(x)
                exp = clean_oracle(orig)
                if not _same_json(x, exp) or _residue(x) or ret is not None:
                    raise Refuted("remove_comments(%s) = %s, expected %s" % (json.dumps(orig), json.dumps(x), json.dumps(exp)),
                                  witness={"input": orig, "got": x, "expected": exp}, replay=None, confirmed=True)
                n += 1
        if n == 0:
            raise Undecided("empty enumeration")
        return {"backend": "enum", "cases": n,
                "statement": "remove_comments on every JSON shape within (depth,width,dict width) in %s: result = input without `_`-keys and "
                             "ignored dicts, order preserved, nothing else changed" % (list(bounds),)}
    return fn


def ob_remove_comments_node(width):
    """modular: generic list / dict node, the recursive call replaced by its contract"""
    def fn():
        u = _utils()
        kinds = ["leaf", "list", "dict", "dict_ign_true", "dict_ign_false", "str"]

        def mk(kind, j):
            return {"leaf": j, "str": "_s%d" % j, "list": [j, {"_c": 1}], "dict": {"a": j, "_c": 1},
                    "dict_ign_true": {"a": j, "ignore": True}, "dict_ign_false": {"a": j, "ignore": False}}[kind]
        n = 0
        for k in range(width + 1):
            for combo in itertools.product(kinds, repeat=k):
                for container in ("list", "dict"):
                    for keykinds in (itertools.product("pu", repeat=k) if container == "dict" else [()]):
                        children = [mk(c, j) for j, c in enumerate(combo)]
                        if container == "list":
                            x = list(children)
                            exp = [c for c in children if not _ignored(c)]
                        else:
                            keys = [("_k%d" if kk == "u" else "k%d") % j for j, kk in enumerate(keykinds)]
                            x = dict(zip(keys, children))
                            exp = [c for kx, c in zip(keys, children) if not kx.startswith("_") and not _ignored(c)]
                            expkeys = [kx for kx, c in zip(keys, children) if not kx.startswith("_") and not _ignored(c)]
                        calls = []

                        def rc(o):
                            calls.append(o)
                        real = u.remove_comments
                        with jh.patched(u.__dict__, remove_comments=rc):
                            real(x)
                        got = x if container == "list" else list(x.values())
                        msgs = []
                        if len(got) != len(exp) or any(a is not b for a, b in zip(got, exp)):
                            msgs.append("kept children %r, expected %r" % (got, exp))
                        if container == "dict" and list(x.keys()) != expkeys:
                            msgs.append("kept keys %r, expected %r" % (list(x.keys()), expkeys))
                        need = [c for c in exp if isinstance(c, (list, dict))]
                        for c in need:
                            if sum(1 for o in calls if o is c) < 1:
                                msgs.append("kept child %r not cleaned recursively" % (c,))
                        for c in children:
                            if c != mk(combo[children.index(c)], children.index(c)) and not any(o is c for o in calls):
                                msgs.append("child modified outside the recursive call")
                        if msgs:
                            raise Refuted("remove_comments generic %s node %s: %s" % (container, list(combo), msgs[0]),
                                          witness={"container": container, "children": list(combo), "keys": list(keykinds), "observed": msgs},
                                          replay=None, confirmed=None)
                        n += 1
        return {"backend": "proxy-exec", "cases": n,
                "statement": "generic list/dict node with <=%d children of every kind (recursive call = its contract): exactly the `_`-keyed and "
                             "ignored children are removed, the others stay the same objects in order and each container child is cleaned" % width}
    return fn


def _is_plate(e):
    return isinstance(e, dict) and "type" in e and isinstance(e["type"], str) and e["type"].endswith("Plate")


def _plate_subst(o, plate, i):
    if isinstance(o, list):
        return [_plate_subst(e, plate, i) for e in o]
    if isinstance(o, dict):
        d = {}
        for k, v in o.items():
            v2 = _plate_subst(v, plate, i)
            if k == "id":
                if "var" in plate:
                    v2 = v2.replace("${%s}" % plate["var"], str(i))
                elif v2.endswith("*"):
                    v2 = v2[:-1] + str(i)
            d[k] = v2
        return d
    return o


def plate_oracle(x, PE):
    """a plate in a list stands for its object once per index of the range, with the wildcard in ids
    replaced by the index; everything else is unchanged"""
    if isinstance(x, list):
        out = []
        for e in x:
            if _is_plate(e) and "range" in e:
                a = list(map(int, e["range"].split(":")))
                out += [plate_oracle(_plate_subst(e["object"], e, i), PE) for i in range(*a)]
            else:
                out.append(plate_oracle(e, PE))
        return out
    if isinstance(x, dict):
        if _is_plate(x) and "range" in x:
            raise PE("plate outside a list")
        return {k: plate_oracle(v, PE) for k, v in x.items()}
    return x


def _plate(r, kind, nested):
    idv = {"star": "x*", "var": "x${i}", "none": "x"}[kind]
    o = {"id": idv, "type": STUB_TYPE, "children": []}
    if nested:
        o["children"] = [{"id": "y${i}" if kind == "var" else "y*" if kind == "star" else "y", "type": STUB_TYPE, "children": []}]
    p = {"type": "torchtree.Plate", "range": r, "object": o}
    if kind == "var":
        p["var"] = "i"
    return p


def ob_expand_plates(tier):
    def fn():
        u = _utils()
        ranges = ("0:1", "0:2", "1:3", "0:0")
        makers = [lambda n: {"id": "o%d" % n, "type": STUB_TYPE, "children": []}]
        for r in ranges:
            for k in ("star", "var", "none"):
                for ne in (False, True):
                    makers.append((lambda r, k, ne: (lambda n: _plate(r, k, ne)))(r, k, ne))
        # a plate whose object contains a plate of its own (the inner ids use both variables)
        for r in ("0:2", "1:3"):
            for r2 in ("0:1", "0:2"):
                makers.append((lambda r, r2: (lambda n: {"type": "torchtree.Plate", "range": r, "var": "i", "object": {
                    "id": "x${i}", "type": STUB_TYPE, "children": [{"type": "torchtree.Plate", "range": r2, "var": "j", "object": {
                        "id": "y${i}_${j}", "type": STUB_TYPE, "children": []}}]}}))(r, r2))
        n = 0
        loaded = 0
        maxn = 3 if tier == "thorough" else 2
        for cnt in range(0, maxn + 1):
            for combo in itertools.product(range(len(makers)), repeat=cnt):
                for wrap in (0, 1, 2):
                    lst = [makers[c](j) for j, c in enumerate(combo)]
                    x = lst if wrap == 0 else [{"id": "w", "type": STUB_TYPE, "children": lst}] if wrap == 1 else {"id": "w", "plate": lst[0] if lst else 1}
                    orig = copy.deepcopy(x)
                    try:
                        exp, eexc = plate_oracle(copy.deepcopy(x), u.JSONParseError), None
                    except u.JSONParseError as e:
                        exp, eexc = None, e
                    try:
                        u.expand_plates(x)
                        got, gexc = x, None
                    except Exception as e:
                        jh.reraise_harness(e)
                        got, gexc = None, e
                    if type(eexc) is not type(gexc) or (eexc is None and not _same_json(got, exp)):
                        raise Refuted("expand_plates(%s) = %s / %r, expected %s / %r" % (json.dumps(orig), json.dumps(got), gexc, json.dumps(exp), eexc),
                                      witness={"input": orig, "got": got, "expected": exp}, replay=None, confirmed=True)
                    n += 1
                    # end to end: ids produced by plates are subject to the duplicate-id rule like any other
                    if eexc is None and wrap != 2:
                        ids = _spec_def_ids(exp, [])
                        run = jh.Run([])
                        Stub = jh.make_stub_class(run, _base(), _inorder_ctor(u))
                        err = None
                        with jh.patched(u.__dict__, get_class=lambda name: Stub):
                            try:
                                u.process_objects(got, run.dic)
                            except u.JSONParseError as e:
                                err = e
                        dup = len(set(ids)) != len(ids)
                        if dup and err is None:
                            raise Refuted("expanded plates define an id twice and the specification loads: %s" % json.dumps(orig),
                                          witness={"input": orig, "expanded": exp, "specs": None}, replay=None, confirmed=None)
                        if not dup and (err is not None or sorted(k for k in run.dic.raw() if k != "zz") != sorted(ids)):
                            raise Refuted("expanded plates with distinct ids do not load into one object per id: %s (%r)" % (json.dumps(orig), err),
                                          witness={"input": orig, "expanded": exp}, replay=None, confirmed=None)
                        loaded += 1
        return {"backend": "enum", "cases": n, "loaded": loaded,
                "statement": "expand_plates on lists of <=%d objects / plates (ranges %s, id wildcard *, ${var}, none; nested ids), bare, inside "
                             "an object, or as a dict value: result = each plate replaced in place by one clone per index with the index "
                             "substituted in ids; loading the result registers one object per id and rejects repeated ids" % (maxn, list(ranges))}
    return fn


def _inorder_ctor(u):
    def beh(run, cls, data, dic):
        for c in data["children"]:
            with run.log.as_("fut"):
                u.process_object(c, dic)
        o = jh.Obj("new:%s" % data["id"])
        run.ctors.append({"id": data["id"], "obj": o, "by": "ctor", "path": ()})
        return o
    return beh


# ======================================================================================
# real classes: concrete specifications (B)
# ======================================================================================

def _P(i, v=1.0):
    return {"id": i, "type": "Parameter", "tensor": [v]}


def _J(i, ch):
    return {"id": i, "type": "JointDistributionModel", "distributions": ch}


def _T(i, x):
    return {"id": i, "type": "TransformedParameter", "transform": "torch.distributions.ExpTransform", "x": x}


def _N(i, x, loc, scale):
    return {"id": i, "type": "Distribution", "distribution": "torch.distributions.Normal", "x": x, "parameters": {"loc": loc, "scale": scale}}


REAL_ILLFORMED = {
    "nested": [  # a nested object carries the id of an enclosing object
        ("child has the id of its parent (JointDistributionModel > Parameter)", [_J("a", [_P("a")])]),
        ("child has the id of its parent (TransformedParameter > Parameter)", [_T("a", _P("a"))]),
        ("grandchild has the id of its grandparent", [_J("a", [_N("d", _P("a"), _P("l"), _P("s"))])]),
        ("parameter of a distribution has the id of the distribution", [_N("a", _P("x"), _P("a"), _P("s"))]),
    ],
    "siblings": [
        ("two children with one id", [_J("j", [_P("a"), _P("a")])]),
        ("x and scale of a distribution with one id", [_N("d", _P("a"), _P("l"), _P("a"))]),
        ("cousins with one id", [_J("j", [_J("k", [_P("a")]), _J("m", [_P("a")])])]),
        ("two top-level definitions with one id", [_P("a"), _P("a")]),
    ],
    "earlier": [
        ("nested object re-defines an earlier top-level id", [_P("a"), _T("t", _P("a"))]),
        ("top-level object re-defines an id defined inside an earlier object", [_J("j", [_P("a")]), _P("a")]),
        ("nested object re-defines an id nested in an earlier sibling", [_J("j", [_T("t", _P("a")), _N("d", _P("a"), _P("l"), _P("s"))])]),
    ],
    "dangling": [
        ("reference to an id that is never defined", [_J("j", ["nope"])]),
        ("reference before the definition", [_J("j", ["a", _P("a")])]),
        ("top-level dangling reference", ["nope"]),
        ("dangling reference read directly by Distribution.from_json", [_N("d", _P("x"), "nope", _P("s"))]),
        ("reference to an object that is marked ignored", "IGNORED"),
    ],
}


def ob_real_illformed(group):
    def fn():
        u = _utils()
        n = 0
        for what, specs in REAL_ILLFORMED[group]:
            if specs == "IGNORED":
                specs = [{"id": "a", "type": "Parameter", "tensor": [1.0], "ignore": True}, _J("j", ["a"])]
                u.remove_comments(specs)
            ok, msg = replay_spec({"specs": specs, "expect": "reject"})
            if not ok:
                raise Refuted("%s: %s" % (what, msg), witness={"what": what, "specs": specs, "expect": "reject", "real_code": msg},
                              replay={"kind": "custom", "contract": "C13", "func": "replay_spec", "args": {"specs": specs, "expect": "reject"}},
                              confirmed=True)
            n += 1
        return {"backend": "concrete", "cases": n,
                "statement": "real classes: %d ill-formed specifications (%s) are rejected with JSONParseError" % (n, group)}
    return fn


def _flexible_tree_spec(heights_id="internal_heights"):
    """FlexibleTimeTreeModel registers itself during construction because its height parameter refers back to it"""
    from torchtree.evolution.tree_model_flexible import FlexibleTimeTreeModel
    nh = {"id": heights_id, "type": "TransformedParameter",
          "transform": "torchtree.evolution.tree_height_transform.DifferenceNodeHeightTransform",
          "x": {"id": "differences", "type": "Parameter", "tensor": [1.0, 1.0, 1.0]},
          "parameters": {"tree_model": "tree"}}
    return FlexibleTimeTreeModel.json_factory("tree", "((A,B),(C,D));", nh, dict(zip("ABCD", [0.0, 0.0, 0.0, 0.0])))


def ob_real_selfregistering():
    def fn():
        spec = _flexible_tree_spec()
        args = {"specs": [spec], "expect": "accept"}
        ok, msg = replay_spec(args)
        if not ok:
            raise Refuted("well-formed specification of a self-registering class (FlexibleTimeTreeModel, circular reference from its "
                          "heights) is rejected: %s" % msg, witness=dict(args, real_code=msg),
                          replay={"kind": "custom", "contract": "C13", "func": "replay_spec", "args": args}, confirmed=True)
        dic, exc = _load_real([spec])
        if dic["tree"]._internal_heights is not dic["internal_heights"] or dic["internal_heights"].transform.tree is not dic["tree"] \
                if hasattr(dic["internal_heights"].transform, "tree") else False:
            raise Refuted("circular holders do not hold the registered instances", witness=args, replay=None, confirmed=True)
        n = 1
        for bad_id in ("tree", "taxa", "A"):
            args = {"specs": [_flexible_tree_spec(bad_id)], "expect": "reject"}
            ok, msg = replay_spec(args)
            if not ok:
                raise Refuted("heights parameter carrying the id %r of another object: %s" % (bad_id, msg), witness=dict(args, real_code=msg),
                              replay={"kind": "custom", "contract": "C13", "func": "replay_spec", "args": args}, confirmed=True)
            n += 1
        return {"backend": "concrete", "cases": n,
                "statement": "real FlexibleTimeTreeModel (registers itself, its heights refer back to it): loads, both holders hold the "
                             "registered instances; a nested object re-using the tree's / taxa's / a taxon's id is rejected"}
    return fn


def ob_real_sharing():
    def fn():
        import torch
        specs = [_P("x", 0.3), _J("j", [_N("d1", "x", _P("l1", 0.0), _P("s1", 1.0)), _N("d2", "x", _P("l2", 1.0), "s1"), "d1"]), "x"]
        dic, exc = _load_real(specs)
        if exc is not None:
            raise Refuted("well-formed specification rejected: %r" % exc, witness={"specs": specs, "expect": "accept"},
                          replay={"kind": "custom", "contract": "C13", "func": "replay_spec", "args": {"specs": specs, "expect": "accept"}}, confirmed=True)
        d1, d2, x = dic["d1"], dic["d2"], dic["x"]
        msgs = []
        if d1.x is not x or d2.x is not x:
            msgs.append("holders of id 'x' hold different instances")
        held = _held_objects(dic["j"])
        if sum(1 for h in held if h is d1) < 1:
            msgs.append("the joint model does not hold the registered d1")
        before = float(d2())
        d1.x.tensor = torch.tensor([2.5])
        after = float(d2())
        exp_after = float(torch.distributions.Normal(1.0, 1.0).log_prob(torch.tensor(2.5)))
        if abs(after - exp_after) > 1e-12 or abs(before - after) < 1e-9:
            msgs.append("update through holder d1 not observed by holder d2 (%r -> %r, expected %r)" % (before, after, exp_after))
        if float(x.tensor) != 2.5:
            msgs.append("registry object does not observe the update")
        if msgs:
            raise Refuted(msgs[0], witness={"specs": specs, "observed": msgs}, replay=None, confirmed=True)
        return {"backend": "concrete", "cases": 1,
                "statement": "real classes: three holders of one Parameter id hold the same instance; an update through one holder changes "
                             "the value computed by the other"}
    return fn


def _run_main_dry(spec):
    """the real command-line entry point `torchtree.torchtree.main()` on a specification file, with --dry: returns (registry, error text).
    The registry is observed through the module-level name `process_objects` that main() calls for every top-level element."""
    import contextlib
    import io
    import logging
    import shutil
    import sys
    import tempfile
    import torch
    import torchtree.torchtree as tt
    d = tempfile.mkdtemp(prefix="vt_c13main_")
    seen = {}
    real_po = tt.process_objects

    def spy(element, dic):
        out = real_po(element, dic)
        seen["dic"] = dic
        return out
    old_argv, old_dtype = sys.argv, torch.get_default_dtype()
    err = io.StringIO()
    handler = logging.StreamHandler(err)
    logging.getLogger().addHandler(handler)
    try:
        fn = os.path.join(d, "spec.json")
        with open(fn, "w") as fp:
            json.dump(spec, fp)
        sys.argv = ["torchtree", fn, "--dry", "-s", "1"]
        with jh.patched(tt.__dict__, process_objects=spy), contextlib.redirect_stdout(io.StringIO()):
            tt.main()
    finally:
        logging.getLogger().removeHandler(handler)
        sys.argv = old_argv
        torch.set_default_dtype(old_dtype)
        shutil.rmtree(d, ignore_errors=True)
    return seen.get("dic", {}), err.getvalue().strip()


def ob_main_pipeline():
    """the pre-processing done by the real main() (comments, ignored objects, plates - in whatever order and through whatever helpers
    the current source uses) on whole specification files: the objects registered, and the value of the joint density, are those of the
    same file with the ignored parts deleted by hand"""
    def fn():
        E = lambda i, y: {"id": i, "type": "Distribution", "distribution": "torch.distributions.Exponential", "x": _P(i + ".y", y), "parameters": {"rate": _P(i + ".r", 2.0)}}
        Nrm = lambda i, v: _N(i, _P(i + ".x", v), _P(i + ".l", 0.0), _P(i + ".s", 1.5))
        plate = lambda ident, rng_, obj, **kw: dict({"id": ident, "type": "Plate", "range": rng_, "var": "i", "object": obj}, **kw)
        active = plate("pl.a", "0:2", E("e.${i}", 0.4))
        cases = {
            "an ignored plate next to an active one": (
                [_J("joint", [plate("pl.i", "0:3", Nrm("n.${i}", 0.3), ignore=True), active])], [_J("joint", [active])]),
            "an ignored plate that is a disabled alternative for ids defined elsewhere": (
                [_J("joint", [plate("pl.i", "0:2", Nrm("e.${i}", 0.3), ignore=True), active])], [_J("joint", [active])]),
            "a plate under an underscore key, a comment inside the template": (
                [dict(_J("joint", [plate("pl.a", "0:2", dict(E("e.${i}", 0.4), _note="generated"))]), _alt=[plate("pl.x", "0:2", Nrm("n.${i}", 0.1))])], [_J("joint", [active])]),
            "an ignored object inside a plate template": (
                [_J("joint", [plate("pl.a", "0:2", E("e.${i}", 0.4)), {"id": "junk", "type": "NoSuchType", "ignore": True}])], [_J("joint", [active])]),
        }
        n = 0
        for what, (noisy, clean) in cases.items():
            d1, e1 = _run_main_dry(copy.deepcopy(noisy))
            d2, e2 = _run_main_dry(copy.deepcopy(clean))
            n += 1
            if e2 or "joint" not in d2:
                raise Undecided("the reference specification of the contract does not load through main(): %s" % e2)
            ids1, ids2 = sorted(map(str, d1)), sorted(map(str, d2))
            if e1 or ids1 != ids2:
                raise Refuted("main() on a specification with %s: %s; registered ids %s, the same file without the ignored parts registers %s" % (
                    what, ("error: " + e1) if e1 else "loads", ids1, ids2), witness={"case": what, "spec": noisy}, confirmed=True,
                    replay={"kind": "custom", "contract": "C13", "func": "replay_main_pipeline", "args": {}})
            v1, v2 = float(d1["joint"]()), float(d2["joint"]())
            if abs(v1 - v2) > 1e-12:
                raise Refuted("main() on a specification with %s: the joint density is %r, without the ignored parts %r" % (what, v1, v2),
                              witness={"case": what, "spec": noisy}, confirmed=True,
                              replay={"kind": "custom", "contract": "C13", "func": "replay_main_pipeline", "args": {}})
        return {"backend": "concrete", "cases": n, "bounded": "%d specification files" % n,
                "statement": "specification files with ignored plates / comments inside plate templates / plates under underscore keys load through the real main() "
                             "into the same registry and the same joint density as the files without those parts"}
    return fn


def replay_main_pipeline(args):
    try:
        ob_main_pipeline()()
    except Refuted as e:
        return False, e.detail
    return True, "held"


def ob_comments_no_effect():
    """end to end with real classes: a specification with comments / ignored objects loads into objects that
    evaluate like the specification without them"""
    def fn():
        u = _utils()
        clean = [_P("x", 0.3), _J("j", [_N("d1", "x", _P("l1", 0.0), _P("s1", 1.5))])]
        noisy = [{"_comment": "x", **_P("x", 0.3)}, {"id": "junk", "type": "NoSuchType", "ignore": True},
                 {"id": "j", "type": "JointDistributionModel", "_note": {"id": "x", "type": "Parameter"},
                  "distributions": [{"id": "x", "type": "Parameter", "tensor": [9.0], "ignore": True},
                                    dict(_N("d1", "x", _P("l1", 0.0), _P("s1", 1.5)), _k=[1, 2], ignore=False)]}]
        u.remove_comments(noisy)
        d_clean, e1 = _load_real(clean)
        d_noisy, e2 = _load_real(noisy)
        if e1 is not None or e2 is not None:
            raise Refuted("specification with comments rejected: %r / %r" % (e1, e2), witness={"specs": noisy}, replay=None, confirmed=True)
        if sorted(d_clean) != sorted(d_noisy) or abs(float(d_clean["j"]()) - float(d_noisy["j"]())) > 0:
            raise Refuted("comments / ignored objects change the loaded model: ids %s vs %s" % (sorted(d_clean), sorted(d_noisy)),
                          witness={"specs": noisy}, replay=None, confirmed=True)
        return {"backend": "concrete", "cases": 1, "statement": "real classes: `_`-keys and ignored objects (incl. a would-be duplicate id and an "
                                                                 "unknown type) do not change the registry or the joint density"}
    return fn


def ob_factory(which):
    def fn():
        import torch
        from torchtree.core.parameter import Parameter
        u = _utils()
        n = 0
        msgs = []

        def close(a, b):
            return a.shape == b.shape and bool(torch.all(a == b))
        if which == "Parameter":
            dic = {}
            p = u.process_object(Parameter.json_factory("p", tensor=[1.0, 2.0]), dic)
            cases = [(dict(tensor=[1.0, 2.0]), torch.tensor([1.0, 2.0])), (dict(full=[2], tensor=3.0), torch.full([2], 3.0)),
                     (dict(zeros=[2]), torch.zeros([2])), (dict(ones=3), torch.ones(3)), (dict(eye=2), torch.eye(2)),
                     (dict(full_like="p", tensor=2.0), torch.full_like(p.tensor, 2.0)), (dict(zeros_like="p"), torch.zeros_like(p.tensor)),
                     (dict(ones_like="p"), torch.ones_like(p.tensor)), (dict(eye_like="p"), torch.eye(2))]
            for j, (kw, exp) in enumerate(cases):
                q = u.process_object(Parameter.json_factory("q%d" % j, **kw), dic)
                direct = Parameter("q%d" % j, exp)
                if not isinstance(q, Parameter) or not close(q.tensor, direct.tensor) or q.id != direct.id or dic["q%d" % j] is not q:
                    msgs.append("Parameter.json_factory(%s) loads %r, direct %r" % (kw, q.tensor, direct.tensor))
                n += 1
        elif which == "derived parameters":
            from torchtree.core.parameter import ViewParameter
            base = [0.5, 1.5, 2.5, 3.5]
            for idx, direct_idx in ((2, 2), ("1:3", slice(1, 3)), ("::2", slice(None, None, 2)), ([0, 2], torch.tensor([0, 2])), ([3], torch.tensor([3])),
                                    ([True, False, True, False], torch.tensor([True, False, True, False])), ("-1:", slice(-1, None))):
                dic = {}
                try:
                    v = u.process_object(ViewParameter.json_factory("v", Parameter.json_factory("p", tensor=base), idx), dic)
                except Exception as e:
                    msgs.append("ViewParameter.json_factory(..., indices=%r) does not load: %s: %s" % (idx, type(e).__name__, e))
                    n += 1
                    continue
                direct = ViewParameter("v", Parameter("p", torch.tensor(base)), direct_idx)
                if not isinstance(v, ViewParameter) or not close(v.tensor, direct.tensor) or dic["v"] is not v or v.parameter is not dic["p"]:
                    msgs.append("ViewParameter.json_factory(..., indices=%r) loads %r, direct %r" % (idx, v.tensor, direct.tensor))
                n += 1
        else:
            from torchtree.distributions.bayesian_bridge import BayesianBridge
            from torchtree.distributions.deterministic_normal import DeterministicNormal
            from torchtree.distributions.distributions import Distribution
            from torchtree.distributions.scale_mixture import ScaleMixtureNormal
            pj = Parameter.json_factory
            x, a, b, c = [0.3, -1.2], [0.5], [2.0], [0.5, 0.7]
            X, A, B, C = (Parameter("x", torch.tensor(x)), Parameter("a", torch.tensor(a)), Parameter("b", torch.tensor(b)), Parameter("c", torch.tensor(c)))
            table = {
                "Distribution": (Distribution.json_factory("d", "torch.distributions.Normal", pj("x", tensor=x), {"loc": pj("a", tensor=a), "scale": pj("b", tensor=b)}),
                                 lambda: Distribution("d", torch.distributions.Normal, X, {"loc": A, "scale": B})),
                "Distribution.refs": ([pj("x", tensor=x), pj("a", tensor=a), pj("b", tensor=b),
                                       Distribution.json_factory("d", "torch.distributions.Normal", "x", {"loc": "a", "scale": "b"})],
                                      lambda: Distribution("d", torch.distributions.Normal, X, {"loc": A, "scale": B})),
                "DeterministicNormal": (DeterministicNormal.json_factory("d", pj("a", tensor=a), pj("b", tensor=b), pj("x", tensor=x), []),
                                        lambda: DeterministicNormal("d", A, B, X, torch.Size([]))),
                "BayesianBridge": (BayesianBridge.json_factory("d", pj("x", tensor=x), pj("b", tensor=b), pj("a", tensor=a)),
                                   lambda: BayesianBridge("d", X, B, A)),
                "ScaleMixtureNormal": (ScaleMixtureNormal.json_factory("d", pj("x", tensor=x), 0.0, pj("b", tensor=b), pj("c", tensor=c)),
                                       lambda: ScaleMixtureNormal("d", X, 0.0, B, C)),
            }
            spec, direct = table[which]
            dic = {}
            loaded = u.process_objects(spec, dic)
            if isinstance(loaded, list):
                loaded = loaded[-1]
            ref = direct()
            if type(loaded) is not type(ref) or loaded.id != ref.id or dic["d"] is not loaded:
                msgs.append("%s: loaded %r, direct %r" % (which, loaded, ref))
            v1, v2 = loaded(), ref()
            if not close(v1, v2):
                msgs.append("%s: loaded object evaluates to %r, directly constructed to %r" % (which, v1, v2))
            # the loaded object holds the registered parameter instances
            if getattr(loaded, "x", None) is not dic["x"]:
                msgs.append("%s: x held by the loaded object is not the registered instance" % which)
            n += 1
        if msgs:
            raise Refuted(msgs[0], witness={"factory": which, "observed": msgs}, replay=None, confirmed=True)
        return {"backend": "concrete", "cases": n, "statement": "json_factory round trip %s: loads to the same type/id and evaluates identically "
                                                                 "to the directly constructed object (bounded, concrete)" % which}
    return fn


def ob_factory_tree_models():
    """json_factory of the tree models (and of what is built on them: strict clock, CTMC-scale prior, view parameter) with EVERY value of
    their documented keyword `keep_branch_lengths` (omitted / False / True): the emitted specification loads into a model that evaluates
    like the directly constructed one — with the supplied branch lengths / heights when the option is off, with those read from the newick
    string when it is on."""
    def fn():
        import torch
        from torchtree.core.parameter import Parameter
        from torchtree.evolution.tree_model import (ReparameterizedTimeTreeModel, TimeTreeModel, UnRootedTreeModel, initialize_dates_from_taxa,
                                                    parse_tree)
        from torchtree.evolution.taxa import Taxa, Taxon
        u = _utils()
        msgs, n = [], 0
        nwk_u = "((A:0.01,B:0.02):0.03,C:0.04,D:0.05);"
        nwk_t = "((A:1.0,B:1.0):2.0,(C:1.5,D:1.5):1.5);"
        taxa_u = ["A", "B", "C", "D"]
        taxa_t = {"A": 0.0, "B": 0.0, "C": 0.0, "D": 0.0}
        supplied_bl = [0.11, 0.12, 0.13, 0.14, 0.15]
        supplied_h = [1.2, 1.7, 3.4]

        def mk_taxa(dated):
            return Taxa("taxa", [Taxon(t, {"date": 0.0} if dated else {}) for t in taxa_u])
        for keep in ("omitted", False, True):
            kw = {} if keep == "omitted" else {"keep_branch_lengths": keep}
            # unrooted
            spec = UnRootedTreeModel.json_factory("tree", nwk_u, list(supplied_bl), dict.fromkeys(taxa_u), **kw)
            dic = {}
            loaded = u.process_object(spec, dic)
            taxa = mk_taxa(False)
            tree = parse_tree(taxa, {"newick": nwk_u})
            if keep is True:
                want = torch.tensor([0.01, 0.02, 0.04, 0.05, 0.03])
            else:
                want = torch.tensor(supplied_bl)
            got = loaded.branch_lengths()
            n += 1
            if keep is True:
                ok = sorted(round(float(x), 6) for x in got) == sorted(round(float(x), 6) for x in want)   # node order is C01/C02's subject
            else:
                direct = UnRootedTreeModel("tree", tree, taxa, Parameter("branch_lengths", want.clone()))
                ok = got.shape == direct.branch_lengths().shape and bool(torch.allclose(got, direct.branch_lengths()))
            if not ok:
                msgs.append("UnRootedTreeModel.json_factory(keep_branch_lengths=%s): loaded model has branch lengths %s, expected %s"
                            % (keep, [round(float(x), 4) for x in got], [round(float(x), 4) for x in want]))
            # time tree
            spec = TimeTreeModel.json_factory("tree", nwk_t, list(supplied_h), dict(taxa_t), **kw)
            dic = {}
            loaded = u.process_object(spec, dic)
            got = loaded.node_heights[..., 4:]
            want = torch.tensor([1.0, 1.5, 3.0]) if keep is True else torch.tensor(supplied_h)
            n += 1
            if not (got.shape == want.shape and torch.allclose(got.double(), want.double())):
                msgs.append("TimeTreeModel.json_factory(keep_branch_lengths=%s): loaded model has internal heights %s, expected %s"
                            % (keep, [round(float(x), 4) for x in got], want.tolist()))
        if msgs:
            raise Refuted(msgs[0], witness={"factory": "tree models", "observed": msgs}, replay=None, confirmed=True)
        return {"backend": "concrete", "cases": n, "statement": "tree-model json_factory x keep_branch_lengths in {omitted, False, True}: %d specifications load into models with the "
                                                                 "branch lengths / heights the option names" % n}
    return fn


def ob_factory_literals():
    """Distribution.json_factory with LITERAL parameters (numbers / lists, the form the CLI emits for priors) and a float64 random variable:
    the loaded object evaluates like the directly constructed one at double precision (1e-12) and holding / sampling through it does not
    change the dtype of the shared x — under torch's own default dtype (float32) and under the CLI's (float64)"""
    def fn():
        import torch
        from torchtree.core.parameter import Parameter
        from torchtree.distributions.distributions import Distribution
        from vt.runner import default_dtype
        u = _utils()
        n, msgs = 0, []
        xs = [0.37, 1.91, 0.052]
        cases = [("torch.distributions.Normal", torch.distributions.Normal, {"loc": 0.1, "scale": 0.7}),
                 ("torch.distributions.Exponential", torch.distributions.Exponential, {"rate": [0.1, 1.3, 2.6]}),
                 ("torch.distributions.Gamma", torch.distributions.Gamma, {"concentration": 2.3, "rate": [0.7, 0.7, 1.9]}),
                 ("torch.distributions.LogNormal", torch.distributions.LogNormal, {"loc": [0.3, -0.2, 1.7], "scale": 0.45})]
        for dflt in (torch.float32, torch.float64):
            with default_dtype(dflt):
                for path, klass, params in cases:
                    dic = {}
                    xspec = {"id": "x", "type": "Parameter", "tensor": xs, "dtype": "torch.float64"}
                    loaded = u.process_object(Distribution.json_factory("d", path, xspec, dict(params)), dic)
                    X = Parameter("x", torch.tensor(xs, dtype=torch.float64))
                    direct = Distribution("d", klass, X, {k: Parameter(None, torch.tensor(v if isinstance(v, list) else [v], dtype=torch.float64)) for k, v in params.items()})
                    v1, v2 = loaded(), direct()
                    n += 1
                    if v1.shape != v2.shape or not torch.allclose(v1.to(torch.float64), v2, rtol=1e-12, atol=1e-12):
                        msgs.append("%s with literal parameters %s (default dtype %s): loaded object evaluates to %s (%s), directly constructed float64 object to %s"
                                    % (path, params, dflt, [round(float(t), 10) for t in v1.reshape(-1)], v1.dtype, [round(float(t), 10) for t in v2.reshape(-1)]))
                    if dic["x"].tensor.dtype != torch.float64:
                        msgs.append("%s: the registered x is %s after loading" % (path, dic["x"].tensor.dtype))
                    try:
                        torch.manual_seed(1)
                        loaded.sample()
                        if dic["x"].tensor.dtype != torch.float64:
                            msgs.append("%s (default dtype %s): after sample() through the loaded object the shared x is %s, it was float64" % (path, dflt, dic["x"].tensor.dtype))
                    except Exception:
                        pass
        if msgs:
            raise Refuted(msgs[0], witness={"factory": "Distribution (literal parameters)", "observed": msgs[:6]}, replay=None, confirmed=True)
        return {"backend": "concrete", "cases": n, "statement": "Distribution.json_factory with literal parameters: %d specifications evaluate like the direct float64 object to 1e-12" % n}
    return fn


def ob_sharing_generic():
    """U: a reference resolved before and after arbitrary contract-conforming registry activity yields one instance"""
    def fn():
        u = _utils()
        stats = {"paths": 0}
        fails = []

        def one(ch):
            run = jh.Run(["p"])
            R = jh.SymId("R", run.log)
            o = jh.Obj("pre:R")
            dict.__setitem__(run.dic, R, o)
            run.pre[R] = o
            got = []
            with jh.patched(u.__dict__, get_class=_no_get_class):
                for rnd in range(3):
                    got.append(jh.call_sub(run, u.process_object, ("r", R), R, (rnd,)))
                    for j in range(ch.choose(3, "activity")):
                        with run.log.as_("env"):
                            try:
                                po_contract(run, R, ch, u.JSONParseError, 10 * rnd + j)
                            except u.JSONParseError:
                                pass
            stats["paths"] += 1
            if any(g is not o for g in got) or check_sharing(run) or check_log(run):
                fails.append([repr(g) for g in got])
        jh.explore(one)
        if fails:
            raise Refuted("references to one id resolved to %s" % fails[0], witness={"observed": fails[:3]}, replay=None, confirmed=None)
        return {"backend": "proxy-exec", "cases": stats["paths"], "paths": stats["paths"],
                "statement": "three resolutions of reference R interleaved with any contract-conforming registrations: always the instance registered for R"}
    return fn


# ======================================================================================
# vacuity guards (must-fail twins) — a twin that is NOT refuted is a checker defect (exit 3)
# ======================================================================================

class InsertRecheck(jh.ast.NodeTransformer):
    """insert the proposed re-check before `dic[id_] = obj`"""

    def __init__(self):
        self.hits = 0

    def visit_Assign(self, node):
        t = node.targets[0]
        if isinstance(t, jh.ast.Subscript) and isinstance(t.value, jh.ast.Name) and t.value.id == "dic" \
                and isinstance(t.slice, jh.ast.Name) and isinstance(node.value, jh.ast.Name):
            self.hits += 1
            i_, o_ = t.slice.id, node.value.id      # the code's own names for the id and the constructed object
            chk = jh.ast.parse("if %s in dic and dic[%s] is not %s:\n    raise JSONParseError('already exists')" % (i_, i_, o_)).body[0]
            return [chk, node]
        return node


def _variant(kind):
    def mk():
        u = _utils()
        tr = {"drop_duplicate_check": jh.DropDuplicateCheck, "reference_returns_copy": jh.ReferenceReturnsCopy,
              "recheck_inserted": InsertRecheck}[kind]()
        return jh.variant(u.process_object, tr, kind)
    return mk


def must_fail(inner, what, expect_clause=None):
    def fn():
        try:
            inner()
        except Refuted as e:
            if expect_clause is not None and expect_clause not in json.dumps(e.witness, default=str) + e.detail:
                raise RuntimeError("twin '%s' was refuted, but not for clause %s: %s" % (what, expect_clause, e.detail[:300]))
            return {"backend": "twin", "cases": 1, "trivial": True,
                    "statement": "must-fail twin (%s) is refuted: %s" % (what, e.detail[:200])}
        raise RuntimeError("vacuity: must-fail twin '%s' was NOT refuted — the obligation cannot detect this defect" % what)
    return fn


def ob_noop_remove_comments():
    def inner():
        n = 0
        for shape in jh.json_shapes(2, 2, 2):
            x = jh.json_build(shape)
            if not _same_json(x, clean_oracle(copy.deepcopy(x))):
                raise Refuted("identity is not remove_comments", witness={"input": x})
            n += 1
    return inner


def ob_scan_twin():
    def inner():
        import shutil
        import tempfile
        d = tempfile.mkdtemp(prefix="c13scan")
        try:
            os.makedirs(os.path.join(d, "pkg"))
            with open(os.path.join(d, "pkg", "m.py"), "w") as f:
                f.write("class A:\n    @classmethod\n    def from_json(cls, data, dic):\n        o = cls()\n        dic[data['id']] = o\n        return o\n"
                        "class B:\n    @classmethod\n    def from_json(cls, data, dic):\n        dic.update({'x': 1})\n        d2 = dic\n        helper(dic)\n        return cls()\n"
                        "class C:\n    @classmethod\n    def from_json(cls, data, dic):\n        try:\n            process_object(data['x'], dic)\n        except Exception:\n            pass\n        return cls()\n")
            r = jh.frame_scan(os.path.join(d, "pkg"))
        finally:
            shutil.rmtree(d, ignore_errors=True)
        if len(r["flags"]) >= 4 and r["swallowed"]:
            raise Refuted("scan flags unguarded write, update, alias, unknown callee, swallowed error: %s" % r["flags"], witness=r["flags"])
    return inner


def ob_counts(tier):
    def fn():
        counts = {g: sum(1 for _ in gen()) for g, gen in tree_sets(tier).items()}
        counts["sequences"] = sum(1 for _ in zip(range(1000), sequence_items(tier)))
        counts["json_shapes"] = len(jh.json_shapes(2, 2, 2))
        counts["from_json_roots"] = jh.frame_scan(_repo_pkg())["roots"]
        counts["real_illformed"] = sum(len(v) for v in REAL_ILLFORMED.values())
        if any(v <= 0 for v in counts.values()):
            raise RuntimeError("vacuity: empty enumeration %s" % counts)
        return {"backend": "count", "cases": len(counts), "trivial": True, "counts": counts, "statement": "every enumeration is non-empty: %s" % counts}
    return fn


# ======================================================================================
# obligations
# ======================================================================================

def _quiet(fn):
    """from_json_safe / process_object report every parse error through logging.error: silence it for the run"""
    def run():
        import logging
        old = logging.root.manager.disable
        logging.disable(logging.CRITICAL)
        try:
            return fn()
        finally:
            logging.disable(old)
    return run


DEF_CLAUSES = {"definition", "otherwise", "errors", "complete"}
PO = ["torchtree.core.utils:process_object", "torchtree.core.serializable:JSONSerializable.from_json_safe"]


def obligations(tier, seed):
    obs = []

    def add(name, tag, fn, clause, funcs=PO, timeout=900):
        obs.append(Ob(name, tag, _quiet(fn), clause=clause, funcs=funcs, timeout=timeout))

    # --- U: generic node / modular
    add("C13.reference.generic", "U", ob_generic_reference(), "reference")
    add("C13.definition.generic", "U", ob_generic_node(DEF_CLAUSES), "definition")
    add("C13.frame.generic", "U", ob_generic_node({"frame", "footprint"}), "frame")
    add("C13.sharing.generic", "U", ob_sharing_generic(), "sharing")
    add("C13.otherwise.types", "U", ob_other_types(), "otherwise")
    add("C13.illformed.missing_keys", "U", ob_missing_keys(), "otherwise")
    add("C13.footprint.ast", "U", ob_footprint_ast(), "frame", funcs=FUNCS[:3])
    add("C13.process_objects.modular", "U", ob_process_objects(), "process_objects", funcs=FUNCS[1:2])
    add("C13.process_object_with_key.modular", "U", ob_with_key(), "process_objects", funcs=FUNCS[2:3])
    add("C13.from_json_safe.errors", "U", ob_from_json_safe(), "errors", funcs=FUNCS[6:7])
    add("C13.scan.writes", "U", ob_scan("writes"), "constructor frame", funcs=[])
    add("C13.scan.swallow", "U", ob_scan("swallow"), "constructor frame", funcs=[])
    # --- V: enumerated trees, real recursion
    for g in tree_sets(tier):
        add("C13.reference.trees[%s]" % g, "V", ob_trees(g, tier, {"reference"}), "reference")
        add("C13.definition.trees[%s]" % g, "V", ob_trees(g, tier, DEF_CLAUSES), "definition")
        add("C13.frame.trees[%s]" % g, "V", ob_trees(g, tier, {"frame", "footprint"}), "frame")
    add("C13.reference.sequences", "V", ob_sequences(tier, {"reference"}), "reference")
    add("C13.definition.sequences", "V", ob_sequences(tier, DEF_CLAUSES), "definition")
    add("C13.frame.sequences", "V", ob_sequences(tier, {"frame", "footprint"}), "frame")
    add("C13.sharing.sequences", "V", ob_sequences(tier, {"sharing"}), "sharing")
    add("C13.reference.range", "V", ob_range_reference(), "reference")
    add("C13.get_class.real", "V", ob_get_class(), "errors", funcs=FUNCS[3:4] + PO[:1])
    rc_bounds = [(1, 3, 3), (2, 2, 2), (3, 1, 1)] + ([(2, 3, 2), (3, 2, 1)] if tier == "thorough" else [])
    add("C13.remove_comments.enum", "V", ob_remove_comments_enum(rc_bounds), "comments", funcs=FUNCS[4:5])
    add("C13.remove_comments.node", "V", ob_remove_comments_node(4 if tier == "thorough" else 3), "comments", funcs=FUNCS[4:5])
    add("C13.expand_plates.enum", "V", ob_expand_plates(tier), "plates", funcs=FUNCS[5:6] + PO[:1])
    # --- B: real classes, concrete
    add("C13.frame.real.nested", "B", ob_real_illformed("nested"), "frame")
    add("C13.frame.real.siblings", "B", ob_real_illformed("siblings"), "frame")
    add("C13.frame.real.earlier", "B", ob_real_illformed("earlier"), "frame")
    add("C13.definition.real.selfregistering", "B", ob_real_selfregistering(), "definition")
    add("C13.reference.real.dangling", "B", ob_real_illformed("dangling"), "reference")
    add("C13.sharing.real", "B", ob_real_sharing(), "sharing")
    add("C13.comments.real", "B", ob_comments_no_effect(), "comments", funcs=FUNCS[4:5])
    add("C13.main_pipeline", "B", ob_main_pipeline(), "comments, ignored objects and plates through the real main() (bounded)", funcs=FUNCS[4:5])
    for w in ("Parameter", "derived parameters", "Distribution", "Distribution.refs", "DeterministicNormal", "BayesianBridge", "ScaleMixtureNormal"):
        add("C13.factory[%s]" % w, "B", ob_factory(w), "json_factory", funcs=[])
    add("C13.factory[Distribution, literal parameters]", "B", ob_factory_literals(), "json_factory", funcs=[])
    add("C13.factory[tree models x keep_branch_lengths]", "B", ob_factory_tree_models(), "json_factory", funcs=[])
    # --- G: vacuity guards
    drop, cpy, fixd = _variant("drop_duplicate_check"), _variant("reference_returns_copy"), _variant("recheck_inserted")
    add("C13.vacuity.definition.generic", "G", must_fail(ob_generic_node(DEF_CLAUSES, drop), "duplicate-id test removed / generic node", "definition"), "vacuity")
    add("C13.vacuity.definition.trees", "G", must_fail(ob_trees("d1w3", tier, DEF_CLAUSES, po_variant=drop), "duplicate-id test removed / trees", "definition"), "vacuity")
    add("C13.vacuity.reference.trees", "G", must_fail(ob_trees("d1w3", tier, {"reference"}, po_variant=cpy), "reference returns a copy", "reference"), "vacuity")
    add("C13.vacuity.frame.satisfiable.generic", "G", ob_generic_node({"frame", "footprint"} | DEF_CLAUSES, fixd), "vacuity")
    add("C13.vacuity.frame.satisfiable.trees", "G", ob_trees("d2w2r", tier, {"frame", "footprint", "reference"} | DEF_CLAUSES, po_variant=fixd), "vacuity")
    add("C13.vacuity.remove_comments", "G", must_fail(ob_noop_remove_comments(), "remove_comments replaced by a no-op"), "vacuity", funcs=[])
    add("C13.vacuity.scan", "G", must_fail(ob_scan_twin(), "from_json writing / aliasing the registry, swallowing errors"), "vacuity", funcs=[])
    add("C13.vacuity.counts", "G", ob_counts(tier), "vacuity", funcs=[])
    return obs


META = {
    "level": "proof",
    "explanation":
        "Claim at proof level (tag U): the registry clauses of process_object / process_objects / process_object_with_key / from_json_safe. "
        "Structural induction on the specification term t, for every registry dic and every family of constructors obeying the callee contract "
        "(calls process_object on sub-specifications any number of times in any order, may self-register under its own id after testing it, reads, "
        "never otherwise writes dic, does not swallow parse errors, returns a fresh object): process_object(t, dic) satisfies the contract "
        "{reference, definition, frame, errors}. Base case t:str — C13.reference.generic runs the real function on a recording str/dict pair and shows "
        "the result is old(dic)[t] or JSONParseError with dic identical; the access log shows dic is touched by one read at key t and the spelling of t "
        "is only inspected by `'{' in t` (range references are enumerated separately, V). t neither str nor dict / without id or type — "
        "C13.otherwise.types, C13.illformed.missing_keys. Step t:dict — process_object recurses only through the constructor, and constructors only "
        "call it on strict sub-terms, so the induction hypothesis applies to every recursive call. C13.definition.generic / C13.frame.generic execute "
        "the real process_object (and the real from_json_safe) on a generic node {id:I,type:T,...} whose constructor performs up to three actions, each "
        "a recursive call REPLACED BY THE CONTRACT (a stub that returns a fresh/registered object or raises, registering any ids that are unregistered "
        "at that moment — adversarially including I itself), a guarded self-registration, a dangling direct read, or an own error; all scenarios are "
        "explored (own id registered before or not, get_class returns / raises its three exception types). Three actions suffice: the access log proves "
        "process_object touches dic only by `I in dic` and `dic[I] = result` and reads data only at id/type, so its behaviour depends on the registry "
        "only through who registered I (nobody / a sub-specification / the constructor), and every such state is reached within three actions; "
        "C13.footprint.ast shows the same footprint syntactically on every path. The per-node postcondition is the contract itself, which closes the "
        "induction. The constructor contract is justified for all from_json of the repository by the AST frame scan (C13.scan.*). Sharing follows from "
        "reference (a reference returns the registered instance) and frame (a registered id is never re-bound); C13.sharing.generic checks it directly. "
        "Cross-validation (V): all trees of depth<=3/width<=2..3 with every id-equality pattern, every subset of ids registered before, every constructor "
        "call sequence, real recursion, every observed call at every depth checked against the same contract; two-element top-level sequences. "
        "Not in the proof-level claim: remove_comments / expand_plates are V (bounded shapes; remove_comments additionally modular per node), "
        "json_factory round trips and real-class specifications are B (concrete).",
    "bound": "U: unbounded depth/width/ids (generic node, <=3 constructor actions by state saturation). V trees: depth<=3, width<=3, <=5 id occurrences "
             "(quick) / <=6 (thorough), all equality patterns x registered subsets x call sequences (k or k+1 calls for k children); sequences of 2 "
             "specifications; range references s{a:b} a,b<=3; JSON shapes (depth,width,dict width) in (1,3,3),(2,2,2),(3,1,1) [+ (2,3,2),(3,2,1) thorough]; "
             "plates: lists of <=2 (quick) / 3 (thorough) elements. B: 16 ill-formed real specifications, 14 factory round trips.",
    "exhaustive": False,
    "trusted_base": [
        "CPython executes the real functions; dict/str subclasses (vt.jsonheap.RecDict, SymId) are faithful recording proxies "
        "(no `type(x) is dict/str` test in the functions under contract: they use isinstance)",
        "assumed contract of get_class (returns a class or raises ModuleNotFoundError/AttributeError/ValueError) — cross-checked on the real get_class by C13.get_class.real",
        "assumed constructor contract for classes outside the repository (plug-ins); for repository classes it is checked by the AST frame scan, "
        "which resolves callees by simple name and does not follow `dic` stored into objects (such a store is flagged)",
        "the AST scan is syntactic: it trusts that names process_object/process_objects/process_object_with_key in a from_json refer to torchtree.core.utils",
        "vt.jsonheap.explore enumerates all choice sequences of the stubs (fails closed on a budget)",
    ],
    "assumptions": [
        "constructors call process_object only on strict sub-specifications or on freshly synthesised specifications (well-foundedness of the induction)",
        "constructors do not swallow JSONParseError (scanned: C13.scan.swallow) and return a fresh object",
        "ids are hashable JSON strings; equality of ids is string equality",
        "an empty range reference 's{a:a}' and a malformed one are rejected by UnboundLocalError / ValueError, not JSONParseError: recorded, not demanded by the statement "
        "(it refers to no id); expand_plates with an empty range directly followed by another plate leaves that plate unexpanded (later rejected at load): outside the enumerated domain",
        "tag G = vacuity guards (must-fail twins on compiled copies of process_object, satisfiability of the frame clause by the copy with the re-check inserted, non-empty enumerations)",
    ],
    "rule": "one case = one named obligation (contract clause x generic node | tree group | concrete family); each obligation explores all scenarios / trees of its group; "
            "non-trivial = executed the real function at least once and compared against the contract",
}

MANIFEST = {
    "category": "proof",
    "text": "The real process_object / process_objects / process_object_with_key / JSONSerializable.from_json_safe are executed on recording "
            "registry and identifier proxies. A generic definition node whose recursive calls are replaced by the contract of process_object itself "
            "(adversarially registering any unregistered id, including the node's own) and whose constructor is an adversarial callback is explored "
            "exhaustively; with the reference base case and the AST frame scan of all 92 from_json this is a structural induction over all "
            "specifications: references resolve to the one registered instance, a registered id is never re-bound, an id registered at entry is "
            "rejected before construction, every id gets exactly one object, the only error type is JSONParseError.",
    "note": "Proof-level claim covers the registry clauses only. Enumerated trees (depth<=3, width<=3, <=5/6 id occurrences, all equality patterns) "
            "cross-validate with real recursion (V). remove_comments / expand_plates are bounded (V), json_factory round trips and real-class "
            "specifications are concrete (B) and not counted as proved. Constructor contract assumed for classes outside the repository. "
            "Malformed / empty range references raise ValueError / UnboundLocalError rather than JSONParseError (recorded, not claimed).",
    "technique": "sidecar contracts on real functions + recording heap proxies + modular (contract-for-callee) structural induction + "
                 "exhaustive choice exploration by re-execution + AST frame scan",
}
