"""C05 — among-site rate models keep the mean rate at one (DESIGN 4, C05).

Contracts (postconditions written from the property statement) on the real
ConstantSiteModel / InvariantSiteModel / WeibullSiteModel objects:
  Σ_k p_k ≡ 1, p_k ≥ 0, r_k ≥ 0, invariant category r_0 is the zero term and p_0 ≡ invariant,
  Σ_k p_k r_k ≡ μ (1 without μ).
Shapes: K = 1..16 (the property's own bound, exhaustive), ± invariant, ± μ, parameter batch shapes.
"""
import torch

from vt.runner import Refuted
from vt.scenario import scenario_ob

FUNCS = [
    "torchtree.evolution.site_model:ConstantSiteModel.rates",
    "torchtree.evolution.site_model:ConstantSiteModel.probabilities",
    "torchtree.evolution.site_model:InvariantSiteModel.update_rates_probs",
    "torchtree.evolution.site_model:InvariantSiteModel.rates",
    "torchtree.evolution.site_model:InvariantSiteModel.probabilities",
    "torchtree.evolution.site_model:UnivariateDiscretizedSiteModel.__init__",
    "torchtree.evolution.site_model:UnivariateDiscretizedSiteModel.update_rates",
    "torchtree.evolution.site_model:UnivariateDiscretizedSiteModel.rates",
    "torchtree.evolution.site_model:UnivariateDiscretizedSiteModel.probabilities",
    "torchtree.evolution.site_model:WeibullSiteModel.inverse_cdf",
]

META = {
    "level": "proof",
    "explanation": "Each obligation runs the real site-model methods on symbolic parameters (all real values in the "
                   "domain at once) for one shape configuration and proves the five postconditions by exact normal "
                   "form / z3. Category counts 1..16 are enumerated completely, which is the property's own bound.",
    "bound": "K=1..16 exhaustive (thorough; quick: 1..6,16); batch shapes (),(2,),(2,3)",
    "exhaustive": True,
    "trusted_base": [
        "real arithmetic (IEEE rounding not modelled)",
        "vt.nf rewrite rules: exp(a+b)=exp a exp b, pow(c,e)=exp(e log c) for c>0",
        "the Weibull quantile constants -log(1-q_k) are treated as the exact rationals of the doubles torch computes; only their positivity is used",
    ],
    "assumptions": ["machine arithmetic treated as mathematical (reals)",
                    "Parameter objects hold the symbolic tensor unchanged (core.parameter.Parameter.tensor getter, executed natively)"],
}


def _claims(mk, rates, probs, mu, invariant):
    cl = []
    rates, probs = mk.lift(rates), mk.lift(probs)
    cl.append(("eq", "sum_p_is_1", probs.sum(-1), torch.ones(probs.shape[:-1]) if probs.dim() > 1 else 1.0))
    cl.append(("eq", "rates_value", rates, rates))   # exposes the rates to the relational checks (C10, C12)
    cl.append(("ge0", "p_nonneg", probs))
    cl.append(("ge0", "r_nonneg", rates))
    r, p = torch.broadcast_tensors(rates, probs)
    mean = (r * p).sum(-1)
    if mu is None:
        cl.append(("eq", "mean_rate_is_1", mean, torch.ones(mean.shape) if mean.dim() > 0 else 1.0))
    else:
        m = mu[..., 0]
        m, mean = torch.broadcast_tensors(m, mean)
        cl.append(("eq", "mean_rate_is_mu", mean, m))
    if invariant is not None:
        cl.append(("zero", "invariant_rate_zero", rates[..., 0]))
        p0, inv = torch.broadcast_tensors(probs[..., 0], invariant[..., 0])
        cl.append(("eq", "invariant_prob", p0, inv))
    return cl


def scn_constant(batch, with_mu):
    def scn(mk):
        from torchtree.core.parameter import Parameter
        from torchtree.evolution.site_model import ConstantSiteModel
        mu = mk.real("mu", batch + (1,), lo=0) if with_mu else None
        m = ConstantSiteModel("sm", Parameter("mu", mu) if with_mu else None)
        return _claims(mk, m.rates(), m.probabilities(), mu, None)
    return scn


def scn_invariant(batch, with_mu, mu_batch=None):
    def scn(mk):
        from torchtree.core.parameter import Parameter
        from torchtree.evolution.site_model import InvariantSiteModel
        inv = mk.real("inv", batch + (1,), lo=0, hi=1, lo_incl=True)
        mu = mk.real("mu", (mu_batch if mu_batch is not None else batch) + (1,), lo=0) if with_mu else None
        m = InvariantSiteModel("sm", Parameter("inv", inv), Parameter("mu", mu) if with_mu else None)
        rates, probs = m.rates(), m.probabilities()
        return _claims(mk, rates, probs, mu, inv)
    return scn


def scn_weibull(K, batch, with_inv, with_mu):
    def scn(mk):
        from torchtree.core.parameter import Parameter
        from torchtree.evolution.site_model import WeibullSiteModel
        shape = mk.real("shape", batch + (1,), lo=0)
        inv = mk.real("inv", batch + (1,), lo=0, hi=1, lo_incl=True) if with_inv else None
        mu = mk.real("mu", batch + (1,), lo=0) if with_mu else None
        m = WeibullSiteModel("sm", Parameter("shape", shape), K,
                             Parameter("inv", inv) if with_inv else None,
                             Parameter("mu", mu) if with_mu else None)
        rates, probs = m.rates(), m.probabilities()
        cl = _claims(mk, rates, probs, mu, inv)
        cl.append(("true", "category_count", rates.shape[-1] == K + (1 if with_inv else 0)))
        return cl
    return scn


def scn_sequence(kind, order, with_inv=True, with_mu=True, update=("inv", "mu"), K=3):
    """the postconditions hold for the CURRENT parameter values after an update through the public setter, whatever the
    order in which rates() and probabilities() are requested (order: string over {r,p}), for every combination of optional
    parameters; the returned rates / probabilities are those of a fresh model at the current values"""
    def scn(mk):
        from torchtree.core.parameter import Parameter
        from torchtree.evolution.site_model import InvariantSiteModel, WeibullSiteModel
        inv1 = mk.real("inv1", (1,), lo=0, hi=1, lo_incl=True)
        inv2 = mk.real("inv2", (1,), lo=0, hi=1, lo_incl=True)
        mu1 = mk.real("mu1", (1,), lo=0)
        mu2 = mk.real("mu2", (1,), lo=0)
        pinv = Parameter("inv", inv1) if (with_inv or kind == "invariant") else None
        pmu = Parameter("mu", mu1) if with_mu else None

        def build(pi_, pm_, ps_):
            if kind == "invariant":
                return InvariantSiteModel("sm", pi_, pm_)
            return WeibullSiteModel("sm", ps_, K, pi_, pm_)
        pshape = None
        if kind != "invariant":
            shape1 = mk.real("shape", (1,), lo=0)
            shape2 = mk.real("shape2", (1,), lo=0)
            pshape = Parameter("shape", shape1)
        m = build(pinv, pmu, pshape)
        m.rates(), m.probabilities()
        cur_inv, cur_mu = (inv1 if pinv is not None else None), (mu1 if pmu is not None else None)
        cur_shape = None if pshape is None else shape1
        if "inv" in update and pinv is not None:
            pinv.tensor = inv2
            cur_inv = inv2
        if "mu" in update and pmu is not None:
            pmu.tensor = mu2
            cur_mu = mu2
        if "shape" in update and pshape is not None:
            pshape.tensor = shape2
            cur_shape = shape2
        got = {}
        for ch in order:
            got[ch] = m.rates() if ch == "r" else m.probabilities()
        rates = got.get("r", m.rates())
        probs = got.get("p", m.probabilities())
        fresh = build(None if cur_inv is None else Parameter("inv_f", cur_inv), None if cur_mu is None else Parameter("mu_f", cur_mu),
                      None if cur_shape is None else Parameter("shape_f", cur_shape))
        cl = _claims(mk, rates, probs, cur_mu, cur_inv)
        cl.append(("eq", "rates_are_those_of_a_fresh_model_at_the_current_values", mk.lift(rates), mk.lift(fresh.rates())))
        cl.append(("eq", "probabilities_are_those_of_a_fresh_model_at_the_current_values", mk.lift(probs), mk.lift(fresh.probabilities())))
        return cl
    return scn


def scn_notification(kind, which, with_inv=True, with_mu=True, K=3):
    """ordering postcondition of handle_parameter_changed: when the model announces a change to its listeners it is already marked stale,
    so a listener that asks for rates() / probabilities() INSIDE the notification (another model recomputing eagerly, a logger) gets the
    values of the parameters as they are at that moment - the parameter already holds the new value"""
    def scn(mk):
        from torchtree.core.parameter import Parameter
        from torchtree.evolution.site_model import InvariantSiteModel, WeibullSiteModel
        v1 = {"inv": mk.real("inv1", (1,), lo=0, hi=1, lo_incl=True), "mu": mk.real("mu1", (1,), lo=0), "shape": mk.real("shape1", (1,), lo=0)}
        v2 = {"inv": mk.real("inv2", (1,), lo=0, hi=1, lo_incl=True), "mu": mk.real("mu2", (1,), lo=0), "shape": mk.real("shape2", (1,), lo=0)}
        use = {"inv": with_inv or kind == "invariant", "mu": with_mu, "shape": kind != "invariant"}
        ps = {k: (Parameter(k, v1[k]) if use[k] else None) for k in v1}

        def build(vals):
            q = {k: (None if vals[k] is None else Parameter(k + "_f", vals[k])) for k in vals}
            if kind == "invariant":
                return InvariantSiteModel("sm_f", q["inv"], q["mu"])
            return WeibullSiteModel("sm_f", q["shape"], K, q["inv"], q["mu"])
        m = InvariantSiteModel("sm", ps["inv"], ps["mu"]) if kind == "invariant" else WeibullSiteModel("sm", ps["shape"], K, ps["inv"], ps["mu"])
        m.rates(), m.probabilities()      # caches warm, as in the middle of a run
        seen = []

        class Eager:
            def handle_model_changed(self, model, obj, index):
                seen.append((model.rates(), model.probabilities()))
        m.add_model_listener(Eager())
        ps[which].tensor = v2[which]
        cur = {k: (None if not use[k] else (v2[k] if k == which else v1[k])) for k in v1}
        fresh = build(cur)
        cl = [("true", "listener_notified", len(seen) >= 1, "%d notifications" % len(seen))]
        for r, p in seen:
            cl.append(("eq", "rates_read_inside_the_notification_are_current", mk.lift(r), mk.lift(fresh.rates())))
            cl.append(("eq", "probabilities_read_inside_the_notification_are_current", mk.lift(p), mk.lift(fresh.probabilities())))
        return cl
    return scn


def scn_sequence_views(kind, through, order, K=3):
    """as scn_sequence, with the parameters of the model held as VIEWS of one packed vector [shape, inv, mu] (what the command line
    builds for partitioned data), the new values assigned through: 'own' the model's own views, 'parent' the packed parameter,
    'block' another view that overlaps all three, 'sibling' views created separately over the same entries"""
    def scn(mk):
        from torchtree.core.parameter import Parameter, ViewParameter
        from torchtree.evolution.site_model import InvariantSiteModel, WeibullSiteModel
        v1 = [mk.real("shape1", (1,), lo=0), mk.real("inv1", (1,), lo=0, hi=1, lo_incl=True), mk.real("mu1", (1,), lo=0)]
        v2 = [mk.real("shape2", (1,), lo=0), mk.real("inv2", (1,), lo=0, hi=1, lo_incl=True), mk.real("mu2", (1,), lo=0)]
        cat = (lambda xs: torch.cat(xs, -1))
        parent = Parameter("packed", cat(v1))
        own = [ViewParameter("v%d" % i, parent, slice(i, i + 1)) for i in range(3)]

        def build(ps_, pi_, pm_):
            if kind == "invariant":
                return InvariantSiteModel("sm", pi_, pm_)
            return WeibullSiteModel("sm", ps_, K, pi_, pm_)
        m = build(*own)
        m.rates(), m.probabilities()
        if through == "own":
            for v, new in zip(own, v2):
                v.tensor = new
        elif through == "parent":
            parent.tensor = cat(v2)
        elif through == "block":
            ViewParameter("block", parent, slice(0, 3)).tensor = cat(v2)
        else:
            for i, new in enumerate(v2):
                ViewParameter("s%d" % i, parent, slice(i, i + 1)).tensor = new
        got = {}
        for ch in order:
            got[ch] = m.rates() if ch == "r" else m.probabilities()
        rates = got.get("r", m.rates())
        probs = got.get("p", m.probabilities())
        fresh = build(Parameter("shape_f", v2[0]), Parameter("inv_f", v2[1]), Parameter("mu_f", v2[2]))
        cl = _claims(mk, rates, probs, v2[2], v2[1])
        cl.append(("eq", "rates_are_those_of_a_fresh_model_at_the_current_values", mk.lift(rates), mk.lift(fresh.rates())))
        cl.append(("eq", "probabilities_are_those_of_a_fresh_model_at_the_current_values", mk.lift(probs), mk.lift(fresh.probabilities())))
        return cl
    return scn


def ob_models_one_process():
    """several site models built in one process - other category counts, another dtype, with / without invariant class, built BEFORE the model
    under test: the model under test (float64) still has probabilities exactly 1/K (or p, (1-p)/K), float64, and mean rate mu to 1e-14"""
    def body():
        from torchtree.core.parameter import Parameter
        from torchtree.evolution.site_model import InvariantSiteModel, WeibullSiteModel
        from vt.runner import default_dtype
        P = lambda v, dt: Parameter(None, torch.tensor(v, dtype=dt))
        n = 0
        # the library's own default dtype is float32 (tensors built without a dtype, e.g. from arange, follow it); the checker's is float64
        for first_dtype, dflt in ((torch.float32, torch.float64), (torch.float64, torch.float64), (torch.float64, torch.float32)):
          with default_dtype(dflt):
            for K in (1, 2, 3, 5, 6, 7, 10):
                # models built first, in the same process
                WeibullSiteModel("w32", P([0.7], first_dtype), K).rates()
                WeibullSiteModel("w32i", P([0.7], first_dtype), K, P([0.2], first_dtype)).probabilities()
                InvariantSiteModel("i32", P([0.3], first_dtype)).rates()
                for with_inv, with_mu in ((False, False), (False, True), (True, True)):
                    inv = P([0.25], torch.float64) if with_inv else None
                    mu = P([2.5], torch.float64) if with_mu else None
                    m = WeibullSiteModel("w", P([0.45], torch.float64), K, inv, mu)
                    r, p = m.rates(), m.probabilities()
                    n += 1
                    want_p = [0.25] + [0.75 / K] * K if with_inv else [1.0 / K] * K
                    problems = []
                    if p.dtype != torch.float64 or r.dtype != torch.float64:
                        problems.append("dtype of probabilities / rates is %s / %s for float64 parameters" % (p.dtype, r.dtype))
                    if any(abs(float(a) - b) > 1e-15 for a, b in zip(p.reshape(-1), want_p)):
                        problems.append("probabilities %s, expected %s" % ([float(v) for v in p.reshape(-1)], want_p))
                    mean = float((r.double() * torch.tensor(want_p, dtype=torch.float64)).sum())
                    if abs(mean - (2.5 if with_mu else 1.0)) > 1e-13:
                        problems.append("weighted mean rate %r, expected %r" % (mean, 2.5 if with_mu else 1.0))
                    if problems:
                        raise Refuted("Weibull site model (K=%d, invariant=%s, mu=%s, float64) built after %s models of the same category count: %s" % (
                            K, with_inv, with_mu, str(first_dtype)[6:], "; ".join(problems)), witness={"K": K, "first_dtype": str(first_dtype)}, confirmed=True,
                            replay={"kind": "custom", "contract": "C05", "func": "replay_models_one_process", "args": {}})
        return {"backend": "concrete", "cases": n, "bounded": "K in 1,2,3,5,6,7,10; models of float32 / float64 built first",
                "statement": "%d site models built after other models in the same process have exact probabilities, float64 results and mean rate mu" % n}
    from vt.runner import Ob
    return Ob("C05.models_in_one_process", "B", body, clause="the postconditions do not depend on which site models were built before (bounded)", funcs=FUNCS)


def _inplace_reassign_problems():
    """the idiom the library's own operators use to update a parameter: take its tensor, modify it in place, assign it back
    (`t = p.tensor; t[i] *= s; p.tensor = t`): the model must describe the NEW values"""
    from torchtree.core.parameter import Parameter
    from torchtree.evolution.site_model import InvariantSiteModel, WeibullSiteModel
    t64 = lambda v: torch.tensor(v, dtype=torch.float64)
    bad, n = [], 0
    for kind in ("invariant", "weibull"):
        for which in ("inv", "mu", "shape"):
            if kind == "invariant" and which == "shape":
                continue
            ps = {"inv": Parameter("inv", t64([0.15])), "mu": Parameter("mu", t64([1.7])), "shape": Parameter("shape", t64([0.6]))}
            m = InvariantSiteModel("sm", ps["inv"], ps["mu"]) if kind == "invariant" else WeibullSiteModel("sm", ps["shape"], 3, ps["inv"], ps["mu"])
            m.rates(), m.probabilities()
            t = ps[which].tensor
            with torch.no_grad():
                t.mul_(2.0)
            ps[which].tensor = t
            r, p_ = m.rates(), m.probabilities()
            q = {k: Parameter(k + "_f", v.tensor.detach().clone()) for k, v in ps.items()}
            f = InvariantSiteModel("f", q["inv"], q["mu"]) if kind == "invariant" else WeibullSiteModel("f", q["shape"], 3, q["inv"], q["mu"])
            n += 1
            mean = float((r * p_).sum())
            if not torch.allclose(r, f.rates(), rtol=1e-12, atol=1e-14) or not torch.allclose(p_, f.probabilities(), rtol=1e-12, atol=1e-14):
                bad.append("%s site model, %s doubled in place and assigned back (p.tensor = t): rates %s / probabilities %s, a fresh model at the current values has %s / %s "
                           "(weighted mean rate %.6g, relative rate now %.6g, invariant proportion now %.6g)" % (
                               kind, which, r.tolist(), p_.tolist(), f.rates().tolist(), f.probabilities().tolist(), mean, float(ps["mu"].tensor), float(ps["inv"].tensor)))
    return bad, n


def ob_inplace_reassign():
    def body():
        bad, n = _inplace_reassign_problems()
        if bad:
            raise Refuted(bad[0], witness={"problems": bad}, confirmed=True, replay={"kind": "custom", "contract": "C05", "func": "replay_inplace_reassign", "args": {}})
        return {"backend": "concrete", "cases": n, "statement": "%d updates by in-place edit + assignment of the same tensor object: rates and probabilities are those of the current values" % n}
    from vt.runner import Ob
    return Ob("C05.sequence.inplace_then_reassign", "B", body, clause="postconditions hold for the current values after an update written as in-place edit + re-assignment (the operators' idiom)", funcs=FUNCS)


def replay_inplace_reassign(args):
    bad, _ = _inplace_reassign_problems()
    return (False, bad[0]) if bad else (True, "held")


def replay_models_one_process(args):
    from vt.runner import Refuted
    try:
        ob_models_one_process().fn()
    except Refuted as e:
        return False, e.detail
    return True, "held"


def obligations(tier, seed):
    obs = []
    META["exhaustive"] = (tier == "thorough")   # K = 1..16 is enumerated completely only in the thorough tier

    def add(name, factory, args, clause):
        obs.append(scenario_ob("C05", name, "V", factory, args, clause=clause, funcs=FUNCS, seed=seed))

    batches = [(), (2,), (1,)] if tier == "quick" else [(), (2,), (2, 3), (1,), (1, 2)]
    for b in batches:
        for with_mu in (False, True):
            add("C05.constant[batch=%s,mu=%s]" % (b, with_mu), "scn_constant", (b, with_mu), "constant site model")
            add("C05.invariant[batch=%s,mu=%s]" % (b, with_mu), "scn_invariant", (b, with_mu), "invariant site model")
    for kind in ("invariant", "weibull"):
        for order in ("rp", "pr", "ppr", "prp"):
            add("C05.sequence.%s[update then %s]" % (kind, order), "scn_sequence", (kind, order), "postconditions hold for the current values after an update, in any request order")
    # every combination of optional parameters x which parameter is updated x request order (r first / p first / only one of them)
    for with_inv in (False, True):
        for with_mu in (False, True):
            ups = [u for u in ("shape", "inv", "mu") if u == "shape" or (u == "inv" and with_inv) or (u == "mu" and with_mu)]
            for up in [(u,) for u in ups] + ([tuple(ups)] if len(ups) > 1 else []):
                for order in ("rp", "pr", "r", "p"):
                    for K_ in ((1, 3) if tier == "quick" else (1, 2, 3, 4)):
                        add("C05.sequence.weibull[K=%d,inv=%s,mu=%s,update %s then %s]" % (K_, with_inv, with_mu, "+".join(up), order), "scn_sequence",
                            ("weibull", order, with_inv, with_mu, up, K_), "postconditions hold for the current values after an update, in any request order")
    obs.append(ob_models_one_process())
    obs.append(ob_inplace_reassign())
    for which in ("inv", "mu"):
        add("C05.notification.invariant[update %s]" % which, "scn_notification", ("invariant", which), "a listener reading the model inside the change notification sees the current values")
    for K_ in (1, 3):
        for which in ("shape", "inv", "mu"):
            add("C05.notification.weibull[K=%d,update %s]" % (K_, which), "scn_notification", ("weibull", which, True, True, K_),
                "a listener reading the model inside the change notification sees the current values")
    for kind in ("invariant", "weibull"):
        for through in ("own", "parent", "block", "sibling"):
            for order in ("rp", "pr"):
                add("C05.sequence.views.%s[assigned through %s, then %s]" % (kind, through, order), "scn_sequence_views", (kind, through, order),
                    "postconditions hold for the current values when the parameters are views of a shared vector")
    for with_mu in (False, True):
        for up in (("inv",),) + ((("mu",), ("inv", "mu")) if with_mu else ()):
            for order in ("rp", "pr", "r", "p"):
                add("C05.sequence.invariant[mu=%s,update %s then %s]" % (with_mu, "+".join(up), order), "scn_sequence",
                    ("invariant", order, True, with_mu, up), "postconditions hold for the current values after an update, in any request order")
    Ks = [1, 2, 3, 4, 5, 6, 16] if tier == "quick" else list(range(1, 17))
    for K in Ks:
        for b in batches:
            if tier == "quick" and b != () and K not in (1, 4):
                continue
            for with_inv in (False, True):
                for with_mu in (False, True):
                    add("C05.weibull[K=%d,batch=%s,inv=%s,mu=%s]" % (K, b, with_inv, with_mu),
                        "scn_weibull", (K, b, with_inv, with_mu), "discretised Weibull site model")
    return obs

MANIFEST = {
    "category": "proof",
    "text": "The real site-model methods are executed on symbolic parameters; for each enumerated shape "
            "(K=1..16 is the property's own bound, with/without invariant and relative rate, batch shapes (),(2,),(2,3)) "
            "the five postconditions (sum p=1, p>=0, r>=0, invariant category, weighted mean = mu) are proved for all "
            "real parameter values by exact polynomial normal form and z3. Over the reals this is complete for the property as stated.",
    "note": "Real arithmetic instead of IEEE doubles; float literals within one rounding of a small rational denote that rational; "
            "torch ops used (cat, pow, log, sum, expand, arange) carry the mathematical meaning given in vt.symtorch, guarded by a "
            "numeric cross-check against real torch on every run.",
    "technique": "sidecar contracts on real functions + symbolic execution via __torch_function__ + exact normal form / z3",
}
