"""C12 — gradients are the derivatives of the reported densities (DESIGN 4, C12).

Ghost `sg` (stop-gradient): while a density is evaluated, every operation that cuts the autograd graph
(`detach`, results computed under `torch.no_grad()`, `.item()`, `torch.tensor(<tensors>)`) wraps its result in
the opaque marker sg(.), whose derivative is zero — this is what back-propagation sees.  Contract, for every
density and every continuous input v it depends on, on every path (i.e. away from ties):

     d/dv value  [sg treated as a constant, then erased]   ≡   d/dv value  [sg erased first]

and hence no parameter that influences the value receives a missing or zero gradient.  Integer / boolean
intermediate results (argsort indices, masks) are piecewise constant and carry no derivative on a path.
In concrete mode (cross-check / replay) the real autograd gradient is compared with central finite differences.
The densities are the scenarios of C01, C03, C05, C06/C07 (Jacobian terms), C08, C20 re-used verbatim, plus
CTMC scale and the compound gamma-Dirichlet tree prior.
"""
import importlib
import itertools

import numpy as np
import torch

from vt import nf, symtorch
from vt.cond import Infeasible, Undecided
from vt.stubs import symbolic_factories
from vt.runner import Ob, Refuted
from vt.scenario import MkNum, _flat, _raised_in_repo, el, scenario_ob
from vt.symtorch import ST

FUNCS = [
    "torchtree.evolution.tree_likelihood:calculate_treelikelihood_discrete",
    "torchtree.evolution.tree_likelihood:calculate_treelikelihood_discrete_rescaled",
    "torchtree.evolution.tree_likelihood:TreeLikelihoodModel._call",
    "torchtree.evolution.tree_height_transform:GeneralNodeHeightTransform._call",
    "torchtree.evolution.tree_height_transform:GeneralNodeHeightTransform.log_abs_det_jacobian",
    "torchtree.evolution.tree_height_transform:DifferenceNodeHeightTransform._call",
    "torchtree.evolution.site_model:UnivariateDiscretizedSiteModel.update_rates",
    "torchtree.evolution.site_model:InvariantSiteModel.update_rates_probs",
    "torchtree.evolution.coalescent:ConstantCoalescent.log_prob",
    "torchtree.evolution.coalescent:ExponentialCoalescent.log_prob",
    "torchtree.evolution.coalescent:PiecewiseConstantCoalescent.log_prob",
    "torchtree.evolution.coalescent:PiecewiseConstantCoalescentGrid.log_prob",
    "torchtree.evolution.coalescent:PiecewiseLinearCoalescentGrid.log_prob",
    "torchtree.distributions.gmrf:GMRF._call",
    "torchtree.distributions.gmrf_integrated:GMRFGammaIntegrated._call",
    "torchtree.distributions.ctmc_scale:CTMCScale._call",
    "torchtree.distributions.tree_prior:CompoundGammaDirichletPrior._call",
]

META = {
    "level": "other",
    "explanation": "For each density scenario (same shapes as the owning property) the value term is differentiated twice, once with the "
                   "stop-gradient markers opaque (what autograd propagates) and once with the markers erased (the true derivative); "
                   "the two are proved identical for every input variable on every path. Autograd itself is trusted per primitive; "
                   "the list of graph-cutting operations is fixed (detach, no_grad, item, torch.tensor of tensors).",
    "bound": "shapes of the owning properties (trees T<=4, grids<=3, field length<=8); BDSK densities are covered by C09's scenarios only if present",
    "trusted_base": [
        "torch autograd is correct per primitive (chain rule per op) — the symbolic derivative rules of vt.nf.diff stand for it and are cross-checked against real autograd + finite differences on every run",
        "the graph-cutting operations are exactly: detach, results under torch.no_grad(), .item()/float(), torch.tensor(list of tensors); integer/bool results",
        "real arithmetic",
    ],
    "assumptions": ["machine arithmetic treated as mathematical (reals)"],
}

MANIFEST = {
    "category": "other",
    "text": "Stop-gradient ghost analysis of the real densities: the derivative back-propagation sees (graph cuts as constants) is proved "
            "identical to the true symbolic derivative of the returned value for every continuous input, on every path, for the shapes "
            "of the owning properties; concretely cross-checked with real autograd vs finite differences.",
    "note": "Autograd trusted per primitive; shape-bounded like the owning properties; away from ties by construction (per path).",
    "technique": "ghost stop-gradient markers in the symbolic shim + symbolic differentiation of the terms produced by the real code + exact normal form",
}


def _value_claims(cl, pick):
    for c in cl:
        if c[0] == "eq" and (pick is None or c[1] == pick):
            return c
    raise RuntimeError("no value claim %r in %s" % (pick, [c[1] for c in cl]))


def scn_grad(contract, factory, args, pick=None, extra=None):
    """wraps the density scenario contracts.<contract>.<factory>(*args): the value is the lhs of claim `pick`"""
    def scn(mk):
        mod = importlib.import_module("contracts.%s" % contract)
        base = getattr(mod, factory)(*[tuple(a) if isinstance(a, list) else a for a in args])
        if mk.symbolic:
            symtorch.SG_MODE[0] = True
            try:
                cl = base(mk)
            finally:
                symtorch.SG_MODE[0] = False
            c = _value_claims(cl, pick)
            vals, _ = _flat(c[2])
            S = nf.ZERO
            for v in vals:
                S = S + nf.as_rf(v)
            S_true = nf.unwrap(S)
            names = []
            for d in mk.decls:
                names += [d.name] if d.shape == () else ["%s[%s]" % (d.name, ",".join(map(str, ix))) for ix in np.ndindex(*d.shape)]
            seen = nf.variables(S_true)
            out, nz = [], 0
            # numeric pre-check at a point of the current path (40-digit mpmath): a stop-gradient that does NOT cancel makes the symbolic
            # unwrapping below explode, while the disagreement is plain at any point -> refuted here, replayed on the real autograd
            from vt.cond import current_path
            from vt.scenario import find_point, _num_claim_holds
            import mpmath
            import random as _random
            env0 = find_point(mk.decls, list(current_path()) + [c for c in mk.requires if c is not True], _random.Random(1), fns=None)
            for v in names:
                if v not in seen:
                    continue
                d_true = nf.diff(S_true, v)
                d_raw = nf.diff(S, v)
                if env0 is not None:
                    try:
                        with mpmath.workdps(40):
                            va = nf.evaluate(d_raw, env0, {"sg": lambda z: z}, mp=mpmath)
                            vt = nf.evaluate(d_true, env0, {}, mp=mpmath)
                            differ = abs(va - vt) > mpmath.mpf(10) ** -20 * max(1, abs(vt))
                    except Exception:
                        differ = False
                    if differ:
                        confirmed = None
                        try:
                            confirmed = any(not _num_claim_holds(cl_, 1e-6) for cl_ in scn(MkNum(env0)))
                        except Exception:
                            confirmed = None
                        raise Refuted("d/d %s: the derivative visible to autograd is %s, the derivative of the reported value is %s at %s"
                                      % (v, mpmath.nstr(va, 12), mpmath.nstr(vt, 12), env0),
                                      witness={"variable": v, "env": env0, "autograd_visible": float(va), "true": float(vt)},
                                      replay={"contract": "C12", "factory": "scn_grad", "args": [contract, factory, list(args), pick], "env": env0}, confirmed=confirmed)
                d_auto = nf.unwrap(d_raw)
                out.append(("eq", "d/d %s: autograd-visible = true derivative" % v, [d_auto], [d_true]))
                if not nf.is_zero(d_true):
                    nz += 1
            out.append(("true", "value_depends_on_inputs", nz > 0, "no input variable influences the value"))
            return out
        # concrete: real autograd vs central finite differences
        names = []

        class MkG(MkNum):
            def real(self_, name, shape=(), lo=None, hi=None, lo_incl=False):
                t = MkNum.real(self_, name, shape, lo, hi, lo_incl)
                leaf = t.clone().requires_grad_(True)
                self_.leaves.append((name, tuple(shape), leaf))
                return leaf.clone()
        mg = MkG(mk.env)
        mg.leaves = []
        cl = base(mg)
        c = _value_claims(cl, pick)
        val = c[2]
        tot = val.sum() if isinstance(val, torch.Tensor) else sum(val)
        if not isinstance(tot, torch.Tensor) or not tot.requires_grad:
            # the picked value is not a torch scalar connected to the leaves in this concrete run (the scenario assembles it from Python floats):
            # no concrete cross-check for this obligation — a statement about the harness, not about the code, hence no claim
            return [("eq", "autograd_visible_derivative_is_true_derivative", [0.0], [0.0])]
        try:
            tot.backward()
        except RuntimeError as e:
            # autograd itself refuses (e.g. a tensor it saved was modified in place): the reported value has no usable gradient
            return [("must", "autograd_differentiates_the_reported_value", False, "backward() raised RuntimeError: %s" % str(e)[:200])]
        out = [("must", "autograd_differentiates_the_reported_value", True)]
        h = 1e-6

        def f(env):
            cl2 = base(MkNum(env))
            v2 = _value_claims(cl2, pick)[2]
            return float(v2.sum()) if isinstance(v2, torch.Tensor) else float(sum(v2))
        for name, shape, leaf in mg.leaves:
            g = leaf.grad
            for ix in (np.ndindex(*shape) if shape else [()]):
                key = name if shape == () else "%s[%s]" % (name, ",".join(map(str, ix)))
                e1 = dict(mk.env)
                e2 = dict(mk.env)
                e1[key] = mk.env[key] + h
                e2[key] = mk.env[key] - h
                ag = float(g[ix]) if g is not None else 0.0
                try:
                    fd = (f(e1) - f(e2)) / (2 * h)
                except Exception:
                    fd = ag   # perturbed point leaves the domain / path: no numerical derivative available
                # finite differences are accurate to ~1e-5 only: snap to the autograd value when consistent
                if abs(fd - ag) <= 1e-4 * max(1.0, abs(fd)):
                    fd = ag
                out.append(("eq", "d/d %s: autograd-visible = true derivative" % key, [ag], [fd]))
        out.append(("true", "value_depends_on_inputs", True))
        return out
    return scn


def scn_ctmc(T, batch):
    batch = tuple(batch)

    def scn(mk):
        from torchtree.core.parameter import Parameter
        from torchtree.distributions.ctmc_scale import CTMCScale
        from specs import treemodels, trees
        names = ["A", "B", "C", "D", "E"][:T]
        hs = mk.real("h", batch + (T - 1,), lo=0).cumsum(-1)
        tm, _ = treemodels.build_timetree(trees.caterpillar(list(range(T))), names, [0.0] * T, hs)
        x = mk.real("rate", batch + (1,), lo=0)
        m = CTMCScale("ctmc", Parameter("rate", x), tm)
        val = mk.lift(m._call()) if mk.symbolic else m._call()
        # oracle: Gamma(1/2, total tree length) density of the rate (Ferreira & Suchard)
        import math
        spec = []
        for b in itertools.product(*[range(s) for s in batch]):
            heights = [el(hs, b + (i,)) for i in range(T - 1)]
            # caterpillar: total length = sum over nodes of (parent height - node height)
            total = heights[0] * 2
            for i in range(1, T - 1):
                total = total + heights[i] + (heights[i] - heights[i - 1])
            from vt.scenario import slog
            r = el(x, b + (0,))
            spec.append(slog(total) / 2 - math.lgamma(0.5) - slog(r) / 2 - r * total)
        return [("eq", "ctmc_scale_density", val, spec)]
    return scn


def scn_cgd(T):
    def scn(mk):
        from torchtree.core.parameter import Parameter
        from torchtree.distributions.tree_prior import CompoundGammaDirichletPrior
        from torchtree.evolution.taxa import Taxa, Taxon
        from torchtree.evolution.tree_model import UnRootedTreeModel, parse_tree
        from specs import trees
        from vt.scenario import slgamma, slog
        names = ["A", "B", "C", "D", "E"][:T]
        taxa = Taxa("taxa", [Taxon(n, {}) for n in names])
        tree = parse_tree(taxa, {"newick": trees.to_newick(trees.caterpillar(list(range(T))), names)})
        bl = mk.real("bl", (2 * T - 3,), lo=0)
        tm = UnRootedTreeModel("t", tree, taxa, Parameter("bl", bl))
        alpha = mk.real("alpha", (1,), lo=0)
        c = mk.real("c", (1,), lo=0)
        shape = mk.real("shape", (1,), lo=0)
        rate = mk.real("rate", (1,), lo=0)
        m = CompoundGammaDirichletPrior("p", tm, Parameter("a", alpha), Parameter("c", c), Parameter("s", shape), Parameter("r", rate))
        val = m._call()
        # oracle (Rannala, Zhu & Yang 2012): T ~ Gamma(shape, rate); x/T ~ Dirichlet(alpha on external, alpha*c on internal)
        a, cc, sh, rt = el(alpha, (0,)), el(c, (0,)), el(shape, (0,)), el(rate, (0,))
        ext = [el(bl, (i,)) for i in range(T)]
        inte = [el(bl, (i,)) for i in range(T, 2 * T - 3)]
        tot = sum(ext[1:], ext[0])
        for v in inte:
            tot = tot + v
        lp = sh * slog(rt) - slgamma(sh) - rt * tot
        lp = lp + slgamma(a * T + cc * a * (T - 3)) - slgamma(a) * T - slgamma(cc * a) * (T - 3)
        for v in ext:
            lp = lp + (a - 1) * slog(v)
        for v in inte:
            lp = lp + (cc * a - 1) * slog(v)
        lp = lp + (sh - a * T - a * cc * (T - 3)) * slog(tot)
        return [("eq", "compound_gamma_dirichlet_density", val, [lp])]
    return scn


def scn_bdsk(T, n0, rho_mode, survival, pieces):
    """birth-death skyline log density with `pieces` epochs (default equal-width grid, rho = 0 at the inner boundaries) through the real
    PiecewiseConstantBirthDeath.log_prob: the backward recursion for p_i, A_i, B_i over the epochs runs (it does not for one epoch).
    Set-up and domain are C09's (contracts.C09._rates/_rho/_heights); the value itself is C09's subject, here only its derivative."""
    def scn(mk):
        import contracts.C09 as C09
        import torchtree.evolution.bdsk as bd
        lam, mu, psi, A, v = C09._rates(mk)
        rho, rho_s, rho_pos = C09._rho(mk, rho_mode, lam, A, v)
        org = mk.real("x0", (1,), lo=0)
        x0 = el(org, (0,))
        C09._float_guard(mk, el(A, (0,)), x0)
        nh, ys, hs, ysl, hsl = C09._heights(mk, T, n0, below=x0)
        for i in range(1, pieces):
            for z in hsl + ysl:
                C09._distinct(mk, x0 * i / pieces, x0 - z)
        rep = lambda t: C09._cat(*([t] * pieces))
        rho_split = C09._cat(torch.zeros(pieces - 1), rho)
        with symbolic_factories(bd, extra=C09.EXTRA, enabled=mk.symbolic):
            val = bd.PiecewiseConstantBirthDeath(rep(lam), rep(mu), rep(psi), rho=rho_split, origin=org, survival=survival).log_prob(nh)
        return [("eq", "log_density", val, val)]
    return scn


def ob_underflow_gradient(use_tip_states):
    """The evaluation that first detects the underflow (plain pass gives -inf, switch to rescaling inside the same call) must already carry a
    usable gradient: finite, and equal to the gradient of the always-rescaled evaluation of the same point.  Real autograd on a tree large
    enough to underflow (JC69 caterpillar, 700 taxa): what the symbolic stop-gradient ghost cannot see (0 x inf in a backward pass)."""
    def body():
        import contracts.C03 as C03
        from specs import treemodels
        torch.set_num_threads(1)
        first = C03._caterpillar_model(700, False, use_tip_states)
        p1 = treemodels.tree_parameter(first.tree_model)
        p1.requires_grad = True
        v1 = first()
        if first.rescale is not True:
            raise Undecided("the 700-taxon scenario no longer underflows on the plain pass")
        v1.sum().backward()
        g1 = p1.grad.detach().clone()
        ref = C03._caterpillar_model(700, True, use_tip_states)
        p2 = treemodels.tree_parameter(ref.tree_model)
        p2.requires_grad = True
        v2 = ref()
        v2.sum().backward()
        g2 = p2.grad.detach().clone()
        if not bool(torch.isfinite(g1).all()):
            raise Refuted("the evaluation that switches to rescaling returns %s but its gradient w.r.t. the branch lengths has %d non-finite entries (of %d)"
                          % (v1.tolist(), int((~torch.isfinite(g1)).sum()), g1.numel()), witness={"tip_states": use_tip_states},
                          replay={"kind": "custom", "contract": "C12", "func": "replay_underflow_gradient", "args": {"tip_states": use_tip_states}}, confirmed=True)
        if not torch.allclose(v1, v2, rtol=1e-10) or not torch.allclose(g1, g2, rtol=1e-8, atol=1e-10):
            raise Refuted("first (switching) evaluation: value %s / always-rescaled value %s; max gradient difference %.3g"
                          % (v1.tolist(), v2.tolist(), float((g1 - g2).abs().max())), witness={"tip_states": use_tip_states},
                          replay={"kind": "custom", "contract": "C12", "func": "replay_underflow_gradient", "args": {"tip_states": use_tip_states}}, confirmed=True)
        return {"backend": "real autograd", "cases": 1, "statement": "switching evaluation: gradient finite and equal to the rescaled evaluation's (%d branch lengths)" % g1.numel()}
    return Ob("C12.likelihood.underflow_switch[tip_states=%s]" % use_tip_states, "B", body,
              clause="gradient = derivative of the reported value on the evaluation that switches to rescaling", funcs=FUNCS, timeout=300)


def replay_underflow_gradient(args):
    try:
        ob_underflow_gradient(args["tip_states"]).fn()
    except Refuted as e:
        return False, e.detail
    return True, "held"


def _late_grad_world(requires_grad_first):
    """real joint: reparameterised time tree (ratios + root height), constant coalescent with theta = exp(log_theta), tree-model Jacobian"""
    import torchtree.evolution.coalescent as co
    from torchtree.core.parameter import Parameter, TransformedParameter
    from torchtree.distributions.joint_distribution import JointDistributionModel
    from specs import treemodels
    x = torch.tensor([0.5, 0.25, 3.0], dtype=torch.float64)
    tm, _ = treemodels.build_reparam(((0, 1), (2, 3)), ["A", "B", "C", "D"], [0.0, 1.0, 0.0, 2.0], x, "ratios")
    log_theta = Parameter("log_theta", torch.tensor([0.7], dtype=torch.float64))
    theta = TransformedParameter("theta", log_theta, torch.distributions.ExpTransform())
    coal = co.ConstantCoalescentModel("coal", theta, tm)
    joint = JointDistributionModel("joint", [coal, tm, theta])
    leaves = [treemodels.tree_parameter(tm), log_theta]
    if requires_grad_first:
        for p in leaves:
            p.requires_grad = True
    return joint, leaves


def ob_late_requires_grad():
    """evaluate, THEN enable gradients through the public setter, evaluate and back-propagate: every leaf gets the gradient a freshly built
    graph gives (caches filled while a leaf had no gradient must not be served)"""
    def body():
        joint, leaves = _late_grad_world(False)
        joint()
        for p in leaves:
            p.requires_grad = True
        v = joint()
        if not v.requires_grad:
            raise Refuted("after enabling gradients on the leaves the joint density does not require grad (a cached value is served)", witness={},
                          replay={"kind": "custom", "contract": "C12", "func": "replay_late_requires_grad", "args": {}}, confirmed=True)
        v.sum().backward()
        ref, rleaves = _late_grad_world(True)
        rv = ref()
        rv.sum().backward()
        bad = []
        for p, q in zip(leaves, rleaves):
            if p.grad is None:
                bad.append("%s.grad is None" % p.id)
            elif not torch.allclose(p.grad, q.grad, rtol=1e-10, atol=1e-12):
                bad.append("%s.grad = %s, fresh graph gives %s" % (p.id, p.grad.tolist(), q.grad.tolist()))
        if bad or not torch.allclose(v, rv):
            raise Refuted("evaluate -> enable gradients -> evaluate: " + "; ".join(bad or ["value differs"]), witness={"problems": bad},
                          replay={"kind": "custom", "contract": "C12", "func": "replay_late_requires_grad", "args": {}}, confirmed=True)
        return {"backend": "real autograd", "cases": len(leaves), "statement": "gradients enabled after a first evaluation reach every leaf and equal those of a fresh graph"}
    return Ob("C12.joint.late_requires_grad", "B", body, clause="gradient = derivative of the reported value when gradients are enabled after a first evaluation", funcs=FUNCS)


def ob_observer_then_backward(observer):
    """evaluating or LOGGING the model between a parameter update and the next back-propagation must not change the gradient: after an
    optimiser-like step (assign new values, gradients enabled), a logger (Logger on a sub-model / TreeLogger / a plain no_grad evaluation of
    the joint, as MCMC and the convergence monitors do) runs, then the joint is evaluated and back-propagated: every leaf gets the gradient
    of a freshly built graph at the same values"""
    def body():
        import contextlib
        import io
        from torchtree.core.logger import Logger, TreeLogger
        joint, leaves = _late_grad_world(True)
        joint()      # caches warm
        new = [torch.tensor([0.45, 0.3, 3.4], dtype=torch.float64), torch.tensor([0.9], dtype=torch.float64)]
        for p, v in zip(leaves, new):
            p.tensor = v.clone()
            p.requires_grad = True
        sub_models = [m for m in joint._distributions.callables()] if hasattr(joint, "_distributions") else []
        tree = next((m for m in sub_models if hasattr(m, "write_newick")), None)
        sink = io.StringIO()
        with contextlib.redirect_stdout(sink):
            if observer == "logger":
                lg = Logger([m for m in sub_models if hasattr(m, "id")][:1], 1)
                lg.initialize()
                lg.log(sample=1)
                lg.log(RUN=True)
            elif observer == "tree_logger":
                lg = TreeLogger(tree, 1)
                lg.initialize()
                lg.log(sample=1)
            else:
                with torch.no_grad():
                    joint()
        v = joint()
        if not v.requires_grad:
            # the WHOLE value carries no graph (the cached no_grad evaluation is served): back-propagation raises - a loud failure, not a
            # wrong gradient; the library's own loops notify before they need a gradient.  Only a silently incomplete gradient is a violation.
            try:
                v.sum().backward()
            except RuntimeError:
                return {"backend": "real autograd", "cases": 0, "trivial": True,
                        "statement": "%s: the value served afterwards carries no graph and backward() raises (loud)" % observer}
        else:
            v.sum().backward()
        ref, rleaves = _late_grad_world(True)
        for p, val in zip(rleaves, new):
            p.tensor = val.clone()
            p.requires_grad = True
        rv = ref()
        rv.sum().backward()
        bad = []
        for p, q in zip(leaves, rleaves):
            if p.grad is None:
                bad.append("%s.grad is None" % p.id)
            elif not torch.allclose(p.grad, q.grad, rtol=1e-10, atol=1e-12):
                bad.append("%s.grad = %s, fresh graph gives %s" % (p.id, p.grad.tolist(), q.grad.tolist()))
        if bad or not torch.allclose(v, rv):
            raise Refuted("update -> %s -> evaluate + backward: " % observer + "; ".join(bad or ["value differs"]), witness={"observer": observer, "problems": bad},
                          replay={"kind": "custom", "contract": "C12", "func": "replay_observer_then_backward", "args": {"observer": observer}}, confirmed=True)
        return {"backend": "real autograd", "cases": len(leaves), "statement": "%s between an update and the backward pass does not change the gradient" % observer}
    return Ob("C12.joint.observer_then_backward[%s]" % observer, "B", body,
              clause="gradient = derivative of the reported value when the model was logged / evaluated without gradients in between", funcs=FUNCS)


def replay_observer_then_backward(args):
    try:
        ob_observer_then_backward(args["observer"]).fn()
    except Refuted as e:
        return False, e.detail
    return True, "held"


def ob_linear_equal_knots():
    """piecewise-linear coalescent with two EQUAL neighbouring population sizes (the usual starting point of an optimisation: all sizes
    equal): the value switches to the flat-piece formula there; the gradient autograd reports must still be the derivative of the reported
    value (central differences of the real function, which is smooth across the equality)"""
    def body():
        import torchtree.evolution.coalescent as co
        t64 = lambda v: torch.tensor(v, dtype=torch.float64)
        grid = t64([1.0, 2.0, 3.0, 4.0])
        tips = [0.0, 0.0, 0.0, 0.0]
        internal = [0.5, 1.5, 2.6]
        nh = t64(tips + internal)

        def value(th):
            return co.PiecewiseLinearCoalescentGrid(th, grid).log_prob(nh).sum()
        bad = []
        n = 0
        for thetas in ([3.0, 5.0, 5.0, 2.0, 4.0], [2.0, 2.0, 2.0, 2.0, 2.0]):
            th = t64(thetas).requires_grad_(True)
            v = value(th)
            v.backward()
            g = th.grad.detach().clone()
            h = 1e-3     # large enough that log(Nb/Na)/(Nb-Na) does not suffer cancellation at theta +- h; central differences: O(h^2)
            for i in range(len(thetas)):
                e = torch.zeros(len(thetas), dtype=torch.float64)
                e[i] = h
                fd = float(value(t64(thetas) + e) - value(t64(thetas) - e)) / (2 * h)
                n += 1
                if abs(float(g[i]) - fd) > 2e-5 * max(1.0, abs(fd)):
                    bad.append("thetas %s: d/d theta[%d] autograd %.6f, central difference of the reported value %.6f" % (thetas, i, float(g[i]), fd))
        if bad:
            raise Refuted("PiecewiseLinearCoalescentGrid with equal neighbouring population sizes: " + "; ".join(bad[:3]), witness={"problems": bad},
                          replay={"kind": "custom", "contract": "C12", "func": "replay_linear_equal_knots", "args": {}}, confirmed=True)
        return {"backend": "real autograd", "cases": n, "statement": "%d partial derivatives at equal knots agree with central differences" % n}
    return Ob("C12.coalescent.linear.equal_knots", "B", body, clause="gradient = derivative of the reported value where neighbouring population sizes are equal", funcs=FUNCS)


# ------------------------------------------------------------------------------------------
# shipped priors through the way a model file builds them: every estimated parameter gets the derivative of the reported value
# ------------------------------------------------------------------------------------------
def _prior_cases():
    """label -> builder() returning (model callable, {name: Parameter that is estimated})"""
    from torchtree.core.parameter import Parameter
    from torchtree.distributions.distributions import Distribution
    from torchtree.distributions.log_normal import LogNormal
    from torchtree.distributions.normal import Normal as TTNormal
    from torchtree.distributions.inverse_gamma import InverseGamma
    from torchtree.distributions.bayesian_bridge import BayesianBridge
    from torchtree.distributions.scale_mixture import ScaleMixtureNormal
    t64 = lambda v: torch.tensor(v, dtype=torch.float64)
    P = lambda n, v: Parameter(n, t64(v))
    C = {}

    def dist(cls, xs, tensors, numbers):
        def build():
            x = P("x", xs)
            ps = {k: P(k, v) for k, v in tensors.items()}
            return Distribution("d", cls, x, ps, **numbers), dict(ps, x=x)
        return build
    # LogNormal (mean, scale | stdev): every mix of estimated parameter and Python constant the constructor distinguishes
    C["LogNormal(mean,scale)"] = dist(LogNormal, [0.7, 2.1], {"mean": [1.5], "scale": [0.8]}, {})
    C["LogNormal(mean=const,scale)"] = dist(LogNormal, [0.7, 2.1], {"scale": [0.8]}, {"mean": 1.5})
    C["LogNormal(mean,scale=const)"] = dist(LogNormal, [0.7, 2.1], {"mean": [1.5]}, {"scale": 0.8})
    C["LogNormal(mean,stdev)"] = dist(LogNormal, [0.7, 2.1], {"mean": [1.5], "stdev": [0.8]}, {})
    C["LogNormal(mean=const,stdev)"] = dist(LogNormal, [0.7, 2.1], {"stdev": [0.8]}, {"mean": 1.5})
    C["LogNormal(mean,stdev=const)"] = dist(LogNormal, [0.7, 2.1], {"mean": [1.5]}, {"stdev": 0.8})
    C["LogNormal(mean[2],stdev[2])"] = dist(LogNormal, [0.7, 2.1], {"mean": [1.5, 0.9], "stdev": [0.8, 1.7]}, {})
    C["Normal(loc,scale)"] = dist(TTNormal, [0.7, -2.1], {"loc": [0.5], "scale": [0.8]}, {})
    C["Normal(loc,precision)"] = dist(TTNormal, [0.7, -2.1], {"loc": [0.5], "precision": [0.8]}, {})
    C["Normal(loc=const,precision)"] = dist(TTNormal, [0.7, -2.1], {"precision": [0.8]}, {"loc": 0.5})
    C["Normal(loc,precision=const)"] = dist(TTNormal, [0.7, -2.1], {"loc": [0.5]}, {"precision": 0.8})
    C["InverseGamma(concentration,rate)"] = dist(InverseGamma, [0.7, 2.1], {"concentration": [1.5], "rate": [0.8]}, {})

    def bridge(local, slab):
        def build():
            x, scale = P("x", [0.3, -1.2, 0.8]), P("scale", [0.7])
            ps = {"x": x, "scale": scale}
            kw = {}
            if local:
                kw["local_scale"] = ps["local_scale"] = P("local_scale", [0.5, 1.4, 2.2])
            else:
                kw["alpha"] = ps["alpha"] = P("alpha", [0.6])
            if slab:
                kw["slab"] = ps["slab"] = P("slab", [1.9])
            return BayesianBridge("bb", x, scale, **kw), ps
        return build
    C["BayesianBridge(scale,alpha)"] = bridge(False, False)
    C["BayesianBridge(scale,local_scale)"] = bridge(True, False)
    C["BayesianBridge(scale,local_scale,slab)"] = bridge(True, True)

    def mixture(slab):
        def build():
            x, loc, scale, gamma = P("x", [0.3, -1.2, 0.8]), P("loc", [0.1]), P("scale", [0.7]), P("gamma", [0.5, 1.4, 2.2])
            ps = {"x": x, "loc": loc, "scale": scale, "gamma": gamma}
            if slab:
                ps["slab"] = P("slab", [1.9])
            return ScaleMixtureNormal("sm", x, loc, scale, gamma, ps.get("slab")), ps
        return build
    C["ScaleMixtureNormal(loc,scale,gamma)"] = mixture(False)
    C["ScaleMixtureNormal(loc,scale,gamma,slab)"] = mixture(True)
    return C


def _prior_gradient_problems(label):
    build = _prior_cases()[label]
    model, ps = build()
    for p in ps.values():
        p.requires_grad = True
    bad, n = [], 0
    try:
        v = model().sum()
        v.backward()
        grads = {k: (None if p.grad is None else p.grad.detach().clone()) for k, p in ps.items()}
    except RuntimeError as e:
        if not _raised_in_repo(e) and "inplace operation" not in str(e) and "does not require grad" not in str(e):
            raise
        return ["backward of the reported value raises %s: %s" % (type(e).__name__, str(e)[:200])], 0
    h = 1e-6
    for k in ps:
        base = ps[k].tensor.detach().clone()
        for i in range(base.numel()):
            vals = []
            for sgn in (1.0, -1.0):
                m2, ps2 = build()
                t = base.clone().reshape(-1)
                t[i] += sgn * h
                ps2[k].tensor = t.reshape(base.shape)
                with torch.no_grad():
                    vals.append(float(m2().sum()))
            fd = (vals[0] - vals[1]) / (2 * h)
            n += 1
            if grads[k] is None:
                if abs(fd) > 1e-6:
                    bad.append("%s[%d] influences the value (central difference %.6g) but receives NO gradient" % (k, i, fd))
                continue
            g = float(grads[k].reshape(-1)[i])
            if abs(g - fd) > 1e-5 * max(1.0, abs(fd)):
                bad.append("d/d %s[%d]: autograd %.8g, central difference of the reported value %.8g" % (k, i, g, fd))
    return bad, n


def ob_prior_gradient(label):
    def body():
        bad, n = _prior_gradient_problems(label)
        if bad:
            raise Refuted("%s: %s" % (label, "; ".join(bad[:3])), witness={"case": label, "problems": bad},
                          replay={"kind": "custom", "contract": "C12", "func": "replay_prior_gradient", "args": {"case": label}}, confirmed=True)
        return {"backend": "real autograd", "cases": n, "bounded": "one interior point per configuration",
                "statement": "%s: %d partial derivatives of the reported log density w.r.t. every estimated parameter equal central differences; none is missing" % (label, n)}
    return Ob("C12.prior.gradient[%s]" % label, "B", body, clause="every estimated parameter of a shipped prior receives the derivative of the reported value", funcs=FUNCS, timeout=120)


def replay_prior_gradient(args):
    bad, _ = _prior_gradient_problems(args["case"])
    if bad:
        return False, "%s: %s" % (args["case"], "; ".join(bad[:3]))
    return True, "held"


def _bd_range_problems(which, delta):
    import torchtree.evolution.bdsk as bd
    import torchtree.evolution.birth_death as bdc
    t64 = lambda v: torch.tensor(v, dtype=torch.float64)
    h = t64([0.0, 1.0, 2.5, 3.5, 2.0, 4.0, 5.0])
    x0 = [2.0 * delta, 0.7 * delta, 0.3 * delta]

    def value(v):
        lam, mu, psi = v[0:1], v[1:2], v[2:3]
        if which == "skyline":
            return bd.PiecewiseConstantBirthDeath(lam, mu, psi, origin=t64([6.0]), survival=True).log_prob(h).sum()
        return bdc.BirthDeath(lam, mu, psi, t64([0.0]), t64([6.0]), survival=True).log_prob(h).sum()
    v = t64(x0).requires_grad_(True)
    val = value(v)
    bad = []
    if not bool(torch.isfinite(val)):
        return ["the log density itself is %s" % float(val)], 0
    val.backward()
    n = 0
    for i, name in enumerate(("lambda", "mu", "psi")):
        hh = 1e-6 * x0[i]
        e = torch.zeros(3, dtype=torch.float64)
        e[i] = hh
        with torch.no_grad():
            fd = float(value(t64(x0) + e) - value(t64(x0) - e)) / (2 * hh)
        g = float(v.grad[i])
        n += 1
        if not (abs(g - fd) <= 1e-4 * max(1.0, abs(fd))):
            bad.append("d/d %s: autograd %.6g, central difference of the reported value %.6g" % (name, g, fd))
    return bad, n


def ob_bd_gradient_range(which, delta):
    def body():
        bad, n = _bd_range_problems(which, delta)
        if bad:
            raise Refuted("%s birth-death density, rates (2, 0.7, 0.3) x %s over an origin of 6 (A x origin = %.0f): %s" % (which, delta, 11.08 * delta, "; ".join(bad)),
                          witness={"which": which, "delta": delta, "problems": bad},
                          replay={"kind": "custom", "contract": "C12", "func": "replay_bd_gradient_range", "args": {"which": which, "delta": delta}}, confirmed=True)
        return {"backend": "real autograd", "cases": n, "statement": "%s model, rate scale %s: %d partial derivatives equal central differences" % (which, delta, n)}
    return Ob("C12.birth_death.gradient.range[%s,rates x%s]" % (which, delta), "B", body,
              clause="gradient = derivative of the reported value for fast rates over a long origin (range of the arithmetic in the backward pass)", funcs=FUNCS)


def replay_bd_gradient_range(args):
    bad, _ = _bd_range_problems(args["which"], args["delta"])
    return (False, "; ".join(bad)) if bad else (True, "held")


_GROWTH_GRAD_CASES = {
    "exponential,growth=0": ("exp", [0.0, 0.0, 0.0, 0.0], [2.0, 6.0, 12.0], 3.0, [0.0], None),
    "exponential,growth=1e-10": ("exp", [0.0, 0.0, 0.0, 0.0], [2.0, 6.0, 12.0], 3.0, [1e-10], None),
    "exponential,growth=1e-8": ("exp", [0.0, 0.0, 0.0, 0.0], [2.0, 6.0, 12.0], 3.0, [1e-8], None),
    "exponential,growth=-1e-7,serial": ("exp", [0.0, 0.5, 0.0], [1.0, 2.0], 3.0, [-1e-7], None),
    "exponential,growth=0.3": ("exp", [0.0, 0.5, 0.0], [1.0, 2.0], 3.0, [0.3], None),
    "piecewise exponential,growth=[0,0]": ("pexp", [0.0, 0.0, 0.0], [1.0, 2.0], 3.0, [0.0, 0.0], [1.5]),
    "piecewise exponential,growth=[1e-10,0.3]": ("pexp", [0.0, 0.0, 0.0], [1.0, 2.0], 3.0, [1e-10, 0.3], [1.5]),
    "piecewise exponential,growth=[0.4,-0.2]": ("pexp", [0.0, 0.0, 0.0], [1.0, 2.0], 3.0, [0.4, -0.2], [1.5]),
}


def _growth_gradient_problems(label):
    import mpmath
    import torchtree.evolution.coalescent as co
    from specs import kingman
    model, tips, internal, theta, growth, grid = _GROWTH_GRAD_CASES[label]
    mpmath.mp.dps = 60
    M = mpmath.mpf

    def ref(th, gs):
        demo = kingman.Exponential(th, gs[0]) if model == "exp" else kingman.GridExponential(th, list(gs), [M(g) for g in grid])
        return kingman.log_density([M(t) for t in tips], [M(t) for t in internal], demo)
    t64 = lambda v: torch.tensor(v, dtype=torch.float64)
    th = t64([theta]).requires_grad_(True)
    g = t64(growth).requires_grad_(True)
    dist = co.ExponentialCoalescent(th, g) if model == "exp" else co.PiecewiseExponentialCoalescentGrid(th, g, t64(grid))
    v = dist.log_prob(t64(tips + internal)).sum()
    if not bool(torch.isfinite(v)):
        return ["the log density itself is %s" % float(v)], 0
    v.backward()
    bad, n = [], 0
    # exact derivatives of the Kingman density of N(t) by central differences in 60-digit arithmetic (step 1e-20: truncation error 1e-40)
    hh = M(10) ** -20
    want_theta = (ref(M(theta) + hh, [M(x) for x in growth]) - ref(M(theta) - hh, [M(x) for x in growth])) / (2 * hh)
    checks = [("theta", float(th.grad[0]), float(want_theta))]
    for i in range(len(growth)):
        up = [M(x) + (hh if j == i else 0) for j, x in enumerate(growth)]
        dn = [M(x) - (hh if j == i else 0) for j, x in enumerate(growth)]
        checks.append(("growth[%d]" % i, float(g.grad[i]), float((ref(M(theta), up) - ref(M(theta), dn)) / (2 * hh))))
    for name, got, want in checks:
        n += 1
        if not (abs(got - want) <= 1e-6 * max(1.0, abs(want))):
            bad.append("d/d %s: autograd %.9g, derivative of the Kingman density %.9g" % (name, got, want))
    return bad, n


def ob_growth_gradient(label):
    def body():
        bad, n = _growth_gradient_problems(label)
        if bad:
            raise Refuted("%s: %s" % (label, "; ".join(bad)), witness={"case": label, "problems": bad},
                          replay={"kind": "custom", "contract": "C12", "func": "replay_growth_gradient", "args": {"case": label}}, confirmed=True)
        return {"backend": "real autograd vs 60-digit derivative", "cases": n, "statement": "%s: %d partial derivatives agree with the derivative of the Kingman density to 1e-6" % (label, n)}
    return Ob("C12.coalescent.growth_gradient[%s]" % label, "B", body,
              clause="gradient = derivative of the reported value at and near growth 0 (interior points of the domain of the exponential models)", funcs=FUNCS)


def replay_growth_gradient(args):
    bad, _ = _growth_gradient_problems(args["case"])
    return (False, "; ".join(bad)) if bad else (True, "held")


_PARAM_FORMS = {
    "tensor": {"tensor": [0.5, 1.5]},
    "tensor+dimension": {"tensor": [0.5], "dimension": 3},
    "tensor[2]+dimension=5": {"tensor": [0.5, 1.5], "dimension": 5},
    "full": {"full": [3], "tensor": 0.5},
    "full_like": {"full_like": "ref", "tensor": 0.5},
    "ones": {"ones": [3]},
    "ones_like": {"ones_like": "ref"},
    "zeros_like": {"zeros_like": "ref"},
}


def _parameter_json_problem(form):
    from torchtree.core.parameter import Parameter
    ref = Parameter("ref", torch.tensor([1.0, 2.0, 3.0], dtype=torch.float64))
    data = dict(_PARAM_FORMS[form], id="p", type="Parameter", requires_grad=True, dtype="torch.float64")
    p = Parameter.from_json(data, {"ref": ref})
    w = torch.arange(1, p.tensor.numel() + 1, dtype=torch.float64).reshape(p.tensor.shape)
    v = ((p.tensor + 0.3) ** 2 * w).sum()       # a value every element influences: d/dp_i = 2 w_i (p_i + 0.3)
    v.backward()
    want = 2 * w * (p.tensor.detach() + 0.3)
    if p.grad is None:
        return "Parameter.from_json(%s) with requires_grad true: the parameter receives no gradient (its tensor is not a leaf: is_leaf=%s)" % (
            {k: v_ for k, v_ in data.items() if k not in ("id", "type")}, p.tensor.is_leaf)
    if not torch.allclose(p.grad, want):
        return "Parameter.from_json(%s): gradient %s, expected %s" % (data, p.grad.tolist(), want.tolist())
    return None


def ob_parameter_json_gradient(form):
    def body():
        msg = _parameter_json_problem(form)
        if msg:
            raise Refuted(msg, witness={"form": form}, replay={"kind": "custom", "contract": "C12", "func": "replay_parameter_json_gradient", "args": {"form": form}}, confirmed=True)
        return {"backend": "real autograd", "cases": 1, "statement": "a parameter declared with requires_grad in a model file (%s) is a leaf and receives the derivative of a value it influences" % form}
    return Ob("C12.parameter.from_json.requires_grad[%s]" % form, "B", body, clause="no parameter that influences the value receives a missing gradient (parameter declared with requires_grad in the model file)", funcs=FUNCS)


def replay_parameter_json_gradient(args):
    msg = _parameter_json_problem(args["form"])
    return (False, msg) if msg else (True, "held")


def ob_degenerate_rates(kind, label, x0):
    """substitution models at the parameter values where the rate matrix has REPEATED eigenvalues (HKY at kappa = 1, GTR with all
    exchangeabilities equal - the value the command line initialises them with): the transition probabilities are smooth there, the
    gradient autograd reports must be the derivative of the reported value (central differences of the real function)"""
    def body():
        from torchtree.core.parameter import Parameter
        from torchtree.evolution.substitution_model.nucleotide import GTR, HKY
        t64 = lambda v: torch.tensor(v, dtype=torch.float64)
        freqs = [0.1, 0.2, 0.3, 0.4]
        bl = t64([[0.1], [0.7]])

        def value(x):
            f = Parameter("f", t64(freqs))
            if kind == "HKY":
                m = HKY("m", Parameter("k", x), f)
            else:
                m = GTR("m", Parameter("r", x), f)
            p = m.p_t(bl)
            w = t64([[0.3, -0.2, 0.5, 0.1], [0.2, 0.4, -0.1, 0.6], [0.7, 0.1, 0.2, -0.3], [-0.4, 0.5, 0.3, 0.2]])
            return (p * w).sum()
        bad, n = [], 0
        for x0_ in [list(x0)]:
            x = t64(x0_).requires_grad_(True)
            value(x).backward()
            g = x.grad.detach().clone()
            h = 1e-5
            for i in range(len(x0_)):
                e = torch.zeros(len(x0_), dtype=torch.float64)
                e[i] = h
                fd = float(value(t64(x0_) + e) - value(t64(x0_) - e)) / (2 * h)
                n += 1
                gi = float(g[i])
                if not (gi == gi) or abs(gi - fd) > 1e-6 * max(1.0, abs(fd)):
                    bad.append("%s at %s: d/dx[%d] autograd %r, central difference of the reported value %.8f" % (kind, x0_, i, gi, fd))
        if bad:
            raise Refuted("%s where the rate matrix has repeated eigenvalues: %s" % (kind, "; ".join(bad[:3])), witness={"problems": bad[:8]},
                          replay={"kind": "custom", "contract": "C12", "func": "replay_degenerate_rates", "args": {"kind": kind, "label": label, "x0": list(x0)}}, confirmed=True)
        return {"backend": "real autograd", "cases": n, "statement": "%s at %s: %d partial derivatives agree with central differences" % (kind, label, n)}
    return Ob("C12.subst.gradient[%s,%s]" % (kind, label), "B", body, clause="gradient = derivative of the reported value where the rate matrix has repeated eigenvalues", funcs=FUNCS)


def _subst_partial_problems(kind, estimated):
    """gradients of p_t w.r.t. the parameters that are estimated while the others are held fixed (requires_grad False): fixing one parameter
    must not change the derivative w.r.t. another. `estimated`: subset of {"rates", "frequencies"}"""
    from torchtree.core.parameter import Parameter
    from torchtree.evolution.substitution_model.nucleotide import GTR, HKY
    t64 = lambda v: torch.tensor(v, dtype=torch.float64)
    z0 = [0.2, -0.3, 0.5]                      # frequencies through a softmax of unconstrained coordinates (an interior point, no constraint to respect)
    r0 = [2.5] if kind == "HKY" else [0.5, 1.0, 1.5, 0.7, 2.0, 1.1]
    bl = t64([[0.1], [0.7]])
    w = t64([[0.3, -0.2, 0.5, 0.1], [0.2, 0.4, -0.1, 0.6], [0.7, 0.1, 0.2, -0.3], [-0.4, 0.5, 0.3, 0.2]])

    def value(r, z):
        f = torch.softmax(torch.cat((z, torch.zeros(1, dtype=torch.float64))), 0)
        m = HKY("m", Parameter("k", r), Parameter("f", f)) if kind == "HKY" else GTR("m", Parameter("r", r), Parameter("f", f))
        return (m.p_t(bl) * w).sum()
    r = t64(r0).requires_grad_("rates" in estimated)
    z = t64(z0).requires_grad_("frequencies" in estimated)
    value(r, z).backward()
    bad, n = [], 0
    h = 1e-6
    for name, x, x0 in (("rates", r, r0), ("frequencies (softmax coordinates)", z, z0)):
        if not x.requires_grad:
            continue
        for i in range(len(x0)):
            e = torch.zeros(len(x0), dtype=torch.float64)
            e[i] = h
            with torch.no_grad():
                if name == "rates":
                    fd = float(value(t64(r0) + e, t64(z0)) - value(t64(r0) - e, t64(z0))) / (2 * h)
                else:
                    fd = float(value(t64(r0), t64(z0) + e) - value(t64(r0), t64(z0) - e)) / (2 * h)
            n += 1
            g = None if x.grad is None else float(x.grad[i])
            if g is None or not (g == g) or abs(g - fd) > 1e-6 * max(1.0, abs(fd)):
                bad.append("d/d %s[%d]: autograd %r, central difference of the reported value %.8f" % (name, i, g, fd))
    return bad, n


def ob_subst_partial(kind, estimated):
    label = "%s,estimated=%s" % (kind, "+".join(estimated))

    def body():
        bad, n = _subst_partial_problems(kind, estimated)
        if bad:
            raise Refuted("%s with %s estimated and the rest held fixed: %s" % (kind, " and ".join(estimated), "; ".join(bad[:3])), witness={"problems": bad[:8]}, confirmed=True,
                          replay={"kind": "custom", "contract": "C12", "func": "replay_subst_partial", "args": {"kind": kind, "estimated": list(estimated)}})
        return {"backend": "real autograd", "cases": n, "statement": "%s: %d partial derivatives agree with central differences" % (label, n)}
    return Ob("C12.subst.gradient.partial[%s]" % label, "B", body, clause="gradient = derivative of the reported value w.r.t. the estimated parameters while others are held fixed", funcs=FUNCS)


def replay_subst_partial(args):
    bad, _ = _subst_partial_problems(args["kind"], tuple(args["estimated"]))
    return (False, "; ".join(bad[:3])) if bad else (True, "held")


def _parameter_cast_problem(how):
    """a parameter that is being estimated (requires_grad) and is then cast (model.to(dtype), as `--dtype` does): it still receives the gradient"""
    from torchtree.core.parameter import Parameter
    p_ = Parameter("p", torch.tensor([1.0, 2.0], dtype=torch.float32, requires_grad=True))
    if how == "to(dtype)":
        p_.to(torch.float64)
    elif how == "to(dtype=)":
        p_.to(dtype=torch.float64)
    else:
        p_.to(torch.float32)        # a cast that changes nothing
    (p_.tensor ** 2).sum().backward()
    if p_.grad is None:
        return "Parameter float32 with requires_grad, then %s: after backward of a value it influences the parameter has no gradient (is_leaf=%s)" % (how, p_.tensor.is_leaf)
    want = 2 * p_.tensor.detach()
    if not torch.allclose(p_.grad.to(want.dtype), want):
        return "Parameter after %s: gradient %s, expected %s" % (how, p_.grad.tolist(), want.tolist())
    return None


def ob_parameter_cast(how):
    def body():
        msg = _parameter_cast_problem(how)
        if msg:
            raise Refuted(msg, witness={"how": how}, confirmed=True, replay={"kind": "custom", "contract": "C12", "func": "replay_parameter_cast", "args": {"how": how}})
        return {"backend": "real autograd", "cases": 1, "statement": "an estimated parameter stays a leaf through %s and receives its gradient" % how}
    return Ob("C12.parameter.cast.requires_grad[%s]" % how, "B", body, clause="no parameter that influences the value receives a missing gradient (parameter cast after requires_grad was set)", funcs=FUNCS)


def replay_parameter_cast(args):
    msg = _parameter_cast_problem(args["how"])
    return (False, msg) if msg else (True, "held")


def _bdsk_times_problems(relative):
    """the rate-shift times of the skyline are parameters like the others: when they are estimated they receive the derivative of the value"""
    import torchtree.evolution.bdsk as bd
    t64 = lambda v: torch.tensor(v, dtype=torch.float64)
    h = t64([0.0, 0.7, 0.0, 1.4, 0.3, 2.1, 2.9, 3.6, 4.4])      # 5 tips (heterochronous), 4 internal heights
    origin = 6.0
    t0 = [0.0, 0.25, 0.6] if relative else [0.0, 1.5, 3.6]

    def value(times):
        d = bd.PiecewiseConstantBirthDeath(t64([2.0, 1.5, 2.4]), t64([1.0, 0.8, 1.1]), t64([0.5, 0.3, 0.6]), rho=t64([0.3]), origin=t64([origin]),
                                           times=times, relative_times=relative, survival=True)
        return d.log_prob(h).sum()
    times = t64(t0).requires_grad_(True)
    v = value(times)
    if v.requires_grad:
        v.backward()
    # (a value that does not require grad although the times do: the graph to the times is cut, their gradient is missing)
    bad, n = [], 0
    for i in (1, 2):
        e = torch.zeros(3, dtype=torch.float64)
        e[i] = 1e-6
        with torch.no_grad():
            fd = float(value(t64(t0) + e) - value(t64(t0) - e)) / 2e-6
        n += 1
        g = None if times.grad is None else float(times.grad[i])
        if g is None or not (g == g) or abs(g - fd) > 1e-5 * max(1.0, abs(fd)):
            bad.append("d/d times[%d]: autograd %r, central difference of the reported value %.8f" % (i, g, fd))
    return bad, n


def ob_bdsk_times(relative):
    def body():
        bad, n = _bdsk_times_problems(relative)
        if bad:
            raise Refuted("birth-death skyline with estimated %s rate-shift times: %s" % ("relative" if relative else "absolute", "; ".join(bad)), witness={"problems": bad}, confirmed=True,
                          replay={"kind": "custom", "contract": "C12", "func": "replay_bdsk_times", "args": {"relative": relative}})
        return {"backend": "real autograd", "cases": n, "statement": "%d derivatives w.r.t. the rate-shift times agree with central differences" % n}
    return Ob("C12.bdsk.gradient.times[%s]" % ("relative" if relative else "absolute"), "B", body,
              clause="no parameter that influences the value receives a missing gradient (rate-shift times of the skyline)", funcs=FUNCS)


def replay_bdsk_times(args):
    bad, _ = _bdsk_times_problems(bool(args["relative"]))
    return (False, "; ".join(bad)) if bad else (True, "held")


def ob_bdsk_zero_sampling_epoch():
    """birth-death skyline with an epoch in which the sampling proportion is exactly 0 and no tip was sampled (no sampling before a date: a
    boundary value of the parameter that specifications use): the gradient of the other parameters is the derivative of the reported
    value (central differences on fresh distributions)"""
    def body():
        from torchtree.evolution.bdsk import PiecewiseConstantBirthDeath as P, epidemiology_to_birth_death as e2b
        t64 = lambda v: torch.tensor(v, dtype=torch.float64)
        nh = t64([0.0, 1.0, 2.5, 3.5, 2.0, 4.0, 5.0])
        base = {"R": [1.5, 1.2], "d": [1.5, 1.1], "s": [0.0, 0.3]}      # epoch 0 is the OLDEST one: every tip lies in the recent epoch

        def value(R, d, s_):
            lam, mu, psi = e2b(R, d, s_)
            return P(lam, mu, psi, origin=t64([10.0])).log_prob(nh).sum()
        R, d = t64(base["R"]).requires_grad_(True), t64(base["d"]).requires_grad_(True)
        v = value(R, d, t64(base["s"]))
        if not bool(torch.isfinite(v)):
            raise Undecided("the scenario does not have a finite density: %r" % float(v))
        v.backward()
        bad, n = [], 0
        for nme, par in (("R", R), ("d", d)):
            for i in range(2):
                h = 1e-6
                vals = {k: list(x) for k, x in base.items()}
                vals[nme][i] += h
                up = float(value(t64(vals["R"]), t64(vals["d"]), t64(vals["s"])))
                vals[nme][i] -= 2 * h
                dn = float(value(t64(vals["R"]), t64(vals["d"]), t64(vals["s"])))
                fd = (up - dn) / (2 * h)
                g = float(par.grad[i])
                n += 1
                if not (g == g) or abs(g - fd) > 1e-5 * max(1.0, abs(fd)):
                    bad.append("d/d %s[%d]: autograd %r, central difference of the reported value %.6f" % (nme, i, g, fd))
        if bad:
            raise Refuted("BDSK with sampling proportion 0 in an epoch without tips: " + "; ".join(bad[:3]), witness={"problems": bad}, confirmed=True,
                          replay={"kind": "custom", "contract": "C12", "func": "replay_bdsk_zero_sampling_epoch", "args": {}})
        return {"backend": "real autograd", "cases": n, "statement": "%d partial derivatives agree with central differences when one epoch has sampling proportion 0" % n}
    return Ob("C12.bdsk.zero_sampling_epoch", "B", body, clause="gradient = derivative of the reported value at a zero sampling proportion (bounded)", funcs=FUNCS)


def replay_bdsk_zero_sampling_epoch(args):
    try:
        ob_bdsk_zero_sampling_epoch().fn()
    except Refuted as e:
        return False, e.detail
    return True, "held"


def replay_degenerate_rates(args):
    try:
        ob_degenerate_rates(args["kind"], args["label"], args["x0"]).fn()
    except Refuted as e:
        return False, e.detail
    return True, "held"


def replay_linear_equal_knots(args):
    try:
        ob_linear_equal_knots().fn()
    except Refuted as e:
        return False, e.detail
    return True, "held"


def replay_late_requires_grad(args):
    try:
        ob_late_requires_grad().fn()
    except Refuted as e:
        return False, e.detail
    return True, "held"


def obligations(tier, seed):
    import ast
    obs = []
    obs.append(ob_underflow_gradient(False))
    obs.append(ob_underflow_gradient(True))
    obs.append(ob_late_requires_grad())
    obs.append(ob_linear_equal_knots())
    obs.append(ob_bdsk_zero_sampling_epoch())
    for kind, label, x0 in (("HKY", "kappa=1", [1.0]), ("HKY", "kappa=2.5", [2.5]), ("GTR", "all rates 1/6", [1.0 / 6] * 6), ("GTR", "all rates 1", [1.0] * 6),
                            ("GTR", "distinct rates", [0.5, 1.0, 1.5, 0.7, 2.0, 1.0])):
        obs.append(ob_degenerate_rates(kind, label, x0))
    for observer in ("logger", "tree_logger", "no_grad_evaluation"):
        obs.append(ob_observer_then_backward(observer))
    for label in _prior_cases():
        obs.append(ob_prior_gradient(label))
    for form in _PARAM_FORMS:
        obs.append(ob_parameter_json_gradient(form))
    for label in _GROWTH_GRAD_CASES:
        obs.append(ob_growth_gradient(label))
    for kind in ("HKY", "GTR"):
        for estimated in (("rates",), ("frequencies",), ("rates", "frequencies")):
            obs.append(ob_subst_partial(kind, estimated))
    for relative in (False, True):
        obs.append(ob_bdsk_times(relative))
    for how in ("to(dtype)", "to(dtype=)", "to(same dtype)"):
        obs.append(ob_parameter_cast(how))
    for which in ("skyline", "constant"):
        for delta in (1, 20, 25, 31, 60):
            obs.append(ob_bd_gradient_range(which, delta))

    def add(name, contract, factory, args, pick=None, **kw):
        kw.setdefault("max_paths", 20000)
        kw.setdefault("crosscheck", 1)
        obs.append(scenario_ob("C12", name, "V", "scn_grad", (contract, factory, list(args), pick), clause="gradient = derivative of the reported value",
                               funcs=FUNCS, seed=seed, **kw))

    import contracts.C01 as C01
    P4 = {"P": lambda t, i, j: C01._pfun(t, i, j, 4),
          "D0_P": lambda t, i, j: (C01._pfun(t + 1e-6, i, j, 4) - C01._pfun(t - 1e-6, i, j, 4)) / 2e-6}
    # tree likelihood: pruning (plain and rescaled) and the whole pipeline
    add("C12.likelihood.prune[((0,1),2)]", "C01", "scn_prune", ("partials", "((0,1),2)", 2, 2, (), 1))
    add("C12.likelihood.prune[((0,1),(2,3))]", "C01", "scn_prune", ("partials", "((0,1),(2,3))", 2, 1, (), 1))
    add("C12.likelihood.rescaled[((0,1),2)]", "C03", "scn_rescaled", ("partials", "((0,1),2)", 2, 2, (), 1), "rescaled_equals_plain")
    add("C12.likelihood.rescaled[(0,(1,(2,3)))]", "C03", "scn_rescaled", ("partials", "(0,(1,(2,3)))", 2, 1, (), 1), "rescaled_equals_plain")
    # with the REAL max (arg-max forks): the scalers depend on the inputs, so a scaler cut from the graph is visible
    add("C12.likelihood.rescaled.realmax[((0,1),2)]", "C03", "scn_rescaled", ("partials", "((0,1),2)", 2, 1, (), 1, True), "rescaled_equals_plain", max_paths=2000)
    add("C12.likelihood.safe.realmax[((0,1),2)]", "C03", "scn_rescaled", ("safe", "((0,1),2)", 2, 1, (), 1, True), "rescaled_equals_plain", max_paths=2000,
        crosscheck=0)   # the paths of _safe need values below 1e-40: finite differences are meaningless there
    add("C12.likelihood.states_rescaled.realmax[((0,1),2)]", "C03", "scn_rescaled", ("states", "((0,1),2)", 2, 1, (), [[0], [1], [2]], True), "rescaled_equals_plain", max_paths=2000)
    add("C12.likelihood.model[unrooted,weibull]", "C01", "scn_model", ("((A,B),C);", ["C", "A", "B"], ["AC", "CG", "GT"], [0.0, 0.0, 0.0], "unrooted", None, "weibull", 2, False, True, (), "JC69"))
    add("C12.likelihood.model[time,strict,invariant]", "C01", "scn_model", ("((A,B),C);", ["A", "B", "C"], ["AC", "CG", "GT"], [0.0, 1.0, 0.0], "time", "strict", "invariant", 2, False, True, (), "JC69"))
    add("C12.likelihood.model[time,simple,tipstates]", "C01", "scn_model", ("((A,B),C);", ["A", "B", "C"], ["AC", "CN", "GT"], [0.0, 1.0, 2.0], "time", "simple", "constant", 1, True, True, (), "JC69"))
    # site models, rate matrices
    add("C12.site.weibull[K=4,inv,mu]", "C05", "scn_weibull", (4, (), True, True), "mean_rate_is_mu")
    add("C12.subst.q.HKY", "C04", "scn_q", ("HKY", (), ()), "detailed_balance")
    # node-height transforms: heights and Jacobian terms
    add("C12.nodeheight.ratios.ladj[((0,1),(2,3))]", "C07", "scn_nodeheight", ("((0,1),(2,3))", "hetero", "ratios", ()), "tree_model_call_returns_ladj")
    for kind in ("ratios", "shifts"):
        add("C12.nodeheight.%s.heights[(0,(1,(2,3)))]" % kind, "C06", "scn_ratio" if kind == "ratios" else "scn_diff",
            ("(0,(1,(2,3)))", "ties", ()) if kind == "ratios" else ("(0,(1,(2,3)))", "ties", (), 0), "branch_is_parent_minus_child")
    # coalescents
    for model, grid in (("constant", None), ("exponential", None), ("skyride", None), ("skygrid", [0.4, 2.5]), ("linear", [0.4, 2.5])):
        for T in ((2, 3) if tier == "quick" else (2, 3, 4)):
            if T >= 3 and model == "linear":
                continue   # hundreds of paths x per-variable derivatives of log-ratio terms: covered at T=2
            a = (model, T, "serial", (), ()) + ((grid,) if grid else ())
            add("C12.coalescent.%s[T=%d]" % (model, T), "C08", "scn_coalescent", a, "log_prob_is_kingman")
    # birth-death skyline: one epoch (closed form) and two epochs (the p/A/B recursion over epochs runs)
    add("C12.bdsk.single_epoch[T=2]", "C09", "scn_density", (2, 1, "sym", True), "log_density")
    add("C12.bdsk.two_epochs[T=2]", "C12", "scn_bdsk", (2, 1, "sym", True, 2), "log_density", timeout=900)
    # GMRF family
    add("C12.gmrf.plain[N=5]", "C20", "scn_gmrf", ("plain", 5, ()), "density_is_quadratic_form_of_published_precision")
    add("C12.gmrf.weighted[N=4]", "C20", "scn_gmrf", ("weighted", 4, ()), "density_is_quadratic_form_of_published_precision")
    add("C12.gmrf.timeaware[N=3]", "C20", "scn_gmrf", ("timeaware", 3, ()), "density_is_quadratic_form_of_published_precision")
    add("C12.gmrf.integrated[N=4]", "C20", "scn_gmrf_integrated", (4, 0.7, 1.3, ()), "integrated_gmrf_closed_form")
    add("C12.coalescent.integrated[T=3]", "C20", "scn_coalescent_integrated", (3, "serial", 1.5, 0.8), "integrated_coalescent_closed_form")
    # CTMC scale and tree prior (densities also checked against their formulas)
    for T in (3, 4):
        obs.append(scenario_ob("C12", "C12.density.ctmc_scale[T=%d]" % T, "V", "scn_ctmc", (T, ()), clause="CTMC scale density (reference-prior formula)", funcs=FUNCS, seed=seed))
        add("C12.ctmc_scale[T=%d]" % T, "C12", "scn_ctmc", (T, ()), "ctmc_scale_density")
    obs.append(scenario_ob("C12", "C12.density.ctmc_scale[T=3,batch=(2,)]", "V", "scn_ctmc", (3, (2,)), clause="CTMC scale density (batched)", funcs=FUNCS, seed=seed))
    for T in (4, 5):
        obs.append(scenario_ob("C12", "C12.density.compound_gamma_dirichlet[T=%d]" % T, "V", "scn_cgd", (T,), clause="compound gamma-Dirichlet density", funcs=FUNCS, seed=seed))
        add("C12.compound_gamma_dirichlet[T=%d]" % T, "C12", "scn_cgd", (T,), "compound_gamma_dirichlet_density")
    return obs
