"""C15 - every MCMC transition is a Metropolis-Hastings step on the stated target (DESIGN 4 C15, A.4).

Contracts on the REAL code of the working tree (imported / re-parsed on every run, nothing re-implemented):

  C15.loop.*       (U)  the `while` loop of the real `MCMC.run`, cut with `ast` (vt.loopcut): the body statements are
                        compiled verbatim and executed once on a generic pre-state.  operator / joint / loggers are
                        recording contract proxies; `torch.rand` and `torch.distributions.Categorical` are replaced in the
                        module namespace by stubs returning the chosen draw u and the chosen operator index.
                        - accept rule, finite values: LJ, LJ', h, u are *symbolic reals* (vt.symtorch.ST inside
                          vt.cond.Explorer); the comparisons the code makes fork; for every path z3 proves
                             accepted <=> u < min(1, EXP(LJ' - LJ + h))
                          with EXP an uninterpreted function carrying the instantiated axioms of exp (positivity, strict
                          monotonicity, EXP(0)=1, EXP(a+b)=EXP(a)EXP(b) on the terms that occur).
                        - the same body on a complete split of sign / size classes of concrete IEEE values, incl. +-inf, nan.
                        - protocol: which density is used, accept()/reject() exactly once, log_joint update, loggers after the
                          decision and self-consistent, tune once with the acceptance probability, invariant, prefix.
  C15.log.*        (U/B) logged rows are self-consistent with REAL Parameter / Distribution / JointDistributionModel /
                        ContainerLogger objects (cache coherence after reject, whole real runs).
  C15.restore.*    (U)  real `MCMCOperator.step` / `reject`: clones saved before `_step`, restored through the public setter;
                        every real operator class + adversarial in-place subclass; listeners notified.
  C15.hastings.*   (V)  scenario harness, symbolic values: the value returned by the real `_step` equals the log ratio of
                        reverse to forward proposal densities, the densities being *derived from the operator's own random
                        map* (change of variables from the uniform draw), or the Dirichlet densities written out.
  C15.tune.*       (U)  the real `tune` / `learn` on symbolic values (math.log/exp/sqrt of the module namespace replaced by
                        their symbolic counterparts): direction of the proposal-scale change, z3 with EXP monotone; plus the
                        re-parameterisation identity; (B) grid of concrete values on the real classes with real math.
  C15.gmrf.*       (U)  +-inf return paths of the GMRF block operator through the real loop (restore), its Hastings ratio is
                        declared undecidable here (Newton iterations + Cholesky) and NOT claimed.
  C15.vacuity.*         must-fail twins (patched copies of the loop body / operator subclasses) that have to be refuted.

Decision taken against the literal statement (reported): the statement's rule gives "accept" for a Hastings value of
+inf (min(1, exp(+inf)) = 1).  The code rejects on +inf, and the only producers of +inf in the tree are failure
sentinels (GMRF block operator: Cholesky failure; HMC operator: 10 failed trials) for which no proposal density
exists; accepting would commit a half-made proposal.  The sidecar therefore requires REJECT + RESTORE for h = +inf and
for a proposed log density of +inf (not a density value), and the literal formula everywhere else (h = -inf, nan,
LJ' = -inf, nan  =>  reject, because `u < nan` and `u < 0` are false).
"""
from __future__ import annotations

import ast
import contextlib
import importlib
import io
import itertools
import math
import types
from fractions import Fraction as Q

import numpy as np
import torch

from vt import loopcut15, nf, smt
from vt.cond import Cond, Explorer, Undecided
from vt.runner import Ob, Refuted
from vt.scenario import el, scenario_ob, slgamma, slog
from vt.symtorch import ST, sym

MM = "torchtree.inference.mcmc.mcmc"
OM = "torchtree.inference.mcmc.operator"

FUNCS = [
    "torchtree.inference.mcmc.mcmc:MCMC.run",
    "torchtree.inference.mcmc.mcmc:MCMC.__init__",
    "torchtree.inference.mcmc.operator:MCMCOperator.step",
    "torchtree.inference.mcmc.operator:MCMCOperator.accept",
    "torchtree.inference.mcmc.operator:MCMCOperator.reject",
    "torchtree.inference.mcmc.operator:MCMCOperator.tune",
    "torchtree.inference.mcmc.operator:ScalerOperator._step",
    "torchtree.inference.mcmc.operator:ScalerOperator.adaptable_parameter",
    "torchtree.inference.mcmc.operator:ScalerOperator.set_adaptable_parameter",
    "torchtree.inference.mcmc.operator:SlidingWindowOperator._step",
    "torchtree.inference.mcmc.operator:SlidingWindowOperator.adaptable_parameter",
    "torchtree.inference.mcmc.operator:SlidingWindowOperator.set_adaptable_parameter",
    "torchtree.inference.mcmc.operator:DirichletOperator._step",
    "torchtree.inference.mcmc.operator:DirichletOperator.adaptable_parameter",
    "torchtree.inference.mcmc.operator:DirichletOperator.set_adaptable_parameter",
    "torchtree.inference.mcmc.gmrf_block_updating:GMRFPiecewiseCoalescentBlockUpdatingOperator._step",
    "torchtree.inference.mcmc.gmrf_block_updating:GMRFPiecewiseCoalescentBlockUpdatingOperator.propose_precision",
    "torchtree.inference.mcmc.gmrf_block_updating:GMRFPiecewiseCoalescentBlockUpdatingOperator.adaptable_parameter",
    "torchtree.inference.mcmc.gmrf_block_updating:GMRFPiecewiseCoalescentBlockUpdatingOperator.set_adaptable_parameter",
    "torchtree.inference.hmc.operator:HMCOperator._step",
    "torchtree.inference.hmc.operator:HMCOperator.tune",
    "torchtree.inference.hmc.operator:HMCOperator.adaptable_parameter",
    "torchtree.inference.hmc.operator:HMCOperator.set_adaptable_parameter",
    "torchtree.inference.hmc.adaptation:AdaptiveStepSize.learn",
    "torchtree.inference.hmc.adaptation:DualAveragingStepSize.learn",
    "torchtree.ops.dual_averaging:DualAveraging.step",
    "torchtree.core.logger:Logger.log",
    "torchtree.core.logger:ContainerLogger.log",
    "torchtree.core.parameter:Parameter.tensor",
    "torchtree.core.model:CallableModel.__call__",
]


def _mm():
    import importlib
    return importlib.import_module(MM)


def _om():
    import importlib
    return importlib.import_module(OM)


# =====================================================================================================
# module-namespace stubs (each one is a named assumed contract, listed in META.trusted_base)
# =====================================================================================================
class _NS:
    """attribute proxy: overrides first, then the wrapped object"""

    def __init__(self, real, **over):
        object.__setattr__(self, "_real", real)
        object.__setattr__(self, "_over", dict(over))

    def __getattr__(self, name):
        o = object.__getattribute__(self, "_over")
        if name in o:
            return o[name]
        return getattr(object.__getattribute__(self, "_real"), name)


@contextlib.contextmanager
def _module_names(mod, **names):
    """temporarily rebind global names of a repository module (restored in finally)"""
    missing = object()
    saved = {k: mod.__dict__.get(k, missing) for k in names}
    try:
        mod.__dict__.update(names)
        yield
    finally:
        for k, v in saved.items():
            if v is missing:
                mod.__dict__.pop(k, None)
            else:
                mod.__dict__[k] = v


class _Cat:
    """contract of torch.distributions.Categorical(w).sample().item(): some index of w (the chosen one)"""

    def __init__(self, index, seen):
        self.index, self.seen = index, seen

    def __call__(self, weights, *a, **k):
        self.seen.append([float(w) for w in weights])
        return self

    def sample(self, *a, **k):
        return self

    def item(self):
        return self.index


def _loop_torch(u, index, seen_weights, rand_calls):
    """`torch` as seen by the module of MCMC during one cut-loop obligation: rand(1) -> the chosen draw u in [0,1),
    distributions.Categorical(w).sample().item() -> the chosen operator index; everything else is the real torch"""
    def rand(*shape, **k):
        rand_calls.append(shape)
        return u
    dist = _NS(torch.distributions, Categorical=_Cat(index, seen_weights))
    return _NS(torch, rand=rand, distributions=dist)


# =====================================================================================================
# C15.loop: proxies, one generic iteration
# =====================================================================================================
class World:
    """ghost state of one iteration: which parameter state is current, and the opaque target pi(state)"""

    def __init__(self, pi0, pi1):
        self.state = "S0"            # S0: state before the proposal; S1: proposed state
        self.pi = {"S0": pi0, "S1": pi1}
        self.events = []

    def joint(self):
        self.events.append(("joint", self.state))
        return self.pi[self.state]


class OpProxy:
    """contract of an operator as far as MCMC.run may rely on it"""

    def __init__(self, world, k, h, weight=1.0, integrator=False):
        self._w, self._k, self._h = world, k, h
        self.weight = weight
        self.parameters = []
        self.id = "op%d" % k
        if integrator:
            self._integrator = types.SimpleNamespace(step_size=0.125)

    def step(self):
        self._w.events.append(("step", self._k))
        self._w.state = "S1"
        return self._h

    def accept(self):
        self._w.events.append(("accept", self._k, self._w.state))

    def reject(self):
        self._w.events.append(("reject", self._k, self._w.state))
        self._w.state = "S0"

    def tune(self, *a, **kw):
        self._w.events.append(("tune", self._k, a, kw))


class LoggerProxy:
    """a logger of the joint and of the parameters: at log time it reads the current state and asks the joint for its
    value, like core.logger.Logger does with a CallableModel (`obj()`)"""

    def __init__(self, world, j):
        self._w, self._j = world, j

    def initialize(self):
        self._w.events.append(("initialize", self._j))

    def log(self, *a, **kw):
        self._w.events.append(("log", self._j, self._w.state, self._w.pi[self._w.state], a, kw))

    def close(self):
        self._w.events.append(("close", self._j))


def _same(a, b):
    """identity of two scalar values (symbolic: nf; concrete: bit pattern incl. nan)"""
    if isinstance(a, ST) or isinstance(b, ST):
        if not (isinstance(a, ST) and isinstance(b, ST)):
            return False
        return a.a.shape == b.a.shape and all(nf.equal(x, y) for x, y in zip(a.a.reshape(-1), b.a.reshape(-1)))
    if isinstance(a, torch.Tensor) and isinstance(b, torch.Tensor):
        return a.shape == b.shape and a.dtype == b.dtype and bool(((a == b) | (torch.isnan(a) & torch.isnan(b))).all())
    return a is b or a == b


def _build(cut_fn, LJ, LJp, hs, u, index, n_loggers=2, epoch=7, every=0, integrator=False, checkpoint=None, freq=1000):
    """real MCMC instance (real constructor) over proxies + the pre-state of one generic iteration"""
    mm = _mm()
    w = World(LJ, LJp)
    ops = [OpProxy(w, k, h, weight=1.0 + k, integrator=integrator) for k, h in enumerate(hs)]
    loggers = [LoggerProxy(w, j) for j in range(n_loggers)]
    mcmc = mm.MCMC("mcmc", w.joint, ops, 10 ** 6, loggers=loggers, checkpoint=checkpoint, checkpoint_frequency=freq, every=every)
    mcmc._epoch = epoch
    saves = []
    mcmc.save_full_state = lambda: saves.append(("save", mcmc._epoch, w.state))   # instance attribute: file system is C18's subject
    return mm, w, ops, mcmc, saves


class _Roles:
    """The loop-carried locals of MCMC.run identified by ROLE from the structure of the current source — which collaborator call binds
    them — never by name, so that renaming a local is not an alarm:
        lj       bound before the loop from `<self>.joint()`                 (density of the current state)
        ljp      bound in the loop from `<self>.joint()`                     (density of the proposal)
        hr       bound in the loop from `<operator>.step()`                  (log Hastings ratio)
        handler  the X of `if X.stop: break`
        acc      the name passed as `accepted=` to `<operator>.tune(...)`    (the decision)
        cnts     locals incremented in the loop (acceptance counter for the progress print-out: given a value, nothing claimed)
    A role that cannot be identified uniquely is Undecided (the loop no longer has the shape the contract is written for)."""

    def __init__(self, c):
        loop, fdef = c.loop_ast, c.func_ast
        pre = fdef.body[:fdef.body.index(loop)]

        def from_call(nodes, attr):
            out = set()
            for st in nodes:
                for x in ast.walk(st):
                    if isinstance(x, ast.Assign) and len(x.targets) == 1 and isinstance(x.targets[0], ast.Name):
                        v = x.value
                        if isinstance(v, ast.Call) and isinstance(v.func, ast.Attribute) and v.func.attr == attr:
                            out.add(x.targets[0].id)
            return out

        def one(what, names):
            if len(names) != 1:
                raise Undecided("MCMC.run: cannot identify the local that holds %s (candidates %s)" % (what, sorted(names)))
            return next(iter(names))
        self.self_ = c.params[0]
        self.lj = one("the density of the current state (bound from .joint() before the loop)", from_call(pre, "joint"))
        # the next two are only needed to BUILD must-fail twins: identified lazily (a twin may have removed the call itself)
        self._lazy = {"ljp": lambda: one("the density of the proposal (bound from .joint() in the loop)", from_call(loop.body, "joint")),
                      "hr": lambda: one("the log Hastings ratio (bound from .step())", from_call(loop.body, "step"))}
        self.handler = one("the stop handler (`if X.stop: break`)",
                           {x.test.value.id for x in ast.walk(loop) if isinstance(x, ast.If) and isinstance(x.test, ast.Attribute)
                            and x.test.attr == "stop" and isinstance(x.test.value, ast.Name)})
        self.acc = one("the decision (passed as accepted= to .tune())",
                       {kw.value.id for x in ast.walk(loop) if isinstance(x, ast.Call) and isinstance(x.func, ast.Attribute) and x.func.attr == "tune"
                        for kw in x.keywords if kw.arg == "accepted" and isinstance(kw.value, ast.Name)})
        # acceptance counter(s) (locals incremented in the loop): only given a value so that the body can run; nothing is claimed about them
        self.cnts = sorted({x.target.id for x in ast.walk(loop) if isinstance(x, ast.AugAssign) and isinstance(x.target, ast.Name)})

    def __getattr__(self, name):
        lazy = self.__dict__.get("_lazy", {})
        if name in lazy:
            v = lazy[name]()
            setattr(self, name, v)
            return v
        raise AttributeError(name)

    def state(self, mcmc, cnt, handler, lj):
        st = {self.self_: mcmc, self.handler: handler, self.lj: lj}
        st.update({n: cnt for n in self.cnts})
        return st

    def canon(self, loc):
        """the locals under the contract's own names (log_joint, accept, accepted, handler), whatever the code calls them"""
        out = dict(loc)
        for canon_name, actual in (("log_joint", self.lj), ("accepted", self.acc), ("handler", self.handler)):
            if canon_name != actual:
                out.pop(canon_name, None)
                if actual in loc:
                    out[canon_name] = loc[actual]
        return out


def _roles(c):
    r = getattr(c, "_vt_roles", None)
    if r is None:
        r = c._vt_roles = _Roles(c)
    return r


def _carried_locals(cut, n_ops, index, kw):
    """locals after one real, reachable earlier iteration (finite densities, accepted with probability one)"""
    key = (n_ops, index, tuple(sorted((k, repr(v)) for k, v in kw.items())))
    cache = cut.__dict__.setdefault("_vt_carried", {})
    if key not in cache:
        LJ0, LJ1 = _t(-4.5), _t(-1.25)
        hs0 = [_t(0.0) for _ in range(n_ops)]
        u0 = torch.tensor([0.25], dtype=torch.float64)
        mm, w, ops, mcmc, saves = _build(cut, LJ0, LJ1, hs0, u0, index, **kw)
        R = _roles(cut)
        st = R.state(mcmc, 2, types.SimpleNamespace(stop=False), LJ0)
        try:
            with _module_names(mm, torch=_loop_torch(u0, index, [], [])), contextlib.redirect_stdout(io.StringIO()):
                tagv, loc = cut.body(st)
        except Exception:
            tagv, loc = "failed", {}
        cache[key] = {k: v for k, v in loc.items() if k not in st} if tagv == "next" else {}
    return dict(cache[key])


def run_iteration(cut, LJ, LJp, hs, u, index, **kw):
    """execute the verbatim loop body once; returns the record the obligations talk about"""
    mm, w, ops, mcmc, saves = _build(cut, LJ, LJp, hs, u, index, **kw)
    epoch0 = mcmc._epoch
    seen_w, rand_calls = [], []
    R = _roles(cut)
    state = R.state(mcmc, 3, types.SimpleNamespace(stop=False), LJ)
    # loop-carried locals the invariant says nothing about (whatever an EARLIER iteration left bound: a proposal density, an
    # acceptance probability, ...) hold the values a reachable earlier iteration leaves behind - an accepted move with
    # acceptance probability one, on a world of its own - never "unbound": a body that reads one of them sees a stale value
    for k_, v_ in _carried_locals(cut, len(hs), index, kw).items():
        state.setdefault(k_, v_)
    out = io.StringIO()
    with _module_names(mm, torch=_loop_torch(u, index, seen_w, rand_calls)), contextlib.redirect_stdout(out):
        tagv, loc = cut.body(state)
    loc = R.canon(loc)
    missing = [k for k in ("accepted", "log_joint") if tagv == "next" and k not in loc]
    if missing:
        raise Undecided("the loop body no longer binds the local variable(s) %s the contract reads" % missing)
    return {"tag": tagv, "loc": loc, "world": w, "events": list(w.events), "mcmc": mcmc, "epoch0": epoch0, "accept0": 3,
            "weights": seen_w, "rand_calls": rand_calls, "index": index, "saves": saves, "n_ops": len(hs),
            "n_loggers": kw.get("n_loggers", 2), "LJ": LJ, "LJp": LJp, "hs": hs, "u": u, "printed": out.getvalue()}


def protocol_failures(r):
    """postconditions of one iteration that do not depend on WHICH way the decision went (A.4); returns list of str"""
    f = []
    ev, k, w = r["events"], r["index"], r["world"]
    loc = r["loc"]
    if r["tag"] != "next":
        return ["the iteration ended with %r although no stop was requested" % r["tag"]]
    accepted = loc.get("accepted")
    if not isinstance(accepted, bool):
        f.append("`accepted` is %r, not a bool" % (accepted,))
    # only the selected operator is touched, weights offered to the schedule are the operators' weights
    for e in ev:
        if e[0] in ("step", "accept", "reject", "tune") and e[1] != k:
            f.append("operator %d was touched although operator %d was selected: %r" % (e[1], k, e[0]))
    if r["weights"] != [[1.0 + i for i in range(r["n_ops"])]]:
        f.append("operator schedule drawn from weights %r" % (r["weights"],))
    names = [e[0] for e in ev]
    # (1) the density of the proposal is evaluated AFTER step() (state S1), never before, at most once, before the decision
    if names.count("step") != 1 or names[0] != "step":
        f.append("operator.step() is not the first collaborator call / not called exactly once: %s" % names)
    joints = [(i, e) for i, e in enumerate(ev) if e[0] == "joint"]
    dec = [i for i, e in enumerate(ev) if e[0] in ("accept", "reject")]
    if len(dec) != 1:
        f.append("accept()/reject() called %d times in one iteration" % len(dec))
        return f
    d = dec[0]
    for i, e in joints:
        if i < d and e[1] != "S1":
            f.append("the joint was evaluated at the OLD state for the proposal")
    if accepted and not any(i < d and e[1] == "S1" for i, e in joints):
        f.append("move accepted without evaluating the joint at the proposed state")
    # (3) accept => accept() once, log_joint := LJ'; reject => reject() once, log_joint unchanged, state restored
    kind = ev[d][0]
    if accepted is True:
        if kind != "accept":
            f.append("accepted but operator.reject() was called")
        if not _same(loc["log_joint"], r["LJp"]):
            f.append("accepted but log_joint is not the density of the proposed state")
        if w.state != "S1":
            f.append("accepted but the state was restored")
    else:
        if kind != "reject":
            f.append("rejected but operator.accept() was called")
        if not _same(loc["log_joint"], r["LJ"]):
            f.append("rejected but log_joint changed")
        if w.state != "S0":
            f.append("rejected but the state was not restored")
    # (6) invariant: log_joint carried to the next iteration is pi(current state)
    if not _same(loc["log_joint"], w.pi[w.state]):
        f.append("invariant broken: log_joint is not pi(current state)")
    # (4) every logger runs once, after the decision, sees the post-decision state and a density equal to log_joint
    logs = [(i, e) for i, e in enumerate(ev) if e[0] == "log"]
    if [e[1] for _, e in logs] != list(range(r["n_loggers"])):
        f.append("loggers called %s, expected each once in order" % [e[1] for _, e in logs])
    for i, e in logs:
        if i < d:
            f.append("logger %d ran BEFORE the accept/reject decision (would log the proposed state)" % e[1])
        if e[2] != w.state:
            f.append("logger %d saw state %s, final state is %s" % (e[1], e[2], w.state))
        if not _same(e[3], loc["log_joint"]):
            f.append("logger %d: logged density differs from the chain's log_joint" % e[1])
        if e[5] != {"sample": r["epoch0"]} or e[4] != ():
            f.append("logger %d called with %r %r, expected sample=%d" % (e[1], e[4], e[5], r["epoch0"]))
    # (5) tune once, after the decision, with (acceptance_prob, sample=epoch, accepted=accepted)
    tunes = [(i, e) for i, e in enumerate(ev) if e[0] == "tune"]
    if len(tunes) != 1:
        f.append("tune called %d times" % len(tunes))
    else:
        i, e = tunes[0]
        a, kw = e[2], e[3]
        allargs = dict(zip(("acceptance_prob", "sample", "accepted"), a))
        allargs.update(kw)
        if i < d:
            f.append("tune called before the decision")
        if allargs.get("sample") != r["epoch0"] or allargs.get("accepted") is not accepted or "acceptance_prob" not in allargs:
            f.append("tune called with %r %r" % (a, kw))
        r["tune_prob"] = allargs.get("acceptance_prob")
    # (6) _epoch advances by one
    if r["mcmc"]._epoch != r["epoch0"] + 1:
        f.append("_epoch went from %d to %d" % (r["epoch0"], r["mcmc"]._epoch))
    # a checkpoint (if any) is taken after the decision and never changes the state
    for s in r["saves"]:
        if s[2] != w.state:
            f.append("save_full_state saw a state that is not the post-decision state")
    return f


# ---------------------------------------------------------------------------------------------------
# symbolic accept rule: z3 with EXP uninterpreted
# ---------------------------------------------------------------------------------------------------
class ExpTranslator(smt.Translator):
    """nf terms -> z3 where every exp(.) atom becomes EXP(arg) for one uninterpreted EXP : R -> R"""

    def __init__(self):
        super().__init__()
        import z3
        self.EXP = z3.Function("EXP", z3.RealSort(), z3.RealSort())
        self.exp_args = []

    def atom(self, i):
        kind, payload = nf.ATOMS.atoms[i]
        if kind == "exp":
            v = self.vars.get(i)
            if v is None:
                mono, den = nf._FN_ARGS[i]
                arg = nf.RF(nf.Poly({mono: Q(1)}), den if den is not None else nf.ONE_P)
                za = self.rf(arg)
                v = self.EXP(za)
                self.vars[i] = v
                self.exp_args.append(za)
            return v
        if kind not in ("var", "root", "logc", "e", "cpow", "log"):
            raise Undecided("C15: atom kind %r has no z3 meaning here" % kind)
        if kind == "log":
            raise Undecided("C15: unexpected log atom %s in a tuning / accept term" % nf.atom_name(i))
        return super().atom(i)

    def mono(self, m):
        """as smt.Translator.mono, except that a FRACTIONAL power of an exp atom is exp(e * arg) (identity exp(a)^e = exp(e a)); the
        generic translation would introduce an L-th root through a product of L factors"""
        import z3
        r = None
        for i, e in m:
            kind, _ = nf.ATOMS.atoms[i]
            if kind == "exp" and not (isinstance(e, int) or e.denominator == 1):
                mono, den = nf._FN_ARGS[i]
                arg = nf.RF(nf.Poly({mono: Q(1)}), den if den is not None else nf.ONE_P) * abs(Q(e))
                za = self.rf(arg)
                self.exp_args.append(za)
                t = self.EXP(za) if e > 0 else 1 / self.EXP(za)      # exp(a)^(-e) = 1 / exp(e a)
            else:
                t = smt.Translator.mono(self, ((i, e),))
            r = t if r is None else r * t
        return z3.RealVal(1) if r is None else r

    def exp_axioms(self, extra_args=()):
        """instances of: EXP > 0, EXP(0) = 1, strict monotonicity - on all argument terms that occur"""
        import z3
        args = list(self.exp_args) + list(extra_args)
        ax = [self.EXP(z3.RealVal(0)) == 1]
        pts = args + [z3.RealVal(0)]
        for a in args:
            ax.append(self.EXP(a) > 0)
        for a, b in itertools.combinations(pts, 2):
            ax.append(z3.Implies(a < b, self.EXP(a) < self.EXP(b)))
            ax.append(z3.Implies(b < a, self.EXP(b) < self.EXP(a)))
        return ax


def _z3_prove(tr, assumptions, goal, timeout_ms=20000):
    """assumptions |- goal ?  -> (True, None) | (False, model) | (None, None)"""
    import time
    import z3
    t0 = time.time()
    s = z3.Solver()
    s.set("timeout", timeout_ms)
    for a in assumptions:
        s.add(a)
    for a in tr.axioms:
        s.add(a)
    s.add(z3.Not(goal))
    r = s.check()
    smt.STATS["queries"] += 1
    smt.STATS["seconds"] += time.time() - t0
    if r == z3.unsat:
        return True, None
    if r == z3.sat:
        return False, s.model()
    smt.STATS["unknown"] += 1
    return None, None


def _model_floats(tr, model, names):
    out = {}
    for i, v in tr.vars.items():
        kind, payload = nf.ATOMS.atoms[i]
        if kind == "var" and payload in names:
            val = smt._z3val(model.eval(v, model_completion=True))
            out[payload] = float(val) if val is not None else None
    return out


def symbolic_accept_rule(cut, n_ops=1, index=0):
    """run the body on symbolic reals; per feasible path prove accepted <=> u < min(1, EXP(LJ' - LJ + h)) and
    tune's acceptance probability = min(1, EXP(LJ' - LJ + h)).  returns stats or raises Refuted/Undecided"""
    import z3

    def run():
        LJ, LJp = sym("LJ"), sym("LJp")
        hs = [sym("h%d" % k) for k in range(n_ops)]
        u = sym("u", (1,), nonneg=True)
        from vt.cond import assume
        assume(Cond.make(u.a[0] - 1, "<"))
        r = run_iteration(cut, LJ, LJp, hs, u, index)
        r["fail"] = protocol_failures(r)
        return r

    ex = Explorer(max_paths=64, timeout_ms=10000)
    results = ex.run(run)
    if len(results) < 3:
        raise Undecided("symbolic run of the loop body produced %d paths; expected >= 3 (log_alpha<0 x accepted / not, log_alpha>=0)" % len(results))
    stats = {"paths": len(results), "accepted_paths": 0, "rejected_paths": 0, "z3_goals": 0}
    for r, path in results:
        if r["fail"]:
            raise Refuted("protocol obligation fails on a symbolic path: " + "; ".join(r["fail"]),
                          witness={"path": [str(c) for c in path], "failures": r["fail"]},
                          replay={"kind": "custom", "contract": "C15", "func": "replay_loop_grid", "args": {}},
                          confirmed=_confirm_on_grid(cut)[0])
        tr = ExpTranslator()
        pc = [tr.cond(c) for c in path]
        LJ, LJp, h, u = (tr.rf(x.a.reshape(-1)[0]) for x in (r["LJ"], r["LJp"], r["hs"][index], r["u"]))
        d = LJp - LJ + h
        E = tr.EXP(d)
        spec_p = z3.If(E < 1, E, z3.RealVal(1))
        # instance of exp(a+b) = exp(a) exp(b) for the specification's argument
        hom = [E * tr.EXP(LJ) == tr.EXP(LJp) * tr.EXP(h)]
        # the probability handed to tune (read before the axioms are instantiated so that its EXP terms are covered)
        tp = r.get("tune_prob")
        tpz = tr.rf(tp.a.reshape(-1)[0]) if isinstance(tp, ST) else (
            tr.rf(nf.const(Q(float(tp)))) if isinstance(tp, torch.Tensor) and tp.numel() == 1 else None)
        ax = tr.exp_axioms([d, LJ, LJp, h]) + hom + [u >= 0, u < 1]
        acc = z3.BoolVal(bool(r["loc"]["accepted"]))
        ok, model = _z3_prove(tr, pc + ax, acc == (u < spec_p))
        stats["z3_goals"] += 1
        if ok is None:
            raise Undecided("z3 unknown on the accept rule (path %s)" % [str(c) for c in path])
        if ok is False:
            wit = _model_floats(tr, model, {"LJ", "LJp", "h%d" % index, "u[0]"})
            conf, cw = _confirm_on_grid(cut, want="accept_rule")
            raise Refuted("accept rule: on the path %s the code decides accepted=%s, which is not equivalent to u < min(1, exp(LJ'-LJ+h)); "
                          "z3 model (EXP uninterpreted) %s; concrete disagreement on the real code: %s"
                          % ([str(c) for c in path], r["loc"]["accepted"], wit, cw),
                          witness={"path": [str(c) for c in path], "z3_model": wit, "concrete": cw},
                          replay={"kind": "custom", "contract": "C15", "func": "replay_accept", "args": cw} if cw else None, confirmed=conf)
        if tpz is None:
            raise Undecided("tune did not receive a symbolic acceptance probability")
        ok, model = _z3_prove(tr, pc + ax, tpz == spec_p)
        stats["z3_goals"] += 1
        if ok is None:
            raise Undecided("z3 unknown on the tune argument")
        if ok is False:
            raise Refuted("tune receives %s, which is not min(1, exp(LJ'-LJ+h)) on path %s" % (nf.show(tp.a.reshape(-1)[0]) if isinstance(tp, ST) else tp, [str(c) for c in path]),
                          witness={"path": [str(c) for c in path]}, replay=None, confirmed=None)
        stats["accepted_paths" if r["loc"]["accepted"] else "rejected_paths"] += 1
    if not (stats["accepted_paths"] and stats["rejected_paths"]):
        raise Undecided("vacuous: the symbolic run never %s" % ("accepted" if not stats["accepted_paths"] else "rejected"))
    return stats


# ---------------------------------------------------------------------------------------------------
# concrete class split (IEEE values incl. +-inf / nan) on the same verbatim body
# ---------------------------------------------------------------------------------------------------
INF, NAN = float("inf"), float("nan")


def _texp(d):
    """exp as torch computes it in float64 (the trusted meaning of exp on floats)"""
    return float(torch.tensor(d, dtype=torch.float64).exp())


def spec_decision(LJ, LJp, h, u):
    """(accepted, acceptance probability) from the STATEMENT, IEEE extended reals.
    'accepted exactly when u < min(1, exp(dLJ + h))', i.e. u < 1 and u < exp(.) (false when exp(.) is nan);
    sidecar decision (module docstring): h = +inf and LJ' = +inf are failure sentinels / not a density: reject."""
    if h == INF or LJp == INF:
        return False, 0.0
    d = (LJp - LJ) + h
    if d != d:
        return False, 0.0
    e = _texp(d)
    p = e if e < 1.0 else 1.0
    return (u < 1.0 and u < e), p


def finite_cases():
    """every branch region of the accept test: d = LJ'-LJ+h  <0, =0, >0 (moderate / extreme);  u below / equal / above
    exp(min(0,d)); with the change split differently between the density difference and the Hastings term"""
    cases = []
    for LJ in (-3.25, 0.0, 412.5, -INF):
        for d in (-2.0, -1e-9, -745.0, -800.0, 0.0, 1e-9, 1.5, 710.0, 800.0):
            for h in (0.0, -0.75, 2.5, d):
                if LJ == -INF:
                    LJp = -7.5
                    if h != 0.0:
                        continue
                else:
                    LJp = LJ + (d - h)
                dd = (LJp - LJ) + h
                p = _texp(min(0.0, dd)) if dd == dd else 0.0
                us = {0.0, 1e-300, 0.5, 1.0 - 2 ** -53, p}
                for eps in (2 ** -30, 2 ** -52):
                    us.update({p * (1 - eps), p * (1 + eps)})
                for u in sorted(x for x in us if 0.0 <= x < 1.0):
                    cases.append((LJ, LJp, h, u))
    return cases


def nonfinite_cases():
    out = []
    for h in (INF, -INF, NAN):
        for LJp in (-3.0, 5.0):
            out.append((-3.25, LJp, h, 0.3))
    for LJp in (NAN, -INF, INF):
        for h in (0.0, 1.5, -1.5):
            out.append((-3.25, LJp, h, 0.3))
    for h in (INF, -INF, NAN):
        for LJp in (NAN, -INF, INF):
            out.append((-3.25, LJp, h, 0.0))
    return out


def _t(x):
    return torch.tensor(float(x), dtype=torch.float64)


def concrete_iteration(cut, LJ, LJp, h, u, n_ops=1, index=0, **kw):
    hs = [_t(h if k == index else 0.123 * (k + 1)) for k in range(n_ops)]
    r = run_iteration(cut, _t(LJ), _t(LJp), hs, torch.tensor([float(u)], dtype=torch.float64), index, **kw)
    r["fail"] = protocol_failures(r)
    return r


def decision_failures(r, LJ, LJp, h, u):
    f = []
    acc_s, p_s = spec_decision(LJ, LJp, h, u)
    acc_c = r["loc"].get("accepted")
    if acc_c is not acc_s:
        f.append("accepted=%s, the statement requires %s" % (acc_c, acc_s))
    tp = r.get("tune_prob")
    if tp is not None:
        tpf = float(tp)
        if not (tpf == p_s or abs(tpf - p_s) <= 1e-15 * max(1.0, abs(p_s))):
            f.append("tune received acceptance probability %r, expected %r" % (tpf, p_s))
    return f


def _case_key(c):
    return [repr(float(x)) for x in c]


def _confirm_on_grid(cut=None, want=None):
    """search the concrete class split for a disagreement of the REAL whole MCMC.run (not the cut) with the statement:
    (confirmed, witness args for replay_accept)"""
    for c in finite_cases()[::3] + nonfinite_cases():
        ok, msg = replay_accept({"case": _case_key(c)})
        if not ok:
            return True, {"case": _case_key(c), "msg": msg}
    return False, None


# ---------------------------------------------------------------------------------------------------
# replays on the REAL classes: the whole real MCMC.run (one iteration), real Parameter, real operator subclass
# ---------------------------------------------------------------------------------------------------
def real_one_iteration(LJ, LJp, h, u, every=0):
    """the whole real MCMC.run for two iterations: real Parameter, a real SlidingWindowOperator subclass whose `_step` moves x by +10
    and returns 0 the first time and h the second time; target pi(-9.5)=LJ-5, pi(0.5)=LJ, pi(10.5)=LJ'; torch.rand -> u.
    Iteration 1 (-9.5 -> 0.5) is accepted with probability one: it only puts the chain - and every loop-carried local of run() - in
    the state a running chain has; iteration 2 (0.5 -> 10.5) is the one the record describes."""
    mm = _mm()
    from torchtree.core.parameter import Parameter
    from torchtree.inference.mcmc.operator import SlidingWindowOperator

    p = Parameter("x", torch.tensor([-9.5], dtype=torch.float64))
    tuned, rows, jcalls, steps = [], [], [], []

    class FixedMove(SlidingWindowOperator):
        def _step(self):
            q = self.parameters[0]
            q.tensor = q.tensor + 10.0
            steps.append(1)
            return _t(h if len(steps) == 2 else 0.0)

        def tune(self, acceptance_prob, sample, accepted):
            tuned.append((float(acceptance_prob), sample, accepted))

    def joint():
        x = float(p.tensor[0])
        jcalls.append(x)
        return _t(LJ - 5.0 if x == -9.5 else LJ if x == 0.5 else LJp)

    class Rows:
        def initialize(self):
            pass

        def log(self, sample):
            rows.append((sample, float(p.tensor[0]), float(joint())))

        def close(self):
            pass

    op = FixedMove("op", [p], 1.0, 0.24, 0.5)
    mcmc = mm.MCMC("mcmc", joint, [op], 2, loggers=[Rows()], checkpoint=None, every=every)
    rnd = _NS(torch, rand=lambda *a, **k: torch.tensor([float(u)], dtype=torch.float64))
    with _module_names(mm, torch=rnd), contextlib.redirect_stdout(io.StringIO()):
        mcmc.run()
    warm_ok = len(tuned) >= 1 and tuned[0][2] is True
    return {"x": float(p.tensor[0]), "accepts": op._accept - 1, "rejects": op._reject, "tuned": tuned[1:], "rows": rows, "warm_ok": warm_ok}


def replay_accept(args):
    """args: {"case": [LJ, LJ', h, u] as repr strings}.  ok=False: the real MCMC.run disagrees with the statement"""
    LJ, LJp, h, u = (float(x) for x in args["case"])
    acc_s, p_s = spec_decision(LJ, LJp, h, u)
    out = real_one_iteration(LJ, LJp, h, u)
    acc_c = out["accepts"] == 1
    bad = []
    if not out["warm_ok"]:
        bad.append("the preparatory move (density +5, Hastings 0) was not accepted")
    if acc_c is not acc_s:
        bad.append("real MCMC.run %s the move, the statement requires %s" % ("ACCEPTED" if acc_c else "rejected", "accept" if acc_s else "reject"))
    if out["accepts"] + out["rejects"] != 1:
        bad.append("accept/reject bookkeeping: %d/%d" % (out["accepts"], out["rejects"]))
    if out["x"] != (10.5 if acc_c else 0.5):
        bad.append("parameter is %r after a %s move" % (out["x"], "accepted" if acc_c else "rejected"))
    want_row = (2, 10.5, LJp) if acc_c else (2, 0.5, LJ)
    row = out["rows"][-1] if out["rows"] else None
    if row is None or row[0] != 2 or row[1] != want_row[1] or not (row[2] == want_row[2] or (row[2] != row[2] and want_row[2] != want_row[2])):
        bad.append("logged row %r, expected %r" % (row, want_row))
    if len(out["tuned"]) != 1 or not (abs(out["tuned"][0][0] - p_s) <= 1e-15 * max(1.0, p_s)):
        bad.append("tune received %r, expected acceptance probability %r" % (out["tuned"], p_s))
    msg = "LJ=%r LJ'=%r h=%r u=%r (second iteration of a running chain): %s" % (LJ, LJp, h, u, "; ".join(bad) if bad else "agrees with the statement")
    return (not bad), msg


def replay_loop_grid(args):
    """re-run the whole concrete class split on the real MCMC.run; ok=False if any case disagrees"""
    bad = []
    for c in finite_cases()[::3] + nonfinite_cases():
        ok, msg = replay_accept({"case": _case_key(c)})
        if not ok:
            bad.append(msg)
    return (not bad), ("%d disagreeing cases, first: %s" % (len(bad), bad[0]) if bad else "all cases agree")


# =====================================================================================================
# C15.hastings: the value returned by the real `_step` is the log ratio of reverse to forward proposal densities
# =====================================================================================================
def _op_torch(symbolic, u, indices, rec):
    """`torch` as seen by torchtree.inference.mcmc.operator during one scenario: rand(1).item() -> the draw u in [0,1);
    randint(lo, hi, (1,)).item() -> the next chosen index (the bounds are recorded: they must not depend on values)"""
    it = iter(indices)

    def rand(*shape, **k):
        rec.append(("rand", shape))
        return types.SimpleNamespace(item=lambda: u)

    def randint(lo, hi, size, **k):
        rec.append(("randint", lo, hi))
        i = next(it)
        return types.SimpleNamespace(item=lambda: i)
    over = {"rand": rand, "randint": randint}
    if symbolic:
        from vt.symtorch import stensor
        over["tensor"] = stensor
    return _NS(torch, **over)


def _log_ratio(a, b):
    """log(a/b) for a/b > 0; symbolic: the quotient is formed in the direction in which the exact normal form can cancel
    a common polynomial factor (nf divides numerator by denominator, not the other way round)"""
    if isinstance(a, nf.RF) or isinstance(b, nf.RF):
        r1 = nf.as_rf(a) / nf.as_rf(b)
        if r1.d.is_one() or len(r1.d.t) == 1:
            return nf.rlog(r1)
        return -nf.rlog(nf.as_rf(b) / nf.as_rf(a))
    return math.log(a / b)


def _operator_class(kind):
    om = _om()
    base = {"scaler": om.ScalerOperator, "sliding": om.SlidingWindowOperator, "dirichlet": om.DirichletOperator}[kind.split("~")[0]]
    if "~" not in kind:
        return base
    twin = kind.split("~")[1]
    if twin == "signflip":     # must-fail twin: Hastings term with the wrong sign
        class SignFlip(base):
            def _step(self):
                return -base._step(self)
        return SignFlip
    if twin == "zero":         # must-fail twin: Hastings term dropped
        class Zero(base):
            def _step(self):
                return base._step(self) * 0.0
        return Zero
    raise KeyError(kind)


def _clone(t):
    return t.clone()


def _step_1d(kind, xs, tuning, u, index, index2, symbolic):
    """one real step() of a real one-coordinate operator on fresh real Parameters holding clones of xs"""
    from torchtree.core.parameter import Parameter
    om = _om()
    params = [Parameter("p%d" % i, _clone(x)) for i, x in enumerate(xs)]
    op = _operator_class(kind)("op", params, 1.0, 0.24, tuning)
    rec = []
    with _module_names(om, torch=_op_torch(symbolic, u, [index, index2], rec)):
        h = op.step()
    return [p.tensor for p in params], h, rec


def scn_hastings_1d(kind, n_params, dim, index, index2, sign):
    """ScalerOperator / SlidingWindowOperator move ONE coordinate x_j -> x'_j = T(x_j, u) with u ~ U[0,1) and return h.

    Derivation of the true ratio (change of variables, written from the property statement, not from the code): the
    choice of the coordinate is uniform and value-independent (checked: the bounds given to randint), so it cancels.
    Given the coordinate, x'_j has density  q(x'|x) = 1 / |dT/du|(x_j, u)  w.r.t. Lebesgue measure (T monotone in u).
    The reverse move draws u* with T(x'_j, u*) = x_j and has density q(x|x') = 1 / |dT/du|(x'_j, u*).  Hence
        log q(x|x') - log q(x'|x) = log|dT/du|(x_j, u) - log|dT/du|(x'_j, u*).
    Both derivatives are taken from the operator's OWN behaviour: the real `step()` is run forward from x with draw u
    and again from x' with a fresh draw v; dT/du is the exact symbolic derivative of the resulting parameter value
    (concrete mode: Richardson-extrapolated central difference of the real step()).  Obligations: only coordinate j
    moves; the reverse derivative does not depend on v (so no equation has to be solved for u*); u* = (x_j - T(x'_j,0))
    / (dT/dv) lies in [0,1] (the reverse move is proposable); h equals the ratio.
    For the scaler (s = a + u(1/a - a) uniform on [a,1/a], x' = s x) this gives -log s, for the sliding window 0."""
    def scn(mk):
        base = kind.split("~")[0]
        if base == "scaler":
            tun = el(mk.real("a", (), lo=0, hi=1))
        else:
            tun = el(mk.real("w", (), lo=0))
        xs = []
        for i in range(n_params):
            if base == "scaler":
                y = mk.real("y%d" % i, (dim,), lo=0)
                xs.append(y if sign > 0 else -y)
            else:
                xs.append(mk.real("x%d" % i, (dim,)))
        u = el(mk.real("u", (), lo=0, hi=1, lo_incl=True))
        v = el(mk.real("v", (), lo=0, hi=1, lo_incl=True))
        sym_ = mk.symbolic
        post, h, rec = _step_1d(kind, xs, tun, u, index, index2, sym_)
        claims = [("true", "index draws are value-independent",
                   [r for r in rec if r[0] == "randint"] == [("randint", 0, n_params), ("randint", 0, dim)], rec)]
        # frame: only coordinate (index, index2) moves
        for i in range(n_params):
            for j in range(dim):
                if (i, j) != (index, index2):
                    claims.append(("eq", "frame[%d,%d]" % (i, j), [el(post[i], (j,))], [el(xs[i], (j,))]))
        xj = el(xs[index], (index2,))
        xpj = el(post[index], (index2,))
        back, _, _ = _step_1d(kind.split("~")[0], post, tun, v, index, index2, sym_)
        xbj = el(back[index], (index2,))
        back0, _, _ = _step_1d(kind.split("~")[0], post, tun, 0.0 if not sym_ else nf.const(0), index, index2, sym_)
        xb0 = el(back0[index], (index2,))
        if sym_:
            Df = nf.diff(xpj, "u")
            Dr = nf.diff(xbj, "v")
            claims.append(("zero", "reverse density does not depend on the reverse draw", [nf.diff(Dr, "v")]))
        else:
            def d_num(f, at):
                def cd(e):
                    return (f(at + e) - f(at - e)) / (2 * e)
                e = 1e-3
                return (4 * cd(e / 2) - cd(e)) / 3
            uu, vv = float(u), float(v)
            uu_ = min(max(uu, 2e-3), 1 - 2e-3)
            vv_ = min(max(vv, 2e-3), 1 - 2e-3)
            Df = d_num(lambda t: float(_step_1d(kind, xs, tun, t, index, index2, False)[0][index][index2]), uu_)
            Dr = d_num(lambda t: float(_step_1d(kind.split("~")[0], post, tun, t, index, index2, False)[0][index][index2]), vv_)
            Dr2 = d_num(lambda t: float(_step_1d(kind.split("~")[0], post, tun, t, index, index2, False)[0][index][index2]), 0.5)
            claims.append(("true", "reverse density does not depend on the reverse draw", abs(Dr - Dr2) <= 1e-8 * abs(Dr), (Dr, Dr2)))
        sg = sign if base == "scaler" else 1
        claims.append(("gt0", "forward map strictly monotone in the draw", [sg * Df]))
        claims.append(("gt0", "reverse map strictly monotone in the draw", [sg * Dr]))
        ustar = (xj - xb0) / Dr
        claims.append(("ge0", "reverse move proposable: u* >= 0", [ustar]))
        claims.append(("ge0", "reverse move proposable: u* <= 1", [1 - ustar]))
        claims.append(("eq", "hastings = log q(x|x') - log q(x'|x)", [el(h)], [_log_ratio(Df, Dr)]))
        return claims
    return scn


def scn_hastings_dirichlet(K, kind="dirichlet", holder="plain"):
    """DirichletOperator: x on the simplex, x' ~ Dirichlet(s x) (checked: the concentration of the distribution object whose
    sample() is used, and that the parameter is set to the draw); the true ratio is
        log Dir(x ; s x') - log Dir(x' ; s x),   log Dir(v; c) = sum (c_i - 1) log v_i + lgamma(sum c) - sum lgamma(c_i)
    written out here from the definition of the Dirichlet density.  `torch.distributions.Dirichlet` of the module namespace
    is the REAL class with only `sample()` replaced by 'returns the chosen draw' (log_prob is torch's own code, executed on
    symbolic tensors through lgamma / xlogy / sum handlers)."""
    def scn(mk):
        from torchtree.core.parameter import Parameter
        om = _om()
        s = el(mk.real("s", (), lo=0))
        y = mk.real("y", (K,), lo=0)
        z = mk.real("z", (K,), lo=0)
        x = y / y.sum()
        xp = z / z.sum()
        seen = []

        class DrawDirichlet(torch.distributions.Dirichlet):
            def sample(self, sample_shape=torch.Size()):
                seen.append(self.concentration)
                return _clone(xp)
        if holder == "view":
            # the frequencies are a slice of a larger packed parameter (its storage is shared: reading the view does not copy)
            from torchtree.core.parameter import ViewParameter
            extra = mk.real("extra", (2,))
            base_p = Parameter("packed", torch.cat((_clone(x), extra), -1))
            p = ViewParameter("freqs", base_p, slice(0, K))
        else:
            p = Parameter("freqs", _clone(x))
        op = _operator_class(kind)("op", [p], 1.0, 0.24, s)
        dist = _NS(torch.distributions, Dirichlet=DrawDirichlet)
        with _module_names(om, torch=_NS(torch, distributions=dist)):
            h = op.step()

        def logdir(vv, cc):
            tot = 0
            r = 0
            for i in range(K):
                r = r + (el(cc, (i,)) - 1) * slog(el(vv, (i,)))
                r = r - slgamma(el(cc, (i,)))
                tot = tot + el(cc, (i,))
            return r + slgamma(tot)
        claims = [("true", "one draw", len(seen) == 1, len(seen))]
        if seen:
            claims.append(("eq", "proposal drawn from Dirichlet(s*x)", seen[0], x * s))
        claims.append(("eq", "parameter := draw", p.tensor, xp))
        claims.append(("eq", "hastings = logDir(x; s x') - logDir(x'; s x)", [el(h)], [logdir(x, xp * s) - logdir(xp, x * s)]))
        return claims
    return scn


# =====================================================================================================
# C15.tune: direction of the proposal-scale change
# =====================================================================================================
class _SymMath:
    """`math` as seen by a repository module during a symbolic tune obligation: log / exp / sqrt / pow of symbolic scalars
    are the interpreted function symbols of vt.nf (rewrite rules with side conditions), everything else is the real math"""

    @staticmethod
    def _v(x):
        if isinstance(x, ST):
            return x.item()
        if isinstance(x, torch.Tensor):
            return float(x)
        return x

    def __getattr__(self, name):
        return getattr(math, name)

    def log(self, x):
        x = self._v(x)
        return nf.rlog(x) if isinstance(x, nf.RF) else math.log(x)

    def exp(self, x):
        x = self._v(x)
        return nf.rexp(x) if isinstance(x, nf.RF) else math.exp(x)

    def sqrt(self, x):
        x = self._v(x)
        return nf.rsqrt(x) if isinstance(x, nf.RF) else math.sqrt(x)

    def pow(self, b, e):
        b, e = self._v(b), self._v(e)
        if isinstance(b, nf.RF) or isinstance(e, nf.RF):
            try:
                return nf.rpow(b, e)
            except Exception:
                return nf.ufn("pow", nf.as_rf(b), nf.as_rf(e), positive=True)
        return math.pow(b, e)


def _tunables():
    """name -> dict(make(sym, vals) -> (object, modules), call(obj, p), get(obj) -> tuning value, boldness(value),
    domain description).  In symbolic mode the tuning value, the target and the adaptation count are symbolic."""
    import importlib
    om = _om()
    gm = importlib.import_module("torchtree.inference.mcmc.gmrf_block_updating")
    hm = importlib.import_module("torchtree.inference.hmc.operator")
    am = importlib.import_module("torchtree.inference.hmc.adaptation")
    dm = importlib.import_module("torchtree.ops.dual_averaging")
    from torchtree.core.parameter import Parameter
    from torchtree.inference.hmc.integrator import LeapfrogIntegrator
    T = {}

    def simple(cls, mods, boldness, doc, lo_hi, **kw):
        def make(value, target, count, **extra):
            op = cls("op", [], 1.0, target, value)
            op._adapt_count = count
            return op
        return dict(make=make, mods=mods, call=lambda op, p: op.tune(p, sample=1, accepted=True),
                    get=lambda op: op.tuning_parameter, boldness=boldness, doc=doc, domain=lo_hi,
                    ident=lambda op: op.set_adaptable_parameter(op.adaptable_parameter), **kw)

    T["ScalerOperator"] = simple(om.ScalerOperator, [om], lambda a: 1 / a - a,
                                 "scale factor s ~ U[a, 1/a]: boldness = window width 1/a - a", (0.0, 1.0))
    T["SlidingWindowOperator"] = simple(om.SlidingWindowOperator, [om], lambda w: w,
                                        "shift ~ U[-w/2, w/2]: boldness = width w", (0.0, None))
    T["DirichletOperator"] = simple(om.DirichletOperator, [om], lambda s: 1 / s,
                                    "x' ~ Dirichlet(s x): variance of the proposal ~ 1/s: boldness = 1/s", (0.0, None))

    def make_gmrf(value, target, count, **extra):
        gm_ = types.SimpleNamespace(field=Parameter("f", torch.zeros(3)), precision=Parameter("tau", torch.ones(1)))
        op = gm.GMRFPiecewiseCoalescentBlockUpdatingOperator("op", None, gm_, 1.0, target, value)
        op._adapt_count = count
        return op
    T["GMRFPiecewiseCoalescentBlockUpdatingOperator"] = dict(
        make=make_gmrf, mods=[om, gm], call=lambda op, p: op.tune(p, sample=1, accepted=True), get=lambda op: op.tuning_parameter,
        boldness=lambda S: S, doc="precision' in [tau/S, tau*S]: boldness = S", domain=(1.0, None),
        ident=lambda op: op.set_adaptable_parameter(op.adaptable_parameter))

    def make_hmc(value, target, count, **extra):
        integ = LeapfrogIntegrator("lf", 3, value)
        op = hm.HMCOperator("op", lambda: torch.tensor(0.0), [Parameter("x", torch.zeros(2))], integ, Parameter("m", torch.ones(2)), 1.0, target, [])
        op._adapt_count = count
        return op
    T["HMCOperator"] = dict(make=make_hmc, mods=[om, hm], call=lambda op, p: op.tune(p, sample=1, accepted=True),
                            get=lambda op: op._integrator.step_size, boldness=lambda e: e, doc="leapfrog step size", domain=(0.0, None),
                            ident=lambda op: op.set_adaptable_parameter(op.adaptable_parameter))

    def make_ass(value, target, count, **extra):
        integ = LeapfrogIntegrator("lf", 3, value)
        a = am.AdaptiveStepSize("a", integ, target)
        a._call_counter = count
        return a
    T["AdaptiveStepSize"] = dict(make=make_ass, mods=[am], call=lambda a, p: a.learn(p, 1, True), get=lambda a: a._integrator.step_size,
                                 boldness=lambda e: e, doc="leapfrog step size (HMCOperator.tune delegates to the adaptors)", domain=(0.0, None),
                                 concrete_count=True)
    return T


def _sym_tune(name, twin=None, what="tune", count=None):
    """run the REAL tune/learn (what='tune') or the real re-parameterisation pair (what='ident') once on symbolic
    (tuning value, acceptance probability p, target t, adaptation count); returns [((v0, v1, p, t), path)], T.
    The adaptation count is `m - 2` for a symbolic m >= 2, so that the Robbins-Monro gain the code computes,
    1 / (2 + count), is the symbol 1/m (all counts >= 0 at once); adaptors that compare their counter with
    start/end bounds get the concrete `count` instead."""
    T = _tunables()[name]
    lo, hi = T["domain"]

    def run():
        from vt.cond import assume
        if name == "GMRFPiecewiseCoalescentBlockUpdatingOperator":
            r = nf.var("r", nonneg=True)           # scaler S = 1 + r^2 >= 1 (the operator's own domain: sqrt(S - 1))
            val = 1 + r * r
        else:
            val = nf.var("val", positive=True)
            if hi is not None:
                assume(Cond.make(val - hi, "<"))
        t = nf.var("t", positive=True)
        assume(Cond.make(t - 1, "<"))
        p = sym("p", (), nonneg=True)
        assume(Cond.make(p.a[()] - 1, "<="))
        if T.get("concrete_count"):
            n = count
        else:
            m = nf.var("m", positive=True)
            assume(Cond.make(2 - m, "<="))
            n = m - 2
        obj = T["make"](val, t, n)
        if twin is not None:
            twin(obj)
        sm = _SymMath()
        with contextlib.ExitStack() as st:
            for mod in T["mods"]:
                st.enter_context(_module_names(mod, math=sm))
            if what == "tune":
                T["call"](obj, p)
            else:
                T["ident"](obj)
            v1 = T["get"](obj)
        return nf.as_rf(val), nf.as_rf(v1), p.a[()], t
    ex = Explorer(max_paths=16, timeout_ms=10000)
    return ex.run(run), T


def prove_tune_direction(name, side, twin=None, count=None):
    """z3: acceptance above (below) target => boldness' >= (<=) boldness, for all tuning values in the domain, all
    p in [0,1], t in (0,1), adaptation count n >= 0"""
    import z3
    results, T = _sym_tune(name, twin, count=count)
    if not results:
        raise Undecided("no feasible path")
    stats = {"paths": len(results), "z3_goals": 0, "backend": "z3 (EXP uninterpreted: positive, strictly monotone, EXP(0)=1)",
             "boldness": T["doc"]}
    for (v0, v1, p, t), path in results:
        tr = ExpTranslator()
        pc = [tr.cond(c) for c in path]
        B0, B1 = tr.rf(nf.as_rf(T["boldness"](v0))), tr.rf(nf.as_rf(T["boldness"](v1)))
        pz, tz = tr.rf(p), tr.rf(t)
        ax = tr.exp_axioms() + [pz >= 0, pz <= 1, tz > 0, tz < 1]
        hyp = (pz > tz) if side == "above" else (pz < tz)
        goal = (B1 >= B0) if side == "above" else (B1 <= B0)
        ok, model = _z3_prove(tr, pc + ax + [hyp], goal)
        stats["z3_goals"] += 1
        stats["statement"] = "p %s t  =>  boldness(%s) %s boldness(%s)" % (">" if side == "above" else "<", nf.show(v1, 8), ">=" if side == "above" else "<=", nf.show(v0, 8))
        if ok is None:
            raise Undecided("z3 unknown: " + stats["statement"])
        if ok is False:
            wit = _model_floats(tr, model, {"val", "r", "t", "p", "m"})
            conf, cw = tune_grid(name, side, first_only=True, twin=twin)
            raise Refuted("tuning direction: acceptance %s target makes the next proposals %s. new tuning value %s from %s; z3 model %s; "
                          "on the real class: %s" % (side, "more timid" if side == "above" else "bolder", nf.show(v1, 8), nf.show(v0, 8), wit, cw),
                          witness={"z3_model": wit, "real": cw},
                          replay={"kind": "custom", "contract": "C15", "func": "replay_tune", "args": cw} if cw and twin is None else None,
                          confirmed=bool(conf))
    return stats


def prove_tune_identity(name):
    """set_adaptable_parameter(adaptable_parameter) leaves the tuning parameter unchanged: nf identity; if nf cannot
    close it, z3 (roots / EXP) - a z3 counter-model is a refutation only when the real class confirms it"""
    results, T = _sym_tune(name, what="ident")
    if "ident" not in T:
        raise Undecided("no re-parameterisation pair")
    backend = "nf"
    for (v0, v1, p, t), path in results:
        if nf.equal(v0, v1):
            continue
        tr = ExpTranslator()
        pc = [tr.cond(c) for c in path]
        a, b = tr.rf(v0), tr.rf(v1)
        ok, model = _z3_prove(tr, pc + tr.exp_axioms(), a == b)
        backend = "nf+z3"
        if ok is True:
            continue
        bad = identity_grid(name)
        if bad:
            raise Refuted("set_adaptable_parameter(adaptable_parameter) changes the tuning parameter: %s" % bad, witness=bad,
                          replay={"kind": "custom", "contract": "C15", "func": "replay_identity", "args": bad}, confirmed=True)
        raise Undecided("identity not closed: %s vs %s" % (nf.show(v0), nf.show(v1)))
    (v0, v1, p, t), _ = results[0]
    return {"backend": backend, "paths": len(results), "statement": "tuning value after set_adaptable_parameter(adaptable_parameter): %s == %s" % (nf.show(v1, 6), nf.show(v0, 6)),
            "side_conditions": len(nf.SIDE)}


def identity_grid(name):
    for value in GRID[name]:
        T = _tunables()[name]
        obj = T["make"](value, 0.234, 0)
        T["ident"](obj)
        v = float(T["get"](obj))
        if abs(v - value) > 1e-9 * max(1.0, abs(value)):
            return {"class": name, "value": value, "after": v}
    return None


def replay_identity(args):
    T = _tunables()[args["class"]]
    obj = T["make"](args["value"], 0.234, 0)
    T["ident"](obj)
    v = float(T["get"](obj))
    ok = abs(v - args["value"]) <= 1e-9 * max(1.0, abs(args["value"]))
    return ok, "real %s: tuning value %r becomes %r after set_adaptable_parameter(adaptable_parameter)" % (args["class"], args["value"], v)


GRID = {
    "ScalerOperator": [1e-6, 0.01, 0.1, 0.5, 0.75, 0.999],
    "SlidingWindowOperator": [1e-6, 0.1, 1.0, 37.5],
    "DirichletOperator": [1e-3, 0.5, 1.0, 50.0, 1e4],
    "GMRFPiecewiseCoalescentBlockUpdatingOperator": [1.0001, 1.0, 1.5, 2.0, 10.0],
    "HMCOperator": [1e-6, 0.0125, 0.1, 2.0],
    "AdaptiveStepSize": [1e-6, 0.0125, 0.1, 2.0],
}


def _real_tune_once(name, value, p, target, count, twin=None):
    T = _tunables()[name]
    obj = T["make"](value, target, count)
    if twin is not None:
        twin(obj)
    b0 = T["boldness"](T["get"](obj))
    with contextlib.redirect_stdout(io.StringIO()):
        T["call"](obj, torch.tensor(float(p), dtype=torch.float64))
    v1 = T["get"](obj)
    b1 = T["boldness"](v1)
    idv = None
    if "ident" in T:
        T["ident"](obj)
        idv = T["get"](obj)
    return float(b0), float(b1), float(v1), (float(idv) if idv is not None else None)


def tune_grid(name, side, first_only=False, twin=None):
    """the real tune on a grid of concrete values (real math): returns (failed?, first witness or None)"""
    bad = None
    n = 0
    for value in GRID[name]:
        for target in (0.1, 0.234, 0.8):
            for count in (0, 1, 10, 10 ** 4):
                for p in (0.0, 1e-9, 0.05, 0.2, 0.234, 0.5, 0.81, 1.0):
                    if (side == "above" and not p > target) or (side == "below" and not p < target):
                        continue
                    n += 1
                    b0, b1, v1, idv = _real_tune_once(name, value, p, target, count, twin)
                    slack = 1e-12 * max(abs(b0), abs(b1))
                    wrong = (b1 < b0 - slack) if side == "above" else (b1 > b0 + slack)
                    if wrong and bad is None:
                        bad = {"class": name, "side": side, "value": value, "p": p, "target": target, "count": count,
                               "boldness_before": b0, "boldness_after": b1, "new_value": v1}
                        if first_only:
                            return True, bad
    TUNE_GRID_COUNT[0] = n
    return bad is not None, bad


TUNE_GRID_COUNT = [0]


def replay_tune(args):
    b0, b1, v1, _ = _real_tune_once(args["class"], args["value"], args["p"], args["target"], args["count"])
    wrong = (b1 < b0) if args["side"] == "above" else (b1 > b0)
    msg = ("real %s: tuning value %r -> %r after tune(acceptance_prob=%r) with target %r, adapt count %r: boldness %r -> %r (%s)"
           % (args["class"], args["value"], v1, args["p"], args["target"], args["count"], b0, b1,
              ("acceptance ABOVE target made the proposals MORE TIMID" if args["side"] == "above" else "acceptance BELOW target made the proposals BOLDER") if wrong else "right direction"))
    return (not wrong), msg


def _dual(mu, delta, gamma, step):
    import importlib
    am = importlib.import_module("torchtree.inference.hmc.adaptation")
    from torchtree.inference.hmc.integrator import LeapfrogIntegrator
    integ = LeapfrogIntegrator("lf", 3, step)
    return am.DualAveragingStepSize("d", integ, mu=mu, delta=delta, gamma=gamma), integ, am


def dual_real_sequence(accs, delta=0.8, mu=0.5):
    d, integ, _ = _dual(mu, delta, 0.05, 0.1)
    out = []
    for i, a in enumerate(accs):
        d.learn(torch.tensor(float(a), dtype=torch.float64), i + 1, True)
        out.append(float(integ.step_size))
    return out


def dual_witness(side):
    """shortest acceptance sequence from restart() on the REAL DualAveragingStepSize whose last acceptance is on `side`
    of the target while the step size moves the wrong way"""
    delta = 0.8
    grid = (0.0, 0.5, 0.79, 0.81, 1.0)
    for n in (2, 3):
        for accs in itertools.product(grid, repeat=n):
            last = accs[-1]
            if (side == "above" and not last > delta) or (side == "below" and not last < delta):
                continue
            steps = dual_real_sequence(accs, delta)
            wrong = steps[-1] < steps[-2] if side == "above" else steps[-1] > steps[-2]
            if wrong:
                return {"side": side, "accs": list(accs), "delta": delta, "steps": steps}
    return None


def replay_dual(args):
    steps = dual_real_sequence(args["accs"], args["delta"])
    wrong = steps[-1] < steps[-2] if args["side"] == "above" else steps[-1] > steps[-2]
    return (not wrong), ("real DualAveragingStepSize (target %r) fed acceptance probabilities %r: step sizes %r - the last acceptance is %s the "
                         "target and the step size %s" % (args["delta"], args["accs"], steps, args["side"], "went the wrong way" if wrong else "went the right way"))


def _dual_symbolic(c, p):
    """one real learn() from the reachable symbolic state (counter c, running average S, step = exp(x_c));
    returns (x_prev, step_after)"""
    MU, G, S, t = nf.var("mu"), nf.var("gamma", positive=True), nf.var("sbar"), nf.var("t", positive=True)
    sm = _SymMath()
    import importlib
    dm = importlib.import_module("torchtree.ops.dual_averaging")
    x_prev = MU - S * nf.const(nf.rationalise(math.sqrt(c))) / G
    d, integ, am = _dual(MU, t, G, nf.rexp(x_prev))
    d._dual_avg._counter = c
    d._dual_avg.s_bar = S
    d._dual_avg.x = x_prev
    d._call_counter = c
    with _module_names(dm, math=sm), _module_names(am, math=sm):
        d.learn(p, c + 1, True)
    x_new = nf.as_rf(_SymMath._v(d._dual_avg.x))
    if not nf.equal(nf.as_rf(_SymMath._v(integ.step_size)), nf.rexp(x_new)):
        raise Undecided("DualAveragingStepSize.learn no longer sets step_size = exp(dual average iterate)")
    return x_prev, x_new, t        # log step size before / after (exp is strictly increasing: compare the logarithms)


def prove_dual_direction(side, counts=(1, 2, 10, 100)):
    """literal clause for the dual-averaging adaptor: from every reachable state (counter c >= 1, any running average),
    acceptance above (below) the target must not shrink (grow) the step size"""
    import z3
    stats = {"z3_goals": 0, "backend": "z3 on log step sizes (step = exp(.), exp strictly increasing; nf checks step_size == exp(iterate))"}
    for c in counts:
        def run():
            p = sym("p", (), nonneg=True)
            from vt.cond import assume
            assume(Cond.make(p.a[()] - 1, "<="))
            return _dual_symbolic(c, p) + (p.a[()],)
        for (x_prev, step1, t, p), path in Explorer(max_paths=8).run(run):
            tr = ExpTranslator()
            pc = [tr.cond(cc) for cc in path]
            s0, s1 = tr.rf(x_prev), tr.rf(step1)
            pz, tz = tr.rf(p), tr.rf(t)
            ax = [pz >= 0, pz <= 1, tz > 0, tz < 1]
            hyp = pz > tz if side == "above" else pz < tz
            goal = s1 >= s0 if side == "above" else s1 <= s0
            ok, model = _z3_prove(tr, pc + ax + [hyp], goal)
            stats["z3_goals"] += 1
            if ok is None:
                raise Undecided("z3 unknown (dual averaging, counter %d)" % c)
            if ok is False:
                wit = _model_floats(tr, model, {"mu", "gamma", "sbar", "t", "p"})
                rw = dual_witness(side)
                raise Refuted("dual-averaging step-size adaptor: at counter %d an acceptance %s the target moves the step size the wrong way "
                              "(log step = mu - sqrt(k)/gamma * running average of (target - acceptance): the history outweighs the current "
                              "iteration); z3 model %s; real class: %s" % (c, side, wit, rw), witness={"z3_model": wit, "real": rw},
                              replay={"kind": "custom", "contract": "C15", "func": "replay_dual", "args": rw} if rw else None, confirmed=bool(rw))
    return stats


def prove_dual_monotone(counts=(0, 1, 2, 10, 100)):
    """what dual averaging does guarantee: the new step size is strictly increasing in the acceptance probability of the
    current iteration (same state, p1 > p2  =>  step'(p1) > step'(p2))"""
    stats = {"z3_goals": 0, "backend": "z3 on log step sizes (exp strictly increasing)", "statement": "p1 > p2 => step'(p1) > step'(p2), counters %s" % (counts,)}
    for c in counts:
        def run():
            p1, p2 = sym("p1", (), nonneg=True), sym("p2", (), nonneg=True)
            a = _dual_symbolic(c, p1)
            b = _dual_symbolic(c, p2)
            return a[1], b[1], p1.a[()], p2.a[()]
        for (s1, s2, p1, p2), path in Explorer(max_paths=8).run(run):
            tr = ExpTranslator()
            pc = [tr.cond(cc) for cc in path]
            z1, z2, q1, q2 = tr.rf(s1), tr.rf(s2), tr.rf(p1), tr.rf(p2)
            ok, model = _z3_prove(tr, pc + [q1 > q2], z1 > z2)
            stats["z3_goals"] += 1
            if ok is None:
                raise Undecided("z3 unknown")
            if ok is False:
                raise Refuted("dual averaging: a higher acceptance probability gives a smaller step size at counter %d" % c,
                              witness=_model_floats(tr, model, {"p1", "p2", "mu", "gamma", "sbar", "t"}), replay=None, confirmed=None)
    return stats


# =====================================================================================================
# C15.restore / C15.log: real operator classes, real Parameter / Distribution / JointDistributionModel / loggers
# =====================================================================================================
class _Listener:
    def __init__(self):
        self.n = 0

    def handle_parameter_changed(self, variable, index, event):
        self.n += 1

    def handle_model_changed(self, model, obj, index):
        self.n += 1


def _snap(t):
    return t.detach().clone()


def _identical(a, b):
    """bit-identical tensors incl. dtype and shape (nan == nan)"""
    if a.shape != b.shape or a.dtype != b.dtype:
        return False
    if a.dtype.is_floating_point:
        return bool(((a == b) | (torch.isnan(a) & torch.isnan(b))).all())
    return bool((a == b).all())


ADVERSARIES = {
    "inplace_mul": lambda p, i: p.tensor.mul_(2),
    "inplace_index_then_setter": lambda p, i: (lambda t: (t.__setitem__(Ellipsis, 7), setattr(p, "tensor", t)))(p.tensor),
    "rebind": lambda p, i: setattr(p, "tensor", p.tensor + 1),
    "reshape_retype": lambda p, i: setattr(p, "tensor", torch.zeros(5, dtype=torch.float32)),
    "zero_": lambda p, i: p.tensor.zero_(),
}


def _adversarial_operator(base, adversary, save_mode="real"):
    """concrete subclass of the REAL MCMCOperator (only the abstract hooks are filled in); `_step` is the adversary"""
    class Adv(base):
        @property
        def tuning_parameter(self):
            return 0.0

        @base.adaptable_parameter.getter
        def adaptable_parameter(self):
            return 0.0

        def set_adaptable_parameter(self, value):
            pass

        def _step(self):
            for i, p in enumerate(self.parameters):
                adversary(p, i)
            return torch.tensor(0.0)

        def _state_dict(self):
            return {}

        def _load_state_dict(self, state_dict):
            pass

        @classmethod
        def from_json(cls, data, dic):
            raise NotImplementedError
    if save_mode == "reference":        # must-fail twin: saves references instead of clones
        def step(self):
            self.saved_tensors = [parameter.tensor for parameter in self.parameters]
            return self._step()
        Adv.step = step
    if save_mode == "no_setter":        # must-fail twin: restores behind the listeners' back
        def reject(self):
            for parameter, saved_tensor in zip(self.parameters, self.saved_tensors):
                parameter._tensor = saved_tensor
            self._reject += 1
        Adv.reject = reject
    return Adv


def _fresh_tensors(n):
    pool = [torch.tensor([0.3, 1.2, 2.5], dtype=torch.float64), torch.tensor([[1.5, -2.0], [0.25, 4.0]], dtype=torch.float32),
            torch.tensor([3, 1, 4, 1], dtype=torch.int64), torch.tensor(2.75, dtype=torch.float64), torch.zeros(0, dtype=torch.float64)]
    return [pool[i % len(pool)].clone() for i in range(n)]


def restore_base(save_mode="real", lengths=(0, 1, 2, 3, 5)):
    """real MCMCOperator.step / reject / accept around an adversarial `_step`; raises Refuted on the first failure"""
    from torchtree.core.parameter import Parameter
    om = _om()
    cases = 0
    for n in lengths:
        for aname, adv in ADVERSARIES.items():
            for decision in ("reject", "accept"):
                params = [Parameter("p%d" % i, t) for i, t in enumerate(_fresh_tensors(n))]
                pre = [_snap(p.tensor) for p in params]
                ls = [_Listener() for _ in params]
                for p, l in zip(params, ls):
                    p.add_parameter_listener(l)
                op = _adversarial_operator(om.MCMCOperator, adv, save_mode)("op", params, 1.0, 0.24)
                try:
                    op.step()
                except RuntimeError:
                    continue      # adversary not applicable to this dtype (e.g. mul_ on an empty int tensor): not a case
                post = [_snap(p.tensor) for p in params]
                seen = [l.n for l in ls]
                getattr(op, decision)()
                cases += 1
                for i, p in enumerate(params):
                    want = pre[i] if decision == "reject" else post[i]
                    if not _identical(p.tensor, want):
                        raise Refuted("after step(); %s() parameter %d is %s, %s was %s (adversarial _step '%s', %d parameters, save mode %s)"
                                      % (decision, i, p.tensor.tolist(), "its pre-state" if decision == "reject" else "the proposed state", want.tolist(), aname, n, save_mode),
                                      witness={"n": n, "adversary": aname, "decision": decision, "parameter": i},
                                      replay={"kind": "custom", "contract": "C15", "func": "replay_restore_base", "args": {"n": n, "adversary": aname, "decision": decision}},
                                      confirmed=(save_mode == "real"))
                    if decision == "reject" and ls[i].n <= seen[i]:
                        raise Refuted("reject() restored parameter %d without notifying its listeners (cached densities stay stale)" % i,
                                      witness={"n": n, "adversary": aname}, replay={"kind": "custom", "contract": "C15", "func": "replay_restore_base",
                                                                                  "args": {"n": n, "adversary": aname, "decision": decision}}, confirmed=(save_mode == "real"))
                if (op._accept, op._reject) != ((0, 1) if decision == "reject" else (1, 0)):
                    raise Refuted("accept/reject counters are %d/%d after %s()" % (op._accept, op._reject, decision), witness={}, replay=None, confirmed=None)
    return {"backend": "heap (real step/reject/accept, adversarial _step on real tensors)", "cases": cases,
            "statement": "for every list length %s, dtype/shape mix and adversarial _step (%s): step();reject() restores every parameter bit-identically "
                         "through the setter (listeners notified); step();accept() keeps the proposal" % (list(lengths), ", ".join(ADVERSARIES))}


def replay_restore_base(args):
    try:
        restore_base("real", lengths=(args["n"],))
    except Refuted as e:
        return False, e.detail
    return True, "restored bit-identically"


def _gamma_lp(x, a, b):
    return torch.distributions.Gamma(torch.tensor(a), torch.tensor(b)).log_prob(x).sum()


def real_world(kind, adapt=True):
    """real operator + the real models it is used with; returns dict(op, params (watched), joint, oracle())"""
    import importlib
    from torchtree.core.parameter import Parameter, TransformedParameter
    from torchtree.distributions.distributions import Distribution
    from torchtree.distributions.joint_distribution import JointDistributionModel
    om = _om()
    kw = {} if adapt else {"disable_adaptation": True}
    # "<Operator>@view": the operator acts on slice views of one packed parameter (what the command line builds for partitioned data)
    as_view = kind.endswith("@view")
    as_transformed = kind.endswith("@transformed") or kind.endswith("@transformed_anonymous")
    anonymous = kind.endswith("@transformed_anonymous")
    kind = kind.split("@")[0]
    underlying = []
    if kind in ("ScalerOperator", "SlidingWindowOperator", "HMCOperator"):
        if as_view:
            from torchtree.core.parameter import ViewParameter
            packed = Parameter("packed", torch.tensor([0.7, 1.9, 0.2, 9.9, 0.4, 2.2]))
            x = ViewParameter("x", packed, slice(0, 3))
            y = ViewParameter("y", packed, slice(4, 6))
        elif as_transformed:
            # the operator acts on the constrained scale, the values live on the unconstrained one (what a model file with transformed
            # parameters hands to an operator): a rejected move must leave the UNDERLYING values bit-identical too
            # anonymous: the underlying parameters have no id (written inline in a model file without one, or built in Python with None)
            def not_fixed_points(n, start):
                # unconstrained values z with log(exp(z)) != z bit for bit: going back through the inverse transform MOVES them
                out, c = [], start
                while len(out) < n:
                    c += 0.0371
                    z = torch.tensor(c)
                    if not torch.equal(torch.log(torch.exp(z)), z):
                        out.append(c)
                return torch.tensor(out)
            zx = Parameter(None if anonymous else "zx", not_fixed_points(3, -1.3))
            zy = Parameter(None if anonymous else "zy", not_fixed_points(2, 0.2))
            x = TransformedParameter("x", zx, torch.distributions.ExpTransform())
            y = TransformedParameter("y", zy, torch.distributions.ExpTransform())
            underlying = [zx, zy]
        else:
            x = Parameter("x", torch.tensor([0.7, 1.9, 0.2]))
            y = Parameter("y", torch.tensor([0.4, 2.2]))
        if kind == "ScalerOperator":
            d1 = Distribution("px", torch.distributions.Gamma, x, {"concentration": Parameter("a", torch.tensor([2.0])), "rate": Parameter("b", torch.tensor([1.5]))})
            d2 = Distribution("py", torch.distributions.Gamma, y, {"concentration": Parameter("a2", torch.tensor([3.0])), "rate": Parameter("b2", torch.tensor([0.5]))})

            def oracle():
                return _gamma_lp(_snap(x.tensor), 2.0, 1.5) + _gamma_lp(_snap(y.tensor), 3.0, 0.5)
        else:
            d1 = Distribution("px", torch.distributions.Normal, x, {"loc": Parameter("m", torch.tensor([0.5])), "scale": Parameter("s", torch.tensor([1.5]))})
            d2 = Distribution("py", torch.distributions.Normal, y, {"loc": Parameter("m2", torch.tensor([-0.5])), "scale": Parameter("s2", torch.tensor([0.7]))})

            def oracle():
                return (torch.distributions.Normal(torch.tensor(0.5), torch.tensor(1.5)).log_prob(_snap(x.tensor)).sum()
                        + torch.distributions.Normal(torch.tensor(-0.5), torch.tensor(0.7)).log_prob(_snap(y.tensor)).sum())
        joint = JointDistributionModel("joint", [d1, d2])
        if kind == "ScalerOperator":
            op = om.ScalerOperator("op", [x, y], 1.0, 0.24, 0.5, **kw)
        elif kind == "SlidingWindowOperator":
            op = om.SlidingWindowOperator("op", [x, y], 1.0, 0.24, 0.8, **kw)
        else:
            hm = importlib.import_module("torchtree.inference.hmc.operator")
            from torchtree.inference.hmc.integrator import LeapfrogIntegrator
            op = hm.HMCOperator("op", joint, [x, y], LeapfrogIntegrator("lf", 4, 0.15), Parameter("mass", torch.ones(5)), 1.0, 0.8, [], **kw)
        return {"op": op, "params": [x, y], "joint": joint, "oracle": oracle, "models": [d1, d2, joint], "underlying": underlying}
    if kind == "DirichletOperator":
        if as_view:
            from torchtree.core.parameter import ViewParameter
            f = ViewParameter("f", Parameter("packedf", torch.tensor([0.2, 0.3, 0.5, 7.0])), slice(0, 3))
        else:
            f = Parameter("f", torch.tensor([0.2, 0.3, 0.5]))
        d1 = Distribution("pf", torch.distributions.Dirichlet, f, {"concentration": Parameter("c", torch.tensor([2.0, 3.0, 1.5]))})
        joint = JointDistributionModel("joint", [d1])
        op = om.DirichletOperator("op", [f], 1.0, 0.24, 60.0, **kw)
        return {"op": op, "params": [f], "joint": joint, "models": [d1, joint],
                "oracle": lambda: torch.distributions.Dirichlet(torch.tensor([2.0, 3.0, 1.5])).log_prob(_snap(f.tensor))}
    if kind == "GMRFPiecewiseCoalescentBlockUpdatingOperator":
        gmod = importlib.import_module("torchtree.inference.mcmc.gmrf_block_updating")
        from torchtree.distributions.gmrf import GMRF
        from torchtree.evolution.coalescent import FakeTreeModel, PiecewiseConstantCoalescentGridModel
        field = Parameter("field", torch.tensor([1.0, 0.5, 0.2, 0.1]))
        prec = Parameter("prec", torch.tensor([2.0]))
        gm = GMRF("gmrf", field, prec)
        theta = TransformedParameter("theta", field, torch.distributions.ExpTransform())
        grid = Parameter(None, torch.tensor([0.4, 0.9, 1.5]))
        heights = torch.tensor([0., 0., 0.1, 0.2, 0.0, 0.3, 0.7, 1.1, 2.0])
        coal = PiecewiseConstantCoalescentGridModel("coal", theta, grid, FakeTreeModel(Parameter(None, heights)))
        gprior = Distribution("pprec", torch.distributions.Gamma, prec, {"concentration": Parameter("ga", torch.tensor([1.0])), "rate": Parameter("gb", torch.tensor([1.0]))})
        joint = JointDistributionModel("joint", [coal, gm, gprior])
        op = gmod.GMRFPiecewiseCoalescentBlockUpdatingOperator("op", coal, gm, 1.0, 0.24, 2.0, **kw)

        def oracle():
            # from scratch: brand-new model objects over copies of the current values
            f2, p2 = Parameter("field", _snap(field.tensor)), Parameter("prec", _snap(prec.tensor))
            c2 = PiecewiseConstantCoalescentGridModel("coal", TransformedParameter("theta", f2, torch.distributions.ExpTransform()),
                                                      Parameter(None, grid.tensor.clone()), FakeTreeModel(Parameter(None, heights.clone())))
            return c2().sum() + GMRF("gmrf", f2, p2)().sum() + _gamma_lp(_snap(prec.tensor), 1.0, 1.0)
        return {"op": op, "params": [field, prec], "joint": joint, "oracle": oracle, "models": [coal, gm, gprior, joint]}
    raise KeyError(kind)


def gmrf_view_field():
    """GMRF block update: the proposal and its Hastings value are functions of the VALUES of the field and the precision - the same whether the
    field is a Parameter of its own or a slice view of a larger parameter (whose storage the assignment of the proposal overwrites)"""
    import importlib
    from torchtree.core.parameter import Parameter, TransformedParameter, ViewParameter
    from torchtree.distributions.gmrf import GMRF
    from torchtree.evolution.coalescent import FakeTreeModel, PiecewiseConstantCoalescentGridModel
    gmod = importlib.import_module("torchtree.inference.mcmc.gmrf_block_updating")
    vals = [1.0, 0.5, 0.2, 0.1]
    out = {}
    n = 0
    for seed_ in (3, 11, 29):
        for holder in ("plain", "view"):
            if holder == "plain":
                field = Parameter("field", torch.tensor(vals))
            else:
                field = ViewParameter("field", Parameter("big", torch.tensor([9.0] + vals + [7.0])), slice(1, 5))
            prec = Parameter("prec", torch.tensor([2.0]))
            gm = GMRF("gmrf", field, prec)
            theta = TransformedParameter("theta", field, torch.distributions.ExpTransform())
            heights = torch.tensor([0., 0., 0.1, 0.2, 0.0, 0.3, 0.7, 1.1, 2.0])
            coal = PiecewiseConstantCoalescentGridModel("coal", theta, Parameter(None, torch.tensor([0.4, 0.9, 1.5])), FakeTreeModel(Parameter(None, heights)))
            op = gmod.GMRFPiecewiseCoalescentBlockUpdatingOperator("op", coal, gm, 1.0, 0.24, 2.0)
            torch.manual_seed(seed_)
            h = op.step()
            out[(seed_, holder)] = (float(h), _snap(field.tensor).tolist(), float(prec.tensor))
            n += 1
        a, b = out[(seed_, "plain")], out[(seed_, "view")]
        if any(abs(x - y) > 1e-12 for x, y in zip(a[1] + [a[2]], b[1] + [b[2]])):
            raise Undecided("the two runs did not make the same proposal: %s vs %s" % (a, b))
        if not (abs(a[0] - b[0]) <= 1e-10 * max(1.0, abs(a[0])) or (a[0] == b[0])):
            raise Refuted("GMRF block update, same values and random stream, same proposal %s: Hastings value %r with the field as a Parameter, %r with the field as a slice view of a "
                          "larger parameter" % (a[1], a[0], b[0]), witness={"seed": seed_, "plain": a, "view": b}, confirmed=True,
                          replay={"kind": "custom", "contract": "C15", "func": "replay_gmrf_view_field", "args": {}})
    return {"backend": "concrete", "cases": n, "statement": "GMRF block update: %d proposals, Hastings value independent of how the field parameter is held" % n}


def replay_gmrf_view_field(args):
    try:
        gmrf_view_field()
    except Refuted as e:
        return False, e.detail
    return True, "held"


REAL_KINDS = ["ScalerOperator", "SlidingWindowOperator", "DirichletOperator", "GMRFPiecewiseCoalescentBlockUpdatingOperator", "HMCOperator"]


def _close(a, b, tol=1e-10):
    a, b = float(a), float(b)
    return a == b or abs(a - b) <= tol * max(1.0, abs(a), abs(b))


def _step_frame_scan(cls):
    """the real `_step` (and the helpers it calls on self) never writes `saved_tensors` - the lift from the adversarial base
    obligation to this class needs only that"""
    import inspect
    import textwrap
    bad = []
    for name, fn in inspect.getmembers(cls, inspect.isfunction):
        if name in ("step", "reject", "accept"):
            continue
        try:
            tree = ast.parse(textwrap.dedent(inspect.getsource(fn)))
        except (OSError, TypeError):
            continue
        for node in ast.walk(tree):
            if isinstance(node, ast.Attribute) and node.attr == "saved_tensors" and isinstance(node.ctx, (ast.Store, ast.Del)):
                bad.append("%s.%s assigns saved_tensors" % (cls.__name__, name))
            if isinstance(node, ast.Call) and isinstance(node.func, ast.Attribute) and isinstance(node.func.value, ast.Attribute) \
                    and node.func.value.attr == "saved_tensors":
                bad.append("%s.%s calls saved_tensors.%s" % (cls.__name__, name, node.func.attr))
    return bad


def restore_real(kind, reps, seed, check_log=True):
    """real operator: step(); reject() restores bit-identically, notifies listeners, leaves the joint's cache coherent
    (a logger evaluating the joint afterwards logs the density of the restored state)"""
    from torchtree.core.logger import ContainerLogger
    w = real_world(kind)
    op, params, joint, oracle = w["op"], w["params"], w["joint"], w["oracle"]
    bad_frame = _step_frame_scan(type(op))
    if bad_frame:
        raise Undecided("frame of _step: " + "; ".join(bad_frame))
    if type(op).step is not _om().MCMCOperator.step or type(op).reject is not _om().MCMCOperator.reject:
        raise Undecided("%s overrides step/reject: the base-class obligation does not lift" % kind)
    ls = [_Listener() for _ in params]
    for p, l in zip(params, ls):
        p.add_parameter_listener(l)
    rows = []
    logger = ContainerLogger([joint] + params, rows, 1)
    moved = 0
    for r in range(reps):
        torch.manual_seed(seed * 1000 + r)
        pre = [_snap(p.tensor) for p in params]
        pre_under = [_snap(p.tensor) for p in w.get("underlying", [])]
        lp_pre = joint().clone()
        if not _close(lp_pre, oracle()):
            raise Refuted("%s: joint() = %r before the proposal, from-scratch evaluation gives %r" % (kind, float(lp_pre), float(oracle())),
                          witness={"kind": kind, "rep": r}, replay=_rr(kind, r, seed), confirmed=True)
        seen = [l.n for l in ls]
        with contextlib.redirect_stdout(io.StringIO()):
            h = op.step()
        lp_prop, fresh = joint(), oracle()
        if any(not _identical(p.tensor, q) for p, q in zip(params, pre)):
            moved += 1
        if not (_close(lp_prop, fresh) or (bool(torch.isnan(lp_prop)) and bool(torch.isnan(fresh)))):
            raise Refuted("%s: after step() joint() returns %r but the target evaluated from scratch at the proposed state is %r (stale cache)"
                          % (kind, float(lp_prop), float(fresh)), witness={"kind": kind, "rep": r}, replay=_rr(kind, r, seed), confirmed=True)
        seen_step = [l.n for l in ls]
        op.reject()
        for i, p in enumerate(params):
            if ls[i].n <= seen_step[i]:
                raise Refuted("%s: reject() did not notify the listeners of parameter '%s'" % (kind, p.id), witness={"kind": kind, "rep": r},
                              replay=_rr(kind, r, seed), confirmed=True)
            if not _identical(p.tensor, pre[i]):
                raise Refuted("%s: after step(); reject() parameter '%s' is %s, its pre-state was %s" % (kind, p.id, p.tensor.tolist(), pre[i].tolist()),
                              witness={"kind": kind, "rep": r, "parameter": p.id}, replay=_rr(kind, r, seed), confirmed=True)
            if p.tensor.requires_grad:
                raise Refuted("%s: parameter '%s' requires grad after a rejected move" % (kind, p.id), witness={"kind": kind}, replay=_rr(kind, r, seed), confirmed=True)
        for p, q in zip(w.get("underlying", []), pre_under):
            if not _identical(p.tensor, q):
                raise Refuted("%s: after step(); reject() the parameter %r that holds the values of the operator's parameter is %s, before the proposal it was %s "
                              "(restored through the inverse transform: equal only up to rounding)" % (kind, p.id, p.tensor.tolist(), q.tolist()),
                              witness={"kind": kind, "rep": r, "parameter": p.id}, replay=_rr(kind, r, seed), confirmed=True)
        if not joint.lp_needs_update and not _close(joint(), lp_pre):
            raise Refuted("%s: joint keeps a stale cached value after reject()" % kind, witness={"kind": kind, "rep": r}, replay=_rr(kind, r, seed), confirmed=True)
        if check_log:
            logger.log(sample=r + 1)
            row = rows[-1]
            flat = [v for p in params for v in p.tensor.tolist()]
            if not _close(row[0], lp_pre, 1e-12) or not _close(row[0], oracle()) or row[1:] != flat:
                raise Refuted("%s: the row a real ContainerLogger writes after a rejected move is %r; restored parameters %r have density %r"
                              % (kind, row, flat, float(oracle())), witness={"kind": kind, "rep": r, "row": row}, replay=_rr(kind, r, seed), confirmed=True)
    if moved == 0:
        raise Undecided("vacuous: %s never moved a parameter in %d proposals" % (kind, reps))
    return {"backend": "heap (real classes, real tensors)", "cases": reps, "proposals_that_moved": moved,
            "statement": "%s: step(); reject() restores every parameter bit-identically through the setter; joint() after step equals the from-scratch "
                         "target; after reject the joint and a real ContainerLogger give the density of the restored state" % kind}


def _rr(kind, r, seed):
    return {"kind": "custom", "contract": "C15", "func": "replay_restore_real", "args": {"kind": kind, "reps": r + 1, "seed": seed}}


def replay_restore_real(args):
    try:
        restore_real(args["kind"], args["reps"], args["seed"])
    except Refuted as e:
        return False, e.detail
    return True, "restored, cache coherent"


def hmc_failure_path():
    """HMCOperator._step: when the potential is nan on every trial the operator restores the saved tensors itself and returns
    +inf; the state must be the pre-state, requires_grad False, and the real loop must reject it"""
    import importlib
    from torchtree.core.model import CallableModel
    from torchtree.core.parameter import Parameter
    from torchtree.inference.hmc.integrator import LeapfrogIntegrator
    hm = importlib.import_module("torchtree.inference.hmc.operator")
    x = Parameter("x", torch.tensor([0.7, 1.9]))

    class Cliff(CallableModel):
        def __init__(self):
            super().__init__("cliff")
            self.x = x
            self.calls = 0

        def _call(self, *a, **k):
            self.calls += 1
            v = -(self.x.tensor ** 2).sum()
            return v if self.calls <= 1 else v * float("nan")

        def _sample_shape(self):
            return torch.Size([])

        def handle_model_changed(self, model, obj, index):
            pass

        @classmethod
        def from_json(cls, data, dic):
            raise NotImplementedError
    m = Cliff()
    op = hm.HMCOperator("op", m, [x], LeapfrogIntegrator("lf", 2, 0.1), Parameter("mass", torch.ones(2)), 1.0, 0.8, [])
    pre = _snap(x.tensor)
    torch.manual_seed(3)
    with contextlib.redirect_stdout(io.StringIO()):
        h = op.step()
    if not (torch.isinf(h) and h > 0):
        raise Undecided("HMC failure path not reached (returned %r)" % float(h))
    if not _identical(x.tensor, pre) or x.tensor.requires_grad:
        raise Refuted("HMCOperator returned +inf (all trials failed) but left the parameter at %s (pre-state %s), requires_grad=%s"
                      % (x.tensor.tolist(), pre.tolist(), x.tensor.requires_grad), witness={}, replay=None, confirmed=True)
    op.reject()
    if not _identical(x.tensor, pre):
        raise Refuted("HMCOperator: reject() after the +inf path does not restore", witness={}, replay=None, confirmed=True)
    return {"backend": "heap (real HMCOperator, potential nan on every trial)", "cases": 1,
            "statement": "after 10 failed trials _step returns +inf with the saved tensors restored; reject() keeps the pre-state"}


# ---------------------------------------------------------------------------------------------------
# whole real runs (B): the uncut MCMC.run with real operators, instrumented from outside
# ---------------------------------------------------------------------------------------------------
def whole_run(kinds, adapt, iters, seed, every=0):
    """real MCMC.run over a mixture of real operators on real models; every iteration is re-derived from the statement.
    Instrumentation is external: instance-level wrappers around step/accept/reject/tune, a wrapper callable around the
    real joint, torch.rand of the module namespace recorded (not replaced), a recording logger + a real ContainerLogger."""
    from torchtree.core.logger import ContainerLogger
    from torchtree.distributions.joint_distribution import JointDistributionModel
    mm = _mm()
    torch.manual_seed(seed)
    worlds = [real_world(k, adapt) for k in kinds]
    for i, w in enumerate(worlds):
        w["op"]._id = "op%d.%s" % (i, kinds[i])
    total = JointDistributionModel("total", [w["joint"] for w in worlds])
    params = [p for w in worlds for p in w["params"]]

    def oracle():
        return sum(w["oracle"]() for w in worlds)
    ev = []
    for k, w in enumerate(worlds):
        op = w["op"]

        def mk(op=op, k=k):
            real_step, real_accept, real_reject, real_tune = op.step, op.accept, op.reject, op.tune

            def step():
                pre = [_snap(p.tensor) for p in params]
                with contextlib.redirect_stdout(io.StringIO()):
                    h = real_step()
                ev.append(["step", k, pre, h.detach().clone(), [_snap(p.tensor) for p in params]])
                return h

            def accept():
                real_accept()
                ev.append(["accept", k])

            def reject():
                real_reject()
                ev.append(["reject", k, [_snap(p.tensor) for p in params]])

            def tune(acceptance_prob, sample, accepted):
                b = op.tuning_parameter
                real_tune(acceptance_prob, sample=sample, accepted=accepted)
                ev.append(["tune", k, float(acceptance_prob), sample, accepted, float(b), float(op.tuning_parameter)])
            op.step, op.accept, op.reject, op.tune = step, accept, reject, tune
        mk()

    def joint():
        v = total()
        ev.append(["joint", v.detach().clone(), oracle()])
        return v

    class Rec:
        def initialize(self):
            pass

        def log(self, sample):
            ev.append(["log", sample, [_snap(p.tensor) for p in params], total().detach().clone(), oracle()])

        def close(self):
            pass
    rows = []
    clog = ContainerLogger([total] + params, rows, 1)
    from torchtree.core.logger import Logger
    csvlog = Logger([total] + params, 1, delimiter="\t")        # file_name None: writes to (captured) stdout
    real_rand = torch.rand

    def rand(*a, **k):
        u = real_rand(*a, **k)
        ev.append(["rand", u.clone()])
        return u
    mcmc = mm.MCMC("mcmc", joint, [w["op"] for w in worlds], iters, loggers=[Rec(), clog, csvlog], checkpoint=None, every=every)
    aborted = None
    captured = io.StringIO()
    with _module_names(mm, torch=_NS(torch, rand=rand)), contextlib.redirect_stdout(captured):
        try:
            mcmc.run()
        except Exception as e:  # noqa: BLE001 - the real code raised inside a run: the completed iterations are still re-derived
            aborted = "%s: %s" % (type(e).__name__, e)
    done = sum(1 for e in ev if e[0] == "tune")
    if aborted is not None and done >= iters:
        # raised after the last iteration (the final report divides by _accept + _reject of an operator that was never
        # selected): the loop itself is complete
        aborted = None
    if aborted is not None:
        # keep the events of the completed iterations only
        last = max(i for i, e in enumerate(ev) if e[0] == "tune") if done else 1
        ev = ev[:last + 1]
        while len(rows) > done + 1:
            rows.pop()
    iters_req, iters = iters, done if aborted is not None else iters
    csv_rows = {}
    for line in captured.getvalue().splitlines():
        cells = line.split("\t")
        if len(cells) == 2 + sum(p.shape[-1] for p in params) and cells[0].isdigit():
            csv_rows[int(cells[0])] = [float(c) for c in cells[1:]]
    # ---- re-derive every iteration
    def fail(msg, it):
        raise Refuted("whole run (%s, adaptation %s, seed %d), iteration %d: %s" % ("+".join(kinds), "on" if adapt else "off", seed, it, msg),
                      witness={"kinds": kinds, "adapt": adapt, "seed": seed, "iteration": it},
                      replay={"kind": "custom", "contract": "C15", "func": "replay_whole_run", "args": {"kinds": kinds, "adapt": adapt, "iters": it, "seed": seed}},
                      confirmed=True)
    i = 0
    # prefix: logger at sample 0, then the joint at the initial state
    if ev[i][0] != "log" or ev[i][1] != 0:
        fail("first event is %r" % ev[i][0], 0)
    i += 1
    if ev[i][0] != "joint" or not _close(ev[i][1], ev[i][2]):
        fail("initial log_joint %r is not the target at the initial state %r" % (ev[i][1:3]), 0)
    LJ = float(ev[i][1])
    i += 1
    n_acc = n_rej = n_nonfinite = 0
    used = set()
    for it in range(1, iters + 1):
        e = ev[i]
        if e[0] != "step":
            fail("expected step, got %r" % e[0], it)
        k, pre, h, post = e[1], e[2], float(e[3]), e[4]
        used.add(k)
        i += 1
        LJp, u = None, None
        if ev[i][0] == "joint":
            if not (_close(ev[i][1], ev[i][2]) or (ev[i][1] != ev[i][1] and ev[i][2] != ev[i][2])):
                fail("density used for the proposal %r differs from the target evaluated from scratch %r" % (float(ev[i][1]), float(ev[i][2])), it)
            LJp = float(ev[i][1])
            i += 1
        if ev[i][0] == "rand":
            u = float(ev[i][1])
            i += 1
        dec = ev[i]
        if dec[0] not in ("accept", "reject") or dec[1] != k:
            fail("expected the decision of operator %d, got %r" % (k, dec[:2]), it)
        i += 1
        accepted = dec[0] == "accept"
        if LJp is None:
            if accepted or math.isfinite(h):
                fail("no density evaluated for the proposal although h=%r, accepted=%s" % (h, accepted), it)
            want, pw = False, 0.0
            n_nonfinite += 1
        else:
            if u is None:
                if math.isfinite(LJp) and math.isfinite(h):
                    fail("no uniform draw for a finite proposal", it)
                want, pw = spec_decision(LJ, LJp, h, 0.5)
                n_nonfinite += 1
            else:
                want, pw = spec_decision(LJ, LJp, h, u)
        if accepted is not want:
            fail("move %s with LJ=%r LJ'=%r h=%r u=%r; the statement requires %s" % ("accepted" if accepted else "rejected", LJ, LJp, h, u, "accept" if want else "reject"), it)
        if accepted:
            LJ = LJp
            n_acc += 1
            cur = post
        else:
            n_rej += 1
            cur = pre
            for a, b in zip(dec[2], pre):
                if not _identical(a, b):
                    fail("rejected move did not restore a parameter bit-identically: %s vs %s" % (a.tolist(), b.tolist()), it)
        e = ev[i]
        if e[0] != "log" or e[1] != it:
            fail("expected the logger at sample %d after the decision, got %r" % (it, e[:2]), it)
        if any(not _identical(a, b) for a, b in zip(e[2], cur)):
            fail("logged parameters are not the post-decision state", it)
        if not _close(e[3], e[4]) or not _close(e[3], LJ):
            fail("logged density %r; target at the logged parameters %r; chain's log_joint %r" % (float(e[3]), float(e[4]), LJ), it)
        i += 1
        e = ev[i]
        if e[0] != "tune" or e[1] != k or e[3] != it or e[4] is not accepted or not _close(e[2], pw, 1e-12):
            fail("tune event %r, expected acceptance probability %r" % (e, pw), it)
        if not adapt and e[5] != e[6]:
            fail("adaptation is off but the tuning parameter changed %r -> %r" % (e[5], e[6]), it)
        i += 1
        row = rows[it]
        flat = [v for p in cur for v in p.tolist()]
        if not _close(row[0], LJ) or row[1:] != flat:
            fail("real ContainerLogger row %r is not (target, parameters) of the post-decision state" % (row,), it)
        crow = csv_rows.get(it)
        if crow is None or not _close(crow[0], LJ) or crow[1:] != flat:
            fail("row written by the real core.logger.Logger %r is not (target, parameters) of the post-decision state" % (crow,), it)
    if i != len(ev):
        fail("%d unexplained trailing events" % (len(ev) - i), iters)
    if aborted is not None:
        raise Undecided("the real run raised %s after %d of %d iterations (all completed iterations agree with the statement)" % (aborted[:200], iters, iters_req))
    if n_acc == 0 or n_rej == 0 or len(used) != len(kinds):
        raise Undecided("vacuous whole run: %d accepted, %d rejected, operators used %s" % (n_acc, n_rej, sorted(used)))
    return {"iterations": iters, "accepted": n_acc, "rejected": n_rej, "nonfinite": n_nonfinite}


def replay_whole_run(args):
    try:
        whole_run(args["kinds"], args["adapt"], args["iters"], args["seed"])
    except Refuted as e:
        return False, e.detail
    return True, "every iteration agrees with the statement"


# ---------------------------------------------------------------------------------------------------
# GMRF block operator: the +inf return paths through the real loop
# ---------------------------------------------------------------------------------------------------
def gmrf_inf_path(fail_at):
    """`torch.linalg.cholesky` of the operator's module raises the LinAlgError on its `fail_at`-th call: `_step` returns +inf
    after having changed the precision (and, for the 2nd call, the field); one iteration of the whole real MCMC.run must
    reject, restore both parameters bit-identically and log the restored state with its own density"""
    import importlib
    from torchtree.core.logger import ContainerLogger
    gmod = importlib.import_module("torchtree.inference.mcmc.gmrf_block_updating")
    mm = _mm()
    w = real_world("GMRFPiecewiseCoalescentBlockUpdatingOperator")
    op, params, joint, oracle = w["op"], w["params"], w["joint"], w["oracle"]
    calls = [0]
    real_chol = torch.linalg.cholesky

    def chol(*a, **k):
        calls[0] += 1
        if calls[0] == fail_at:
            raise torch._C._LinAlgError("linalg.cholesky: contract stub: not positive-definite")
        return real_chol(*a, **k)
    hs = []
    real_step = op.step

    def step():
        h = real_step()
        hs.append((float(h), [_snap(p.tensor) for p in params]))
        return h
    op.step = step
    pre = [_snap(p.tensor) for p in params]
    lp0 = float(oracle())
    rows = []
    torch.manual_seed(11)
    mcmc = mm.MCMC("mcmc", joint, [op], 1, loggers=[ContainerLogger([joint] + params, rows, 1)], checkpoint=None, every=0)
    with _module_names(gmod, torch=_NS(torch, linalg=_NS(torch.linalg, cholesky=chol))), contextlib.redirect_stdout(io.StringIO()):
        mcmc.run()
    if calls[0] < fail_at:
        raise Undecided("cholesky call #%d not reached" % fail_at)
    h, mid = hs[0]
    if not (h == INF):
        raise Refuted("GMRF block operator returned %r on a Cholesky failure (expected the +inf sentinel)" % h, witness={"fail_at": fail_at},
                      replay={"kind": "custom", "contract": "C15", "func": "replay_gmrf_inf", "args": {"fail_at": fail_at}}, confirmed=True)
    changed = [not _identical(a, b) for a, b in zip(mid, pre)]
    bad = []
    if op._reject != 1 or op._accept != 0:
        bad.append("the half-made proposal was not rejected (accept=%d reject=%d)" % (op._accept, op._reject))
    for p, q in zip(params, pre):
        if not _identical(p.tensor, q):
            bad.append("parameter %s is %s, pre-state %s" % (p.id, p.tensor.tolist(), q.tolist()))
    row = rows[-1]
    if not _close(row[0], lp0) or not _close(row[0], oracle()):
        bad.append("logged density %r, target at the restored state %r" % (row[0], lp0))
    if bad:
        raise Refuted("GMRF Cholesky failure #%d: %s" % (fail_at, "; ".join(bad)), witness={"fail_at": fail_at},
                      replay={"kind": "custom", "contract": "C15", "func": "replay_gmrf_inf", "args": {"fail_at": fail_at}}, confirmed=True)
    if not any(changed):
        raise Undecided("vacuous: nothing had been changed when the failure occurred")
    return {"backend": "heap (real operator + whole real MCMC.run, cholesky stub raising)", "cases": 1,
            "statement": "Cholesky failure #%d: _step returns +inf with %s already changed; the loop rejects, both parameters are restored "
                         "bit-identically, the logged row is (target, parameters) of the restored state" % (fail_at, [p.id for p, c in zip(params, changed) if c])}


def gmrf_draw_consistent():
    """bounded stand-in for the GMRF block update's Hastings ratio: the forward density the operator reports is that of
    N(mu, QW^-1) with QW = U^T U (U the Cholesky factor it computes); the field it PROPOSES must be drawn from that very
    distribution, i.e. x' = mu + U^-1 z.  Two runs from the same state with the same precision draw and different z:
    U (x'_1 - x'_2) must equal z_1 - z_2, and the reported forward log densities must differ by -(z1.z1 - z2.z2)/2."""
    import importlib
    gmod = importlib.import_module("torchtree.inference.mcmc.gmrf_block_updating")
    runs = []
    real_chol = torch.linalg.cholesky
    for k, zs in enumerate(([0.3, -1.1, 0.7, 0.2], [-0.8, 0.4, 1.3, -0.5])):
        w = real_world("GMRFPiecewiseCoalescentBlockUpdatingOperator")
        op, field = w["op"], w["params"][0]
        chols = []

        def chol(A, *a, **kw):
            U = real_chol(A, *a, **kw)
            chols.append((A.detach().clone(), U.detach().clone(), kw.get("upper", False)))
            return U
        z = torch.tensor(zs, dtype=field.tensor.dtype)
        with _module_names(gmod, torch=_NS(torch, linalg=_NS(torch.linalg, cholesky=chol), randn=lambda *a, **kw: z.clone(),
                                           rand=lambda *a, **kw: torch.tensor([0.37]))):
            h = op._step()
        if not chols:
            raise Undecided("the operator no longer calls torch.linalg.cholesky: the draw cannot be related to its density this way")
        runs.append((z, _snap(field.tensor), chols[0], float(h)))
    (z1, x1, (A1, U1, up1), h1), (z2, x2, (A2, U2, up2), h2) = runs
    if not torch.allclose(A1, A2):
        raise Undecided("the two runs did not factorise the same matrix (state or precision draw differs)")
    U = U1 if up1 else U1.t()     # upper factor: QW = U^T U
    if not torch.allclose(U.t() @ U, A1, atol=1e-10):
        raise Undecided("captured factor is not a Cholesky factor of the captured matrix")
    lhs, rhs = U @ (x1 - x2), z1 - z2
    if not torch.allclose(lhs, rhs, atol=1e-8):
        raise Refuted("GMRF block update: the proposed field is not drawn from the distribution whose density enters the Hastings ratio: "
                      "U(x'_1 - x'_2) = %s but z_1 - z_2 = %s (QW = U^T U)" % (lhs.tolist(), rhs.tolist()),
                      witness={"z1": z1.tolist(), "z2": z2.tolist(), "x1": x1.tolist(), "x2": x2.tolist()},
                      replay={"kind": "custom", "contract": "C15", "func": "replay_gmrf_draw", "args": {}}, confirmed=True)
    return {"backend": "concrete (bounded)", "cases": 2, "statement": "x' = mu + U^-1 z for the factor U whose diagonal enters the reported forward density"}


def replay_gmrf_draw(args):
    try:
        gmrf_draw_consistent()
    except Refuted as e:
        return False, e.detail
    return True, "held"


def replay_gmrf_inf(args):
    try:
        gmrf_inf_path(args["fail_at"])
    except Refuted as e:
        return False, e.detail
    return True, "rejected and restored"


# =====================================================================================================
# obligations
# =====================================================================================================
def _cut(func=None):
    mm = _mm()
    c = loopcut15.cut_only_while(func or mm.MCMC.run)
    return c


def _cut_info(c, func=None):
    mm = _mm()
    return {"loop_header_dropped": c.header, "rewrites": c.rewrites, "body_statements": c.n_body,
            "source_sha256_MCMC.run": loopcut15.sha(func or mm.MCMC.run)}


def ob_loop_cut():
    """the cut itself: located, header side-effect free, `break` path leaves everything untouched"""
    c = _cut()
    test = ast.parse(c.iter, mode="eval")
    for n in ast.walk(test):
        if isinstance(n, (ast.Call, ast.NamedExpr, ast.Await, ast.Yield)):
            raise Undecided("the dropped loop header `%s` has side effects" % c.header)
    names = {n.attr for n in ast.walk(test) if isinstance(n, ast.Attribute)}
    if not names <= {"_epoch", "iterations"}:
        raise Undecided("the dropped loop header reads %s" % sorted(names))
    if len(c.rewrites) != 1 or "break" not in c.rewrites[0]:
        raise Undecided("expected exactly the `if handler.stop: break` rewrite, got %s" % c.rewrites)
    # stop requested: tagged return, nothing touched
    mm, w, ops, mcmc, saves = _build(c, _t(-1.0), _t(-2.0), [_t(0.0)], torch.tensor([0.5]), 0)
    st = _roles(c).state(mcmc, 3, types.SimpleNamespace(stop=True), w.pi["S0"])
    with _module_names(mm, torch=_loop_torch(torch.tensor([0.5]), 0, [], [])):
        tagv, loc = c.body(st)
    loc = _roles(c).canon(loc)
    if tagv != "break" or w.events or mcmc._epoch != 7 or loc["log_joint"] is not w.pi["S0"]:
        raise Refuted("a requested stop does not end the loop cleanly: tag=%r events=%r" % (tagv, w.events), witness={}, replay=None, confirmed=None)
    out = _cut_info(c)
    out.update(backend="ast + native execution", cases=1, statement="while-loop of MCMC.run located; header reads only _epoch/iterations; "
               "`break` -> tagged return with no collaborator call")
    return out


def ob_loop_symbolic(n_ops, index):
    def fn():
        c = _cut()
        st = symbolic_accept_rule(c, n_ops, index)
        st.update(_cut_info(c))
        st.update(backend="symbolic execution of the verbatim body (vt.symtorch + vt.cond.Explorer) + z3 QF_UFNRA, EXP uninterpreted with instantiated "
                          "axioms: EXP>0, EXP(0)=1, strictly monotone on all occurring arguments, EXP(LJ'-LJ+h)*EXP(LJ) = EXP(LJ')*EXP(h)",
                  statement="for all real LJ, LJ', h and u in [0,1): accepted <=> u < min(1, exp(LJ'-LJ+h)); tune receives min(1, exp(LJ'-LJ+h)); "
                            "all protocol postconditions hold on every path")
        return st
    return fn


def _raise_case(c, f, what):
    ok, msg = replay_accept({"case": _case_key(c)})
    raise Refuted("%s: LJ=%r LJ'=%r h=%r u=%r: %s" % (what, c[0], c[1], c[2], c[3], "; ".join(f)),
                  witness={"LJ": repr(c[0]), "LJp": repr(c[1]), "h": repr(c[2]), "u": repr(c[3]), "failures": f, "real_whole_run": msg},
                  replay={"kind": "custom", "contract": "C15", "func": "replay_accept", "args": {"case": _case_key(c)}}, confirmed=(not ok))


def ob_loop_classes():
    c = _cut()
    n = 0
    failing = []
    for case in finite_cases():
        r = concrete_iteration(c, *case)
        f = r["fail"] + decision_failures(r, *case)
        n += 1
        if f:
            failing.append((case, f))
    if failing:
        # prefer a witness that the whole real MCMC.run exhibits as well
        for case, f in failing[:40]:
            if not replay_accept({"case": _case_key(case)})[0]:
                _raise_case(case, f, "accept rule / protocol on the verbatim loop body")
        _raise_case(failing[0][0], failing[0][1], "accept rule / protocol on the verbatim loop body")
    out = _cut_info(c)
    out.update(backend="native execution of the verbatim body on a complete split of value classes", cases=n,
               statement="d=LJ'-LJ+h in {<0, =0, >0, underflow, overflow} x u in {0, tiny, just below / equal / just above exp(min(0,d)), ~1} x "
                         "split of d between density and Hastings term x LJ in {finite, -inf}: accepted, tune argument and all protocol "
                         "postconditions equal the statement's")
    return out


NONFINITE_GROUPS = {
    "h=+inf": lambda LJ, LJp, h, u: h == INF and math.isfinite(LJp),
    "h=-inf": lambda LJ, LJp, h, u: h == -INF and math.isfinite(LJp),
    "h=nan": lambda LJ, LJp, h, u: h != h and math.isfinite(LJp),
    "LJ'=nan": lambda LJ, LJp, h, u: LJp != LJp and math.isfinite(h),
    "LJ'=-inf": lambda LJ, LJp, h, u: LJp == -INF and math.isfinite(h),
    "LJ'=+inf": lambda LJ, LJp, h, u: LJp == INF and math.isfinite(h),
    "both": lambda LJ, LJp, h, u: not math.isfinite(h) and not math.isfinite(LJp),
}


def ob_loop_nonfinite(group):
    def fn():
        c = _cut()
        n = 0
        for case in nonfinite_cases():
            if not NONFINITE_GROUPS[group](*case):
                continue
            r = concrete_iteration(c, *case)
            f = r["fail"] + decision_failures(r, *case)
            n += 1
            if f:
                _raise_case(case, f, "non-finite value in the accept test")
        if n == 0:
            raise Undecided("no case in group %s" % group)
        return {"backend": "native execution of the verbatim body", "cases": n,
                "statement": "%s: the move is rejected, reject() once, log_joint unchanged, state restored, tune receives 0" % group}
    return fn


def ob_loop_protocol_variants():
    """the protocol postconditions for 1..3 operators (every selected index), 0..2 loggers, on-screen logging on/off, an
    operator with `_integrator`, checkpointing on"""
    c = _cut()
    n = 0
    base = [(-3.25, -2.0, 0.5, 0.3), (-3.25, -9.0, 0.5, 0.9), (-3.25, -3.25, 0.0, 0.999), (-3.25, -4.0, INF, 0.1), (-3.25, NAN, 0.0, 0.1)]
    for n_ops in (1, 2, 3):
        for index in range(n_ops):
            for n_log in (0, 1, 2):
                for every, integ, ck, epoch in ((0, False, None, 7), (1, True, None, 7), (7, False, "ck.json", 14), (5, True, "ck.json", 1000)):
                    for case in base:
                        r = concrete_iteration(c, *case, n_ops=n_ops, index=index, n_loggers=n_log, every=every, integrator=integ,
                                               checkpoint=ck, freq=7, epoch=epoch)
                        f = r["fail"] + decision_failures(r, *case)
                        if every and epoch % every == 0 and not r["printed"]:
                            f.append("on-screen line missing")
                        if ck and epoch % 7 == 0 and len(r["saves"]) != 1:
                            f.append("checkpoint not written after iteration %d" % epoch)
                        n += 1
                        if f:
                            raise Refuted("protocol (ops=%d index=%d loggers=%d every=%d integrator=%s checkpoint=%s): %s"
                                          % (n_ops, index, n_log, every, integ, ck, "; ".join(f)),
                                          witness={"case": _case_key(case), "failures": f},
                                          replay={"kind": "custom", "contract": "C15", "func": "replay_loop_grid", "args": {}}, confirmed=_confirm_on_grid()[0])
    return {"backend": "native execution of the verbatim body over configuration variants", "cases": n,
            "statement": "only the selected operator is touched; step first; joint evaluated at the proposed state before the decision; exactly one of "
                         "accept()/reject(); loggers after the decision see the post-decision state and its density; tune once; _epoch + 1"}


def ob_loop_prefix():
    """the text before the loop establishes the invariant: log_joint = pi(initial state) (evaluated then, not cached from
    elsewhere), _epoch untouched; loggers initialised and called with sample 0 on the initial state"""
    import signal
    c = _cut()
    mm, w, ops, mcmc, saves = _build(c, _t(-1.5), _t(-2.5), [_t(0.0), _t(0.0)], torch.tensor([0.5]), 0, epoch=1)
    old = signal.getsignal(signal.SIGINT)
    try:
        with contextlib.redirect_stdout(io.StringIO()):
            loc = c.prefix(mcmc)
    finally:
        signal.signal(signal.SIGINT, old)
    loc = _roles(c).canon(loc)
    f = []
    if not _same(loc.get("log_joint"), w.pi["S0"]):
        f.append("log_joint before the loop is not the joint at the initial state")
    if ("joint", "S0") not in w.events:
        f.append("the joint is not evaluated before the loop")
    if mcmc._epoch != 1:      # (the acceptance counter only feeds the progress print-out: not part of the property, not checked)
        f.append("_epoch=%r before the first iteration" % (mcmc._epoch,))
    if any(e[0] in ("step", "accept", "reject", "tune") for e in w.events):
        f.append("an operator is used before the loop")
    if getattr(loc.get("handler"), "stop", None) is not False:
        f.append("handler.stop is not False before the loop")
    if f:
        raise Refuted("prefix of MCMC.run: " + "; ".join(f), witness={"events": [e[:3] for e in w.events]}, replay=None, confirmed=None)
    out = _cut_info(c)
    out.update(backend="native execution of the verbatim prefix", cases=1, statement="Inv(0): log_joint = pi(state_0), _epoch = start; "
               "with C15.loop.* (Inv(k) and not stop => Inv(k+1)) this is the induction for every iteration of every run")
    return out


# ---- must-fail twins of the loop body --------------------------------------------------------------
class _GtToLt(ast.NodeTransformer):
    hits = 0

    def visit_Compare(self, node):
        self.generic_visit(node)
        if any(isinstance(n, ast.Attribute) and n.attr == "rand" for c in node.comparators + [node.left] for n in ast.walk(c)):
            node.ops = [ast.Lt() if isinstance(o, ast.Gt) else (ast.Gt() if isinstance(o, ast.Lt) else o) for o in node.ops]
            self.hits += 1
        return node


class _NoReject(ast.NodeTransformer):
    hits = 0

    def visit_Expr(self, node):
        v = node.value
        if isinstance(v, ast.Call) and isinstance(v.func, ast.Attribute) and v.func.attr == "reject":
            self.hits += 1
            return ast.copy_location(ast.Pass(), node)
        return node


class _DropHastings(ast.NodeTransformer):
    hits = 0

    def visit_BinOp(self, node):
        self.generic_visit(node)
        if isinstance(node.op, ast.Add) and isinstance(node.right, ast.Name) and node.right.id == self.roles.hr:
            self.hits += 1
            return node.left
        return node


class _LogBeforeDecision(ast.NodeTransformer):
    hits = 0

    def visit_While(self, node):
        body = node.body
        i_if = next((i for i, s in enumerate(body) if isinstance(s, ast.If) and isinstance(s.test, ast.Name) and s.test.id == self.roles.acc), None)
        i_for = next((i for i, s in enumerate(body) if isinstance(s, ast.For) and "loggers" in ast.unparse(s.iter)), None)
        if i_if is not None and i_for is not None and i_for > i_if:
            st = body.pop(i_for)
            body.insert(i_if, st)
            self.hits += 1
        return node


class _JointBeforeStep(ast.NodeTransformer):
    """the proposal's density taken before operator.step(): `log_joint_proposed = self.joint()` becomes `= log_joint`"""
    hits = 0

    def visit_Assign(self, node):
        if len(node.targets) == 1 and isinstance(node.targets[0], ast.Name) and node.targets[0].id == self.roles.ljp:
            self.hits += 1
            node.value = ast.Name(id=self.roles.lj, ctx=ast.Load())
        return node


TWINS = {"gt_to_lt": (_GtToLt, "symbolic"), "drop_hastings": (_DropHastings, "symbolic"), "no_reject": (_NoReject, "protocol"),
         "log_before_decision": (_LogBeforeDecision, "protocol"), "stale_density": (_JointBeforeStep, "protocol")}


def ob_vacuity_loop(name):
    def fn():
        mm = _mm()
        tr, mode = TWINS[name]
        t = tr()
        t.roles = _roles(_cut())
        g = loopcut15.twin(mm.MCMC.run, t, name)
        c = loopcut15.cut_only_while(g)
        try:
            if mode == "symbolic":
                symbolic_accept_rule(c, 1, 0)
            else:
                for case in [(-3.25, -2.0, 0.5, 0.3), (-3.25, -9.0, 0.5, 0.9)]:
                    r = concrete_iteration(c, *case)
                    f = r["fail"] + decision_failures(r, *case)
                    if f:
                        raise Refuted("; ".join(f))
        except Refuted as e:
            return {"backend": "must-fail twin", "cases": 1, "statement": "twin '%s' of the loop body is refuted: %s" % (name, e.detail[:300])}
        raise Undecided("vacuity guard: the must-fail twin '%s' of the loop body was NOT refuted" % name)
    return fn


def ob_must_fail(inner, what):
    def fn():
        try:
            inner()
        except Refuted as e:
            return {"backend": "must-fail twin", "cases": 1, "statement": "%s is refuted: %s" % (what, e.detail[:300])}
        raise Undecided("vacuity guard: %s was NOT refuted" % what)
    return fn


def _flip_scaler(op):
    """must-fail twin for C15.tune: a scaler whose re-parameterisation is reversed (higher acceptance -> narrower window)"""
    import types as _types

    def set_adaptable_parameter(self, value):
        self._scaler = 1.0 / (_om().math.exp(-value) + 1.0)
    op.set_adaptable_parameter = _types.MethodType(set_adaptable_parameter, op)


def ob_tune_direction(name, side, count=None, twin=None):
    def fn():
        st = prove_tune_direction(name, side, twin=twin, count=count)
        return st
    return fn


def ob_tune_grid(name, side):
    def fn():
        bad, w = tune_grid(name, side)
        if bad:
            ok, msg = replay_tune(w)
            raise Refuted(msg, witness=w, replay={"kind": "custom", "contract": "C15", "func": "replay_tune", "args": w}, confirmed=not ok)
        return {"backend": "grid of concrete values on the real class (real math)", "cases": TUNE_GRID_COUNT[0],
                "statement": "acceptance %s target never moves the boldness the wrong way on the grid" % side}
    return fn


def ob_tune_acceptance_rate_option():
    """AdaptiveStepSize(use_acceptance_rate=True) — the documented option that tunes on the operator's OWN running acceptance rate: in a
    mixture the `sample` argument of tune/learn is the global iteration (larger than the operator's own call count).  With every own proposal
    accepted (own rate 1 > target) the step size never decreases, with every own proposal rejected it never increases, whatever `sample` is."""
    def body():
        am = importlib.import_module("torchtree.inference.hmc.adaptation")
        from torchtree.inference.hmc.integrator import LeapfrogIntegrator
        n = 0
        # own acceptance sequences: all accepted, all rejected, and periodic ones whose running rate stays strictly on one side of the target
        patterns = {"accepted": lambda k: True, "rejected": lambda k: False, "1 in 10 accepted": lambda k: k % 10 == 1,
                    "9 in 10 accepted": lambda k: k % 10 != 0, "1 in 20 accepted": lambda k: k % 20 == 1}
        for target in (0.234, 0.8):
            for stride, offset in ((1, 0), (2, 5), (7, 100)):
                for name, pat in patterns.items():
                    integ = LeapfrogIntegrator("lf", 3, 0.1)
                    a = am.AdaptiveStepSize("a", integ, target, use_acceptance_rate=True)
                    prev = float(integ.step_size)
                    own = 0
                    for k in range(1, 61):
                        accepted = bool(pat(k))
                        own += accepted
                        # the acceptance probability of the last proposal is NOT what this option tunes on: give it the opposite of the own rate
                        a.learn(torch.tensor(0.0 if own / k > target else 1.0, dtype=torch.float64), offset + stride * k, accepted)
                        cur = float(integ.step_size)
                        n += 1
                        rate = own / k
                        wrong = (rate > target and cur < prev - 1e-15) or (rate < target and cur > prev + 1e-15)
                        if wrong:
                            args = {"target": target, "stride": stride, "offset": offset, "pattern": name, "call": k}
                            raise Refuted("AdaptiveStepSize(use_acceptance_rate=True), target %.3g: own proposals %s (own rate %.3g %s target) but call %d with global "
                                          "iteration %d moved the step size from %.6g to %.6g" % (target, name, rate, "above" if rate > target else "below", k, offset + stride * k, prev, cur),
                                          witness=args, replay={"kind": "custom", "contract": "C15", "func": "replay_tune_acceptance_rate_option", "args": args}, confirmed=True)
                        prev = cur
        return {"backend": "concrete", "cases": n, "statement": "%d learn() calls: the step size never moves against the sign of (own running acceptance rate - target), whatever the global iteration number and the last proposal's acceptance probability" % n}
    return body


def replay_tune_acceptance_rate_option(args):
    try:
        ob_tune_acceptance_rate_option()()
    except Refuted as e:
        return False, e.detail
    return True, "held"


# ------------------------------------------------------------------------------------------
# HMC: a trajectory that fails (outside the support, NaN) is answered by drawing a NEW momentum, up to ten times.  The forward proposal is then
# the momentum density conditioned on success: its normalising constant depends on the state and belongs in the Hastings ratio.
# ------------------------------------------------------------------------------------------
def _hmc_retry_case(x0, p_used, eps):
    """target Exponential(1) on the raw scale (support x > 0), unit mass, ONE leapfrog step of size eps: closed forms for everything.
    Returns (Hastings term returned by the real operator, K0 - K1, true log ratio of reverse to forward proposal density, x', failures)"""
    import contextlib
    import io
    from torchtree.core.parameter import Parameter
    from torchtree.distributions.distributions import Distribution
    from torchtree.inference.hmc import hamiltonian as ham_mod
    from torchtree.inference.hmc.integrator import LeapfrogIntegrator
    from torchtree.inference.hmc.operator import HMCOperator
    t64 = lambda v: torch.tensor(v, dtype=torch.float64)
    x = Parameter("x", t64([x0]))
    target = Distribution("target", torch.distributions.Exponential, x, {"rate": Parameter("rate", t64([1.0]))})
    draws = list(p_used)
    used = []

    def sample_momentum(self_, mass_matrix):
        p_ = draws.pop(0)
        used.append(p_)
        return t64([p_])
    old = ham_mod.Hamiltonian.sample_momentum
    ham_mod.Hamiltonian.sample_momentum = sample_momentum
    try:
        with contextlib.redirect_stdout(io.StringIO()):
            op = HMCOperator("hmc", target, [x], LeapfrogIntegrator("lf", 1, eps), Parameter("mass", t64([1.0])), 1.0, 0.8, [])
            h = float(op.step())
    finally:
        ham_mod.Hamiltonian.sample_momentum = old
    x1 = float(x.tensor[0])
    p0 = used[-1]
    # leapfrog with grad U = 1 (U = x on the support): p_half = p0 - eps/2, x1 = x0 + eps p_half, p1 = p_half - eps/2
    p1 = p0 - eps
    k_diff = 0.5 * p0 * p0 - 0.5 * p1 * p1

    def c(xv):
        # a trajectory from xv succeeds iff xv + eps (p - eps/2) > 0: s = P(p > eps/2 - xv/eps), p ~ N(0,1); with at most ten draws the density
        # of ending with a given successful momentum is N(p) (1 + (1-s) + ... + (1-s)^9) = N(p) (1 - (1-s)^10) / s
        s_ = 0.5 * math.erfc((eps / 2 - xv / eps) / math.sqrt(2.0))
        return (1.0 - (1.0 - s_) ** 10) / s_
    true = k_diff + math.log(c(x1)) - math.log(c(x0))
    return h, k_diff, true, x1, len(used) - 1


def ob_hmc_retry_conditioning():
    def body():
        n = 0
        for x0, p_used, eps in ((0.2, [1.0], 1.5), (0.2, [0.3, 1.0], 1.5), (0.05, [-0.4, 0.2, 1.4], 1.0), (2.0, [0.5], 0.3)):
            h, k_diff, true, x1, fails = _hmc_retry_case(x0, p_used, eps)
            n += 1
            if abs(h - true) > 1e-9:
                args = {"x0": x0, "momenta": p_used, "step_size": eps}
                raise Refuted("HMC on Exponential(1) without transform, unit mass, one leapfrog step of %s from x = %s (momenta drawn: %s, %d failed trajectories): moved to x' = %.6g; "
                              "Hastings term returned %.6f = K0 - K1 = %.6f, but a failed trajectory is answered by a new draw, so the forward proposal is the momentum density "
                              "conditioned on success and the log ratio of reverse to forward proposal density is %.6f (the state-dependent success probabilities are missing)"
                              % (eps, x0, p_used, fails, x1, h, k_diff, true), witness=dict(args, returned=h, true=true),
                              replay={"kind": "custom", "contract": "C15", "func": "replay_hmc_retry_conditioning", "args": {}}, confirmed=True)
        return {"backend": "concrete (closed form)", "cases": n, "statement": "%d cases: returned Hastings term = log ratio of reverse to forward proposal density including the retry loop" % n}
    return body


def replay_hmc_retry_conditioning(args):
    try:
        ob_hmc_retry_conditioning()()
    except Refuted as e:
        return False, e.detail
    return True, "held"


def ob_tune_disabled():
    n = 0
    for name in ("ScalerOperator", "SlidingWindowOperator", "DirichletOperator", "GMRFPiecewiseCoalescentBlockUpdatingOperator", "HMCOperator"):
        for value in GRID[name]:
            T = _tunables()[name]
            obj = T["make"](value, 0.234, 5)
            obj._disable_adaptation = True
            for p in (0.0, 0.5, 1.0):
                T["call"](obj, torch.tensor(p))
                n += 1
                if float(T["get"](obj)) != float(value) or obj._adapt_count != 5:
                    raise Refuted("%s: adaptation is disabled but tune changed the tuning parameter %r -> %r" % (name, value, float(T["get"](obj))),
                                  witness={"class": name, "value": value, "p": p}, replay=None, confirmed=True)
    return {"backend": "native execution on the real classes", "cases": n, "statement": "disable_adaptation: tune leaves the tuning parameter and the adaptation count unchanged"}


def ob_restore_base():
    return restore_base()


def ob_restore_real(kind, reps, seed):
    return lambda: restore_real(kind, reps, seed)


def ob_whole_run(kinds, adapt, iters, seed, every=0):
    def fn():
        st = whole_run(kinds, adapt, iters, seed, every)
        st.update(backend="whole real MCMC.run, externally instrumented (bounded)", cases=iters,
                  statement="every iteration: proposal density = target from scratch; decision = statement's rule on the recorded (LJ, LJ', h, u); "
                            "rejected moves restore bit-identically; logged rows (recording logger and real ContainerLogger) are (target, parameters) of "
                            "the post-decision state; tune once with the acceptance probability")
        return st
    return fn


META = {
    "level": "other",
    "explanation": (
        "Transition loop: the body of the while-loop of the real MCMC.run is cut from its current source and executed verbatim. For finite values "
        "the accept rule is proved for ALL real LJ, LJ', h and u in [0,1) (symbolic scalars, every path of the body, z3 with exp as an "
        "uninterpreted positive strictly monotone function + the homomorphism instance for LJ'-LJ+h); the IEEE corner values (+-inf, nan, "
        "underflow/overflow of exp, u equal to the acceptance probability) are covered by a complete case split executed on the same body; the "
        "protocol clauses (which density, accept/reject exactly once, log_joint update, loggers after the decision, tune, invariant) are checked on "
        "every symbolic path and every concrete case with recording contract proxies; the prefix establishes the invariant, so the clauses hold at "
        "every iteration of every run for every operator satisfying the operator contract. The operator contract is discharged per class: restore "
        "(real step/reject around an adversarial _step + every real operator, copy-only argument: step/reject never branch on values), Hastings "
        "ratio (scenario harness, all values, shapes enumerated) for Scaler / SlidingWindow / Dirichlet. Tuning direction: the real tune/learn is "
        "executed on symbolic values and the direction proved with z3 for all tuning values, acceptance probabilities, targets and adaptation counts. "
        "level is 'other' because: (i) the Hastings ratio of GMRFPiecewiseCoalescentBlockUpdatingOperator (Newton iterations + Cholesky) is NOT "
        "decided (only its restore, its +-inf paths and its tuning direction are), (ii) the HMC Hastings term is C16's subject, (iii) Hastings "
        "obligations enumerate parameter-list lengths and dimensions (V), (iv) cache coherence of the joint on the shipped tree/likelihood models "
        "is C11's subject - here it is checked on real Parameter/Distribution/JointDistributionModel/coalescent/GMRF objects, (v) whole runs are bounded (B)."),
    "bound": "Hastings: 1..2 parameters x 1..3 coordinates (quick) / 1..3 x 1..4 (thorough), every (parameter, coordinate) choice, both signs; Dirichlet K=2..4 (5 thorough); "
             "AdaptiveStepSize counters {0,1,8,9,10,10^6}; dual averaging counters {0,1,2,10,100}; whole runs 300 (quick) / 3000 (thorough) iterations; "
             "loop, restore base, tuning direction: unbounded in values and iterations",
    "exhaustive": False,
    "trusted_base": [
        "CPython 3.12 executes the verbatim loop body / the real methods (Python semantics used, not modelled); vt.loopcut drops only the loop header `while self._epoch <= self.iterations` and rewrites `break` into a tagged return",
        "z3 (QF_UFNRA); axioms of exp instantiated on the occurring terms: positivity, EXP(0)=1, strict monotonicity, EXP(a+b)=EXP(a)EXP(b); vt.nf rewrite rules exp(a+b)=exp a exp b, exp(log a)=a [a>0], log(ab)=log a+log b [a,b>0]",
        "stub in torchtree.inference.mcmc.mcmc: torch.rand(1) returns the chosen u in [0,1) (contract of torch.rand)",
        "stub in torchtree.inference.mcmc.mcmc: torch.distributions.Categorical(w).sample().item() returns the chosen index (any index; that the schedule follows the weights is not part of the property)",
        "proxies in C15.loop: operator (step/accept/reject/tune recorded, step returns h and moves the ghost state to 'proposed', reject moves it back), joint (returns pi(current ghost state)), loggers (read the ghost state and the joint at log time), MCMC.save_full_state replaced on the instance by a recorder",
        "stubs in torchtree.inference.mcmc.operator during C15.hastings: torch.rand(1).item() returns the symbolic draw u in [0,1); torch.randint(lo,hi,(1,)).item() returns the chosen index and records (lo,hi); torch.tensor accepts symbolic scalars; torch.distributions.Dirichlet is the real class with sample() returning the chosen draw",
        "stubs during C15.tune: `math` of torchtree.inference.mcmc.operator / gmrf_block_updating / hmc.operator / hmc.adaptation / ops.dual_averaging replaced by a proxy whose log/exp/sqrt/pow map symbolic scalars to the interpreted symbols of vt.nf (real math otherwise)",
        "stub in torchtree.inference.mcmc.gmrf_block_updating during C15.gmrf: torch.linalg.cholesky raises torch._C._LinAlgError on the chosen call",
        "float64 exp as computed by torch is the meaning of exp in the concrete class split; real arithmetic in the symbolic obligations",
        "torch.distributions.Dirichlet.log_prob (torch's code, executed symbolically) compared with the Dirichlet density written out in the sidecar",
        "vt.symtorch handlers for the torch entry points listed in the evidence; guarded by the concretisation cross-check of the scenario harness",
    ],
    "assumptions": [
        "SIDE DECISION against the literal statement: a Hastings value of +inf (and a proposed log density of +inf) must be REJECTED and restored, although min(1, exp(+inf)) = 1 would accept: +inf is only produced as a failure sentinel (GMRF block operator: Cholesky failure after the precision has already been changed; HMCOperator: 10 failed trials), never as a log ratio of densities of a state that was actually proposed",
        "the chain starts at a state whose log density is not nan (then log_joint is never nan: accepted proposals have a finite density - checked)",
        "the coordinate-wise operators (Scaler, SlidingWindow) act on 1-d parameter tensors (len(tensor) = number of coordinates), as in every configuration the CLI generates; on a [n,k] tensor ScalerOperator scales a whole row with one factor and still returns -log s (true ratio (k-2) log s): observed, outside the stated domain, not counted",
        "machine arithmetic treated as real arithmetic in the symbolic obligations (the concrete split covers the IEEE corner cases of the accept test)",
        "Hastings ratio of GMRFPiecewiseCoalescentBlockUpdatingOperator: NOT decided (torch.linalg.cholesky/solve and the Newton iteration have no contract); HMC Hastings term: see C16",
        "MassMatrixAdaptor is not an acceptance-driven tuning rule; the tuning clause does not speak about it",
        "HMCOperator.tune with adaptors ignores disable_adaptation (adaptors have their own start/end window): recorded, not an obligation",
    ],
}

MANIFEST = {
    "category": "other",
    "text": "The while-loop body of the real MCMC.run is cut from source and executed verbatim on a generic pre-state with contract proxies: for all "
            "real log densities, Hastings values and uniform draws z3 proves accepted <=> u < min(1, exp(change + Hastings)) on every path, a complete "
            "split of IEEE corner values is executed on the same body, and the protocol clauses (density evaluated after the proposal, accept/reject "
            "exactly once, log_joint update, restore before logging, self-consistent rows, tune with the acceptance probability, invariant + prefix) "
            "are checked on every path. The operator contract is discharged on the real classes: restore bit-identically (adversarial in-place _step, "
            "all five operator classes, listeners and caches), Hastings ratio of Scaler / SlidingWindow (derived by change of variables from the "
            "operator's own random map) and Dirichlet (density written out) as identities over all values, tuning direction of every operator and "
            "adaptor by running the real tune on symbolic values and z3 with exp monotone. Whole real runs re-derive every iteration (bounded).",
    "note": "Not decided: Hastings ratio of the GMRF block operator (Newton + Cholesky), HMC Hastings term (C16). Hastings obligations enumerate "
            "dimensions; whole-run and grid obligations are bounded stand-ins. +inf Hastings is treated as a failure sentinel (must reject) against the "
            "literal formula - stated in the assumptions.",
    "technique": "AST loop cut + symbolic execution with path forking + z3 (uninterpreted monotone exp) + recording proxies + scenario harness (exact normal form) + must-fail twins",
}


def obligations(tier, seed):
    thorough = tier == "thorough"
    F = FUNCS
    obs = []
    A = "accept rule: accepted iff u < min(1, exp(change in log density + log Hastings ratio))"
    P = "per-iteration protocol: density evaluated at the proposed state, accept/reject, log_joint, loggers, tune, invariant"
    obs.append(Ob("C15.loop.cut", "U", ob_loop_cut, clause=P, funcs=F, timeout=120))
    obs.append(Ob("C15.loop.prefix", "U", ob_loop_prefix, clause=P, funcs=F, timeout=120))
    obs.append(Ob("C15.loop.accept_rule.symbolic[ops=1]", "U", ob_loop_symbolic(1, 0), clause=A, funcs=F, timeout=300))
    obs.append(Ob("C15.loop.accept_rule.symbolic[ops=3,index=1]", "U", ob_loop_symbolic(3, 1), clause=A, funcs=F, timeout=300))
    obs.append(Ob("C15.loop.accept_rule.classes", "U", ob_loop_classes, clause=A, funcs=F, timeout=300))
    for g in NONFINITE_GROUPS:
        obs.append(Ob("C15.loop.nonfinite[%s]" % g, "U", ob_loop_nonfinite(g), clause="non-finite density or Hastings value is rejected", funcs=F, timeout=120))
    obs.append(Ob("C15.loop.protocol.variants", "U", ob_loop_protocol_variants, clause=P, funcs=F, timeout=300))
    # restore
    R = "a rejected move leaves every parameter bit-identical"
    obs.append(Ob("C15.restore.base", "U", ob_restore_base, clause=R, funcs=F, timeout=300))
    reps = 200 if thorough else 25
    for k in REAL_KINDS:
        obs.append(Ob("C15.restore.real[%s]" % k, "U", ob_restore_real(k, reps, seed), clause=R, funcs=F, timeout=600))
    for k in ("ScalerOperator@transformed", "SlidingWindowOperator@transformed", "ScalerOperator@transformed_anonymous", "SlidingWindowOperator@transformed_anonymous",
              "ScalerOperator@view", "SlidingWindowOperator@view"):
        obs.append(Ob("C15.restore.real[%s]" % k, "B", ob_restore_real(k, reps, seed), clause=R + " (operator acting on a derived parameter: the underlying values too)", funcs=F, timeout=600))
    obs.append(Ob("C15.restore.real[HMCOperator,all-trials-fail]", "U", hmc_failure_path, clause=R, funcs=F, timeout=120))
    for k in (1, 2):
        obs.append(Ob("C15.gmrf.inf_path[cholesky#%d]" % k, "U", (lambda k=k: gmrf_inf_path(k)), clause="failure sentinel +inf is rejected and restored", funcs=F, timeout=120))
    obs.append(Ob("C15.gmrf.view_field", "B", gmrf_view_field, clause="GMRF block update: Hastings value independent of how the field parameter is held (bounded)", funcs=F, timeout=120))
    obs.append(Ob("C15.gmrf.draw_consistent", "B", gmrf_draw_consistent, clause="GMRF block update: proposal drawn from the distribution its Hastings density describes (bounded)", funcs=F, timeout=120))
    # HMC: the Hastings value itself is C16's contract; the representation invariant it reads at step time is re-stated here because a
    # checkpoint restore or an adaptor is part of "any run" (same scenario as C16.hastings.mass_invariant, run under this property)
    from contracts import C16 as _c16
    for rank in ("diag", "dense"):
        for how in ("init", "assign", "inplace", "load_state"):
            obs.append(scenario_ob("C16", "C15.hastings.hmc.mass_invariant[d=2,%s,%s]" % (rank, how), "V", "scn_mass_invariant", (2, rank, how),
                                   clause="Hastings ratio of the HMC operator uses the inverse of the mass matrix its momentum is drawn with, after every way a run changes the mass matrix",
                                   funcs=F, seed=seed, fns=_c16._fns(2)))
    # the Hastings value itself (C16's scenarios, run under this property): plain trial, and a trial that fails inside the retry loop
    # followed by one that succeeds (the ratio must be that of the momentum actually used), and the real MCMC.run accept rule on them
    for rank in ("diag", "dense"):
        obs.append(scenario_ob("C16", "C15.hastings.hmc[d=2,steps=2,%s]" % rank, "V", "scn_hastings", (2, (1, 1), rank, 2, [None], "real", "inverse", False),
                               clause="Hastings ratio of the HMC operator = log ratio of reverse to forward proposal densities", funcs=F, seed=seed, fns=_c16._fns(2), timeout=240))
        for f in (["U", 1], ["G", 1]):
            obs.append(scenario_ob("C16", "C15.hastings.hmc.retry[%s%d-then-ok,%s]" % (f[0], f[1], rank), "V", "scn_hastings", (2, (1, 1), rank, 2, [f, None]),
                                   clause="Hastings ratio of the HMC operator after a failed trial is that of the momentum actually used", funcs=F, seed=seed, fns=_c16._fns(2), timeout=240))
        obs.append(scenario_ob("C16", "C15.hastings.hmc.mcmc[fail-then-ok,%s]" % rank, "V", "scn_mcmc", (2, (1, 1), rank, 2, [["G", 1], None]),
                               clause="accept rule on the full Hamiltonian difference (real MCMC.run) after a failed trial", funcs=F, seed=seed, fns=_c16._fns(2), timeout=240,
                               expect_paths_min=3))
    for rank in ("diag", "dense"):
        o_ = _c16.ob_mass_invariant_adaptor(rank)
        obs.append(Ob("C15.hastings.hmc.mass_invariant.adaptor[%s]" % rank, "B", o_.fn, clause=o_.clause, funcs=F, timeout=120))
        o_ = _c16.ob_momentum_draw(rank)
        obs.append(Ob("C15.hastings.hmc.momentum_draw[%s]" % rank, "B", o_.fn, clause="forward proposal density of the HMC operator: " + o_.clause, funcs=F, timeout=120))
    # logged rows / whole runs
    L = "every logged row is self-consistent"
    iters = 3000 if thorough else 300
    runs = [(REAL_KINDS, True, 0), (REAL_KINDS, False, 0), (["ScalerOperator", "SlidingWindowOperator"], True, 7),
            (["DirichletOperator"], True, 0), (["GMRFPiecewiseCoalescentBlockUpdatingOperator"], True, 0), (["HMCOperator"], True, 1),
            (["ScalerOperator@view", "SlidingWindowOperator@view", "DirichletOperator@view"], True, 0)]
    for kinds, adapt, ev in runs:
        label = "mixture" if len(kinds) == len(REAL_KINDS) else "+".join(k.replace("Operator", "").replace("PiecewiseCoalescentBlockUpdating", "") for k in kinds)
        obs.append(Ob("C15.log.whole_run[%s,adapt=%s]" % (label, "on" if adapt else "off"), "B", ob_whole_run(kinds, adapt, iters, seed + 1, ev),
                      clause=L, funcs=F, timeout=1200))
    # hastings
    H = "Hastings ratio = log q(x|x') - log q(x'|x)"
    npar = (1, 2, 3) if thorough else (1, 2)
    dims = (1, 2, 3, 4) if thorough else (1, 2, 3)
    for kind in ("scaler", "sliding"):
        for n_params in npar:
            for dim in dims:
                for index in range(n_params):
                    for index2 in range(dim):
                        if not thorough and n_params == 2 and dim == 3 and (index, index2) not in ((0, 0), (1, 2)):
                            continue
                        for sign in ((1, -1) if kind == "scaler" else (1,)):
                            name = "C15.hastings.%s[params=%d,dim=%d,pick=(%d,%d)%s]" % (kind, n_params, dim, index, index2, ",negative" if sign < 0 else "")
                            obs.append(scenario_ob("C15", name, "V", "scn_hastings_1d", (kind, n_params, dim, index, index2, sign), clause=H, funcs=F, seed=seed))
    for K in ((2, 3, 4, 5) if thorough else (2, 3, 4)):
        obs.append(scenario_ob("C15", "C15.hastings.dirichlet[K=%d]" % K, "V", "scn_hastings_dirichlet", (K,), clause=H, funcs=F, seed=seed, timeout=900))
        if K <= 3:
            obs.append(scenario_ob("C15", "C15.hastings.dirichlet[K=%d,view of a packed parameter]" % K, "V", "scn_hastings_dirichlet", (K, "dirichlet", "view"), clause=H, funcs=F, seed=seed, timeout=900))
    # tune
    T = "tuning moves the proposal scale toward the target acceptance"
    for name in GRID:
        counts = (0, 1, 8, 9, 10, 10 ** 6) if name == "AdaptiveStepSize" else (None,)
        for side in ("above", "below"):
            for cnt in counts:
                suffix = "" if cnt is None else ",count=%d" % cnt
                obs.append(Ob("C15.tune.direction[%s,%s%s].z3" % (name, side, suffix), "U", ob_tune_direction(name, side, cnt), clause=T, funcs=F, timeout=300))
            obs.append(Ob("C15.tune.direction[%s,%s].grid" % (name, side), "B", ob_tune_grid(name, side), clause=T, funcs=F, timeout=300))
        if name != "AdaptiveStepSize":
            obs.append(Ob("C15.tune.identity[%s]" % name, "U", (lambda name=name: prove_tune_identity(name)),
                          clause="set_adaptable_parameter(adaptable_parameter) is the identity", funcs=F, timeout=120))
    for side in ("above", "below"):
        if side == "above":
            obs.append(Ob("C15.tune.direction[AdaptiveStepSize,use_acceptance_rate=True]", "B", ob_tune_acceptance_rate_option(), clause=T, funcs=F, timeout=120))
            obs.append(Ob("C15.hastings.hmc.retry_conditioning[Exponential(1) raw scale,one step]", "B", ob_hmc_retry_conditioning(),
                          clause="Hastings ratio = true log ratio of reverse to forward proposal densities of the operator (HMC with its retry loop, target with bounded support)", funcs=F, timeout=120))
        obs.append(Ob("C15.tune.direction[DualAveragingStepSize,%s].z3" % side, "U", (lambda side=side: prove_dual_direction(side)), clause=T, funcs=F, timeout=300))
    obs.append(Ob("C15.tune.monotone_in_acceptance[DualAveragingStepSize]", "U", prove_dual_monotone, clause=T, funcs=F, timeout=300))
    obs.append(Ob("C15.tune.disabled", "U", ob_tune_disabled, clause="adaptation off: tune changes nothing", funcs=F, timeout=120))
    # vacuity
    for name in TWINS:
        obs.append(Ob("C15.vacuity.loop.%s" % name, "U", ob_vacuity_loop(name), clause="vacuity", funcs=F, timeout=300))
    obs.append(Ob("C15.vacuity.restore.reference_instead_of_clone", "U", ob_must_fail(lambda: restore_base("reference"), "an operator saving references instead of clones"),
                  clause="vacuity", funcs=F, timeout=120))
    obs.append(Ob("C15.vacuity.restore.no_setter", "U", ob_must_fail(lambda: restore_base("no_setter"), "a reject() that bypasses the setter (listeners not notified)"),
                  clause="vacuity", funcs=F, timeout=120))
    from vt.scenario import prove_scenario
    obs.append(Ob("C15.vacuity.hastings.sign", "V", ob_must_fail(lambda: prove_scenario(scn_hastings_1d("scaler~signflip", 1, 2, 0, 1, 1), seed=seed),
                                                                "a scaler returning +log s"), clause="vacuity", funcs=F, timeout=300))
    obs.append(Ob("C15.vacuity.hastings.dirichlet_sign", "V", ob_must_fail(lambda: prove_scenario(scn_hastings_dirichlet(3, "dirichlet~signflip"), seed=seed),
                                                                          "a Dirichlet operator returning forward - backward"), clause="vacuity", funcs=F, timeout=300))
    obs.append(Ob("C15.vacuity.tune.flipped_scaler", "U", ob_must_fail(lambda: prove_tune_direction("ScalerOperator", "above", twin=_flip_scaler),
                                                                     "a scaler whose re-parameterisation is reversed"), clause="vacuity", funcs=F, timeout=300))
    return obs
