"""C11 — cached values never go stale (DESIGN section 4, C11; paper argument in contracts/C11.md).

Global invariant  I:  for every caching object o:   not dirty(o)  =>  cache(o) = compute(o, current values of
everything compute reads),  and every parameter update returns normally.

I is established from four families of per-class obligations on the REAL classes (imported from the current
working tree on every run; real __init__, real Parametric.__setattr__, real MRO), tag U:

  (a) C11.a.notify[<Class>.<mutator>]   every public mutation path leaves every observer-protocol client of the
                                         mutated parameter(s) invalidated (ShadowCache clients on the derived AND
                                         on the base parameters) and does not raise
  (b) C11.b.handler[<mod>.<Class>.<h>]  the resolved handler (i) does not raise, and — when the class reads a
                                         dependency that notifies through this handler — (ii) sets every dirty flag
                                         consulted by a cached getter of the class and (iii) propagates
  (c) C11.c.readset[<Class>]            everything mutable the compute methods read (recorded dynamically with
                                         recording proxies  +  static over-approximation from the AST) notifies
                                         the object (fire on the dependency reaches a handler of the object)
  (d) C11.d.getter[<Class>.<getter>]    cached getters have the shape `if dirty: recompute from current deps;
                                         dirty := False; return cache`, and no notification is lost while computing

plus bounded cross-validation (tag B, never counted as proof):
      C11.dyn.history[<graph>]          seeded random histories on real model graphs vs freshly built copies
      C11.dyn.class[<scenario>]         same on every per-class scenario; fails only on staleness that no (a)-(d)
                                         obligation explains (completeness guard of the contract system)
and vacuity guards C11.vacuity.* (must-fail twins must be refuted) and C11.coverage.classes.
"""
from __future__ import annotations

import ast
import itertools
import inspect
import random
import textwrap
import traceback
from collections import OrderedDict

import torch

from vt import heap
from vt.cond import Undecided
from vt.runner import Ob, Refuted

ATOL = 1e-12

ANCHOR_FILES = (
    "torchtree/core/model.py", "torchtree/core/parametric.py", "torchtree/core/parameter.py",
    "torchtree/core/container.py", "torchtree/evolution/tree_model.py", "torchtree/evolution/site_model.py",
    "torchtree/distributions/tree_prior.py", "torchtree/evolution/substitution_model/codon.py",
    "torchtree/optim/optimizer.py",
)


# ================================================================================================
# scenarios: real objects with small real tensors.  A scenario is rebuilt from a dict of base-parameter
# values, which is how "a freshly built copy holding the same parameter values" is obtained.
# ================================================================================================
class Scn:
    def __init__(self, name, vals=None):
        self.name = name
        self.vals = vals or {}
        self.params = OrderedDict()    # name -> plain Parameter (the state of the graph)
        self.domains = {}              # name -> domain of admissible values (drives the random updates)
        self.derived = OrderedDict()   # name -> View/Cat/Transformed parameter (assignable if domain is not None)
        self.models = OrderedDict()    # name -> Model
        self.evals = OrderedDict()     # label -> zero-argument callable returning a tensor / tuple of tensors
        self.dists = OrderedDict()     # name -> object with rsample/sample
        self.out = None                # object under test of a per-class scenario
        self.out_name = None
        self.stochastic = False        # evaluation draws random numbers (variational objectives)
        self.notes = []

    def P(self, name, default, domain="real"):
        from torchtree.core.parameter import Parameter
        v = self.vals.get(name, default)
        t = v.detach().clone() if isinstance(v, torch.Tensor) else torch.tensor(v)
        p = Parameter(name, t)
        self.params[name] = p
        self.domains[name] = domain
        return p

    def adopt(self, name, param, domain="real"):
        """register a Parameter the code under test built itself (e.g. the anonymous parameters Distribution.from_json makes of numbers)"""
        self.params[name] = param
        self.domains[name] = domain
        return param

    def val(self, name, default):
        v = self.vals.get(name, default)
        return v.detach().tolist() if isinstance(v, torch.Tensor) else v

    def D(self, name, obj, domain=None):
        self.derived[name] = obj
        self.domains[name] = domain
        self.evals[name + ".tensor"] = (lambda o=obj: o.tensor)
        return obj

    def M(self, name, obj, out=False):
        self.models[name] = obj
        if out:
            self.out, self.out_name = obj, name
        return obj

    def E(self, label, fn):
        self.evals[label] = fn

    def target(self, name):
        return self.params[name] if name in self.params else self.derived[name]

    def state(self):
        return OrderedDict((n, p.tensor.detach().clone()) for n, p in self.params.items())

    def state_json(self):
        return {n: p.tensor.detach().tolist() for n, p in self.params.items()}

    def all_objects(self):
        d = OrderedDict()
        d.update(self.params)
        d.update(self.derived)
        d.update(self.models)
        return d


NEWICK = "((A:0.1,B:0.2):0.3,(C:0.15,D:0.1):0.2);"
NAMES = ["A", "B", "C", "D"]
SEQS = ["ACGTACGTAA", "ACGTACCTAA", "ACTTACGTCA", "GCGTACGTAC"]
CODON_SEQS = ["ATGAAACCC", "ATGAAGCCC", "ATGCAACCA", "CTGAAACCC"]


def _taxa(dates=(0.0, 0.0, 0.0, 0.0)):
    from torchtree.evolution.taxa import Taxa, Taxon
    return Taxa("taxa", [Taxon(n, {"date": d}) for n, d in zip(NAMES, dates)])


def _dendro(taxa):
    from torchtree.evolution.tree_model import initialize_dates_from_taxa, parse_tree
    tree = parse_tree(taxa, {"newick": NEWICK})
    initialize_dates_from_taxa(tree, taxa)
    return tree


def _time_tree(s, kind="ratios", prefix="tree", dates=(0.0, 0.0, 0.0, 0.0)):
    """a real time tree model on 4 taxa; kind: heights | ratios | shifts | flexible"""
    from torchtree.core.parameter import CatParameter
    from torchtree.evolution import tree_model as tmod
    taxa = _taxa(dates)
    tree = _dendro(taxa)
    if kind == "heights":
        h = s.P(prefix + ".heights", [0.5, 0.6, 1.0], "scale")
        tm = tmod.TimeTreeModel(prefix, tree, taxa, h)
    elif kind == "flexible":
        from torchtree.evolution.tree_model_flexible import FlexibleTimeTreeModel
        h = s.P(prefix + ".heights", [0.5, 0.6, 1.0], "scale")
        tm = FlexibleTimeTreeModel(prefix, tree, taxa, None)
        tm._internal_heights = h  # what FlexibleTimeTreeModel.from_json does
    elif kind == "ratios":
        r = s.P(prefix + ".ratios", [0.5, 0.6], "unit")
        rh = s.P(prefix + ".root_height", [1.0], "pos")
        cat = s.D(prefix + ".ratios_root", CatParameter(prefix + ".ratios_root", [r, rh], -1), None)
        tm = tmod.ReparameterizedTimeTreeModel(prefix, tree, taxa, cat)
    elif kind == "ratios_plain":
        # ratios and root height in ONE plain Parameter (direct construction; the JSON route builds a CatParameter): in-place updates
        # followed by a notification keep the same tensor object
        rr = s.P(prefix + ".ratios_root", [0.2, 0.3, 1.0], "pos")
        tm = tmod.ReparameterizedTimeTreeModel(prefix, tree, taxa, rr)
    elif kind == "shifts":
        sh = s.P(prefix + ".shifts", [0.5, 0.6, 0.4], "pos")
        tm = tmod.ReparameterizedTimeTreeModel(prefix, tree, taxa, shifts=sh)
    else:
        raise ValueError(kind)
    s.M(prefix, tm)
    s.E(prefix + ".branch_lengths", tm.branch_lengths)
    s.E(prefix + ".node_heights", lambda: tm.node_heights)
    if kind in ("ratios", "ratios_plain", "shifts"):
        s.E(prefix + ".__call__", lambda: tm())
    return tm


def _unrooted_tree(s, prefix="tree"):
    from torchtree.evolution.tree_model import UnRootedTreeModel
    taxa = _taxa()
    tree = _dendro(taxa)
    bl = s.P(prefix + ".blens", [0.1, 0.2, 0.15, 0.1, 0.5], "pos")
    tm = s.M(prefix, UnRootedTreeModel(prefix, tree, taxa, bl))
    s.E(prefix + ".branch_lengths", tm.branch_lengths)
    return tm


def _site_pattern(s, codon=False):
    from torchtree.evolution.alignment import Alignment, Sequence
    from torchtree.evolution.datatype import CodonDataType, NucleotideDataType
    from torchtree.evolution.site_pattern import SitePattern
    taxa = _taxa()
    if codon:
        dt = CodonDataType("codon", "Universal")
        seqs = [Sequence(n, q) for n, q in zip(NAMES, CODON_SEQS)]
    else:
        dt = NucleotideDataType("nuc")
        seqs = [Sequence(n, q) for n, q in zip(NAMES, SEQS)]
    return s.M("site_pattern", SitePattern("site_pattern", Alignment("aln", seqs, taxa, dt)))


_BL = torch.tensor([[0.1], [0.3]])


def _subst_evals(s, m, name):
    s.E(name + ".q", m.q)
    s.E(name + ".p_t", lambda: m.p_t(_BL))
    s.E(name + ".frequencies", lambda: m.frequencies)
    s.E(name + ".rates", lambda: m.rates)


def _hky(s, name="subst"):
    from torchtree.evolution.substitution_model.nucleotide import HKY
    m = s.M(name, HKY(name, s.P(name + ".kappa", [2.0], "pos"), s.P(name + ".freqs", [0.2, 0.3, 0.25, 0.25], "simplex")))
    _subst_evals(s, m, name)
    return m


def _mg94(s, name="subst"):
    from torchtree.evolution.datatype import CodonDataType
    from torchtree.evolution.substitution_model.codon import MG94
    dt = CodonDataType("codon", "Universal")
    n = dt.state_count
    m = s.M(name, MG94(name, dt, s.P(name + ".alpha", [1.2], "pos"), s.P(name + ".beta", [0.7], "pos"),
                       s.P(name + ".kappa", [2.0], "pos"),
                       s.P(name + ".freqs", [(1.0 + (i % 5) * 0.1) for i in range(n)], "simplex")))
    if "subst.freqs" not in s.vals:
        f = s.params[name + ".freqs"]
        f._tensor = f._tensor / f._tensor.sum()
    _subst_evals(s, m, name)
    return m


def _weibull(s, name="site"):
    from torchtree.evolution.site_model import WeibullSiteModel
    m = s.M(name, WeibullSiteModel(name, s.P(name + ".shape", [0.5], "pos"), 3,
                                   s.P(name + ".pinv", [0.2], "unit"), s.P(name + ".mu", [1.5], "pos")))
    s.E(name + ".rates", m.rates)
    s.E(name + ".probabilities", m.probabilities)
    return m


SCENARIOS = OrderedDict()
SCN_CLASS = {}   # scenario name -> "module.Class" of the object under test


def scenario(name, cls=None):
    def deco(fn):
        SCENARIOS[name] = fn
        if cls:
            SCN_CLASS[name] = cls
        return fn
    return deco


def build(name, vals=None):
    s = Scn(name, vals)
    SCENARIOS[name](s)
    return s


# ---- core parameters ---------------------------------------------------------------------------
@scenario("param.plain", "torchtree.core.parameter.Parameter")
def _s(s):
    p = s.P("p", [0.5, 1.5, 2.5], "real")
    s.out, s.out_name = p, "p"
    s.E("p.tensor", lambda: p.tensor)


@scenario("param.view", "torchtree.core.parameter.ViewParameter")
def _s(s):
    from torchtree.core.parameter import ViewParameter
    p = s.P("p", [0.5, 1.5, 2.5, 3.5], "real")
    v = s.D("v", ViewParameter("v", p, slice(1, 3)), "real")
    s.D("w", ViewParameter("w", p, torch.tensor([0, 2])), "real")
    s.out, s.out_name = v, "v"


@scenario("param.view.nested", "torchtree.core.parameter.ViewParameter")
def _s(s):
    """a view of a view (e.g. one entry of a block that is itself a slice of a packed vector), a density on the root parameter"""
    from torchtree.core.parameter import ViewParameter
    from torchtree.distributions.distributions import Distribution
    p = s.P("p", [0.5, 1.5, 2.5, 3.5], "real")
    v1 = s.D("v1", ViewParameter("v1", p, slice(0, 3)), "real")
    v2 = s.D("v2", ViewParameter("v2", v1, slice(1, 3)), "real")
    loc = s.P("loc", [0.0], "fixed")
    sc = s.P("sc", [1.5], "fixed")
    d = s.M("d", Distribution("d", torch.distributions.Normal, p, OrderedDict([("loc", loc), ("scale", sc)])))
    d2 = s.M("d2", Distribution("d2", torch.distributions.Normal, v1, OrderedDict([("loc", loc), ("scale", sc)])))
    s.E("d.__call__", lambda: d())
    s.E("d2.__call__", lambda: d2())
    s.out, s.out_name = v2, "v2"


@scenario("param.view.same_element", "torchtree.core.parameter.ViewParameter")
def _s(s):
    """two views that address the SAME element of one parameter with different spellings of the index (3 and -1, 0 and -4), each with a
    consumer of its own: an assignment through one of them is an update of the other"""
    from torchtree.core.parameter import ViewParameter
    from torchtree.distributions.distributions import Distribution
    p = s.P("p", [0.5, 1.5, 2.5, 3.5], "real")
    vp = s.D("vp", ViewParameter("vp", p, 3), "real")
    vn = s.D("vn", ViewParameter("vn", p, -1), "real")
    v0 = s.D("v0", ViewParameter("v0", p, 0), "real")
    vm = s.D("vm", ViewParameter("vm", p, -4), "real")
    loc = s.P("loc", [0.0], "fixed")
    sc = s.P("sc", [1.5], "fixed")
    dn = s.M("dn", Distribution("dn", torch.distributions.Normal, vn, OrderedDict([("loc", loc), ("scale", sc)])))
    dm = s.M("dm", Distribution("dm", torch.distributions.Normal, vm, OrderedDict([("loc", loc), ("scale", sc)])))
    s.E("dn.__call__", lambda: dn())
    s.E("dm.__call__", lambda: dm())
    s.out, s.out_name = vp, "vp"


@scenario("param.view.of_cat", "torchtree.core.parameter.ViewParameter")
def _s(s):
    """a view of a concatenation: the components are the state, the view is one more way of writing to them"""
    from torchtree.core.parameter import CatParameter, ViewParameter
    a = s.P("a", [0.5, 1.5], "real")
    b = s.P("b", [2.5, 3.5], "real")
    c = s.D("c", CatParameter("c", [a, b], -1), "real")
    v = s.D("v", ViewParameter("v", c, slice(1, 3)), "real")
    s.E("a.tensor", lambda: a.tensor)
    s.E("b.tensor", lambda: b.tensor)
    s.out, s.out_name = v, "v"


@scenario("param.cat", "torchtree.core.parameter.CatParameter")
def _s(s):
    from torchtree.core.parameter import CatParameter
    a = s.P("a", [0.5, 1.5], "real")
    b = s.P("b", [2.5], "real")
    c = s.D("c", CatParameter("c", [a, b], -1), "real")
    s.out, s.out_name = c, "c"


@scenario("param.cat.rows", "torchtree.core.parameter.CatParameter")
def _s(s):
    """concatenation along the FIRST axis (the constructor's default dim=0) of two-dimensional components"""
    from torchtree.core.parameter import CatParameter
    a = s.P("a", [[0.5, 1.5, 2.5]], "real")
    b = s.P("b", [[3.5, 4.5, 5.5], [6.5, 7.5, 8.5]], "real")
    c = s.D("c", CatParameter("c", [a, b], 0), "real")
    s.out, s.out_name = c, "c"


@scenario("param.cat.default_dim", "torchtree.core.parameter.CatParameter")
def _s(s):
    from torchtree.core.parameter import CatParameter
    a = s.P("a", [0.5, 1.5], "real")
    b = s.P("b", [2.5], "real")
    c = s.D("c", CatParameter("c", [a, b]), "real")
    s.out, s.out_name = c, "c"


@scenario("param.transformed.exp", "torchtree.core.parameter.TransformedParameter")
def _s(s):
    from torchtree.core.parameter import TransformedParameter
    x = s.P("x", [0.1, -0.3], "real")
    t = s.D("t", TransformedParameter("t", x, torch.distributions.ExpTransform()), "pos")
    s.E("t.__call__", lambda: t())
    s.out, s.out_name = t, "t"


@scenario("param.transformed.exp_cached", "torchtree.core.parameter.TransformedParameter")
def _s(s):
    """a torch transform built with cache_size=1 (reachable from a specification: "parameters": {"cache_size": 1})"""
    from torchtree.core.parameter import TransformedParameter
    x = s.P("x", [0.1, -0.3], "real")
    t = s.D("t", TransformedParameter("t", x, torch.distributions.ExpTransform(cache_size=1)), "pos")
    s.E("t.__call__", lambda: t())
    s.out, s.out_name = t, "t"


@scenario("param.transformed.list", "torchtree.core.parameter.TransformedParameter")
def _s(s):
    from torchtree.core.parameter import TransformedParameter
    x = s.P("x", [0.1, -0.3], "real")
    y = s.P("y", [0.4], "real")
    t = s.D("t", TransformedParameter("t", [x, y], torch.distributions.AffineTransform(1.0, 2.0)), "real")
    s.E("t.__call__", lambda: t())
    s.out, s.out_name = t, "t"


@scenario("param.transformed.convex", "torchtree.core.parameter.TransformedParameter")
def _s(s):
    from torchtree.core.parameter import TransformedParameter
    from torchtree.distributions.transforms import ConvexCombinationTransform
    x = s.P("x", [0.5, 1.5, 1.0], "pos")
    w = s.P("weights", [0.2, 0.3, 0.5], "simplex")
    t = s.D("t", TransformedParameter("t", x, ConvexCombinationTransform(w)), None)
    s.out, s.out_name = t, "t"


@scenario("param.transformed.linear", "torchtree.core.parameter.TransformedParameter")
def _s(s):
    from torchtree.core.parameter import TransformedParameter
    from torchtree.distributions.transforms import LinearTransform
    x = s.P("x", [0.5, 1.5], "real")
    w = s.P("weight", [[1.0, 2.0], [0.5, -1.0], [0.1, 0.2]], "real")
    b = s.P("bias", [0.1, 0.2, 0.3], "real")
    t = s.D("t", TransformedParameter("t", x, LinearTransform(w, b)), None)
    s.out, s.out_name = t, "t"


@scenario("param.transformed.rescaled_rate", "torchtree.core.parameter.TransformedParameter")
def _s(s):
    from torchtree.core.parameter import TransformedParameter
    from torchtree.evolution.rate_transform import RescaledRateTransform
    tm = _time_tree(s, "ratios")
    x = s.P("x", [0.5, 1.5, 1.0, 0.7, 1.2, 0.9], "pos")
    mu = s.P("mu", [0.01], "pos")
    t = s.D("t", TransformedParameter("t", x, RescaledRateTransform(mu, tm)), None)
    s.out, s.out_name = t, "t"


@scenario("param.transformed.log_difference_rate", "torchtree.core.parameter.TransformedParameter")
def _s(s):
    from torchtree.core.parameter import TransformedParameter
    from torchtree.evolution.rate_transform import LogDifferenceRateTransform
    tm = _time_tree(s, "ratios")
    x = s.P("x", [0.5, 1.5, 1.0, 0.7, 1.2, 0.9], "pos")
    t = s.D("t", TransformedParameter("t", x, LogDifferenceRateTransform(tm)), None)
    s.out, s.out_name = t, "t"


@scenario("param.module", "torchtree.core.parameter.ModuleParameter")
def _s(s):
    from torchtree.core.parameter import ModuleParameter
    from torchtree.distributions.distributions import Distribution
    x = s.P("x", [0.1, -0.3], "real")
    loc = s.P("loc", [0.0], "real")
    scale = s.P("scale", [1.0], "pos")
    d = s.M("module", Distribution("module", torch.distributions.Normal, x, OrderedDict(loc=loc, scale=scale)))
    mp = ModuleParameter("mp", d)
    s.D("mp", mp, None if _setter_is_deliberate_raise(ModuleParameter, "tensor") else "real")
    s.out, s.out_name = mp, "mp"


@scenario("container", "torchtree.core.container.Container")
def _s(s):
    from torchtree.core.container import Container
    a = s.P("a", [0.5], "real")
    hky = _hky(s)
    c = s.M("container", Container("container", [a, hky]), out=True)
    s.E("container.sample_shape", lambda: c.sample_shape)


# ---- site models -------------------------------------------------------------------------------
@scenario("site.constant", "torchtree.evolution.site_model.ConstantSiteModel")
def _s(s):
    from torchtree.evolution.site_model import ConstantSiteModel
    m = s.M("site", ConstantSiteModel("site", s.P("site.mu", [1.5], "pos")), out=True)
    s.E("site.rates", m.rates)
    s.E("site.probabilities", m.probabilities)


@scenario("site.invariant", "torchtree.evolution.site_model.InvariantSiteModel")
def _s(s):
    from torchtree.evolution.site_model import InvariantSiteModel
    m = s.M("site", InvariantSiteModel("site", s.P("site.pinv", [0.2], "unit"), s.P("site.mu", [1.5], "pos")), out=True)
    s.E("site.rates", m.rates)
    s.E("site.probabilities", m.probabilities)


@scenario("site.weibull", "torchtree.evolution.site_model.WeibullSiteModel")
def _s(s):
    m = _weibull(s)
    s.out, s.out_name = m, "site"


@scenario("site.weibull.no_invariant", "torchtree.evolution.site_model.WeibullSiteModel")
def _s(s):
    # the branch of update_rates / probabilities without an invariant class (constant weights 1/K), with the optional relative rate
    from torchtree.evolution.site_model import WeibullSiteModel
    m = s.M("site", WeibullSiteModel("site", s.P("site.shape", [0.5], "pos"), 3, None, s.P("site.mu", [1.5], "pos")), out=True)
    s.E("site.rates", m.rates)
    s.E("site.probabilities", m.probabilities)


@scenario("site.weibull.shape_only", "torchtree.evolution.site_model.WeibullSiteModel")
def _s(s):
    from torchtree.evolution.site_model import WeibullSiteModel
    m = s.M("site", WeibullSiteModel("site", s.P("site.shape", [0.5], "pos"), 4), out=True)
    s.E("site.rates", m.rates)
    s.E("site.probabilities", m.probabilities)


# ---- substitution models -----------------------------------------------------------------------
@scenario("subst.jc69", "torchtree.evolution.substitution_model.nucleotide.JC69")
def _s(s):
    from torchtree.evolution.substitution_model.nucleotide import JC69
    m = s.M("subst", JC69("subst"), out=True)
    _subst_evals(s, m, "subst")


@scenario("subst.hky", "torchtree.evolution.substitution_model.nucleotide.HKY")
def _s(s):
    s.out, s.out_name = _hky(s), "subst"


@scenario("subst.gtr", "torchtree.evolution.substitution_model.nucleotide.GTR")
def _s(s):
    from torchtree.evolution.substitution_model.nucleotide import GTR
    m = s.M("subst", GTR("subst", s.P("subst.rates", [1.0, 2.0, 0.5, 0.7, 3.0, 1.0], "pos"),
                         s.P("subst.freqs", [0.2, 0.3, 0.25, 0.25], "simplex")), out=True)
    _subst_evals(s, m, "subst")


@scenario("subst.general_jc69", "torchtree.evolution.substitution_model.general.GeneralJC69")
def _s(s):
    from torchtree.evolution.substitution_model.general import GeneralJC69
    m = s.M("subst", GeneralJC69("subst", 3), out=True)
    _subst_evals(s, m, "subst")


@scenario("subst.general_symmetric", "torchtree.evolution.substitution_model.general.GeneralSymmetricSubstitutionModel")
def _s(s):
    from torchtree.evolution.datatype import GeneralDataType
    from torchtree.evolution.substitution_model.general import GeneralSymmetricSubstitutionModel
    dt = GeneralDataType("dt", ("A", "B", "C"))
    m = s.M("subst", GeneralSymmetricSubstitutionModel(
        "subst", dt, s.P("subst.mapping", [0, 1, 0], "fixed"), s.P("subst.rates", [1.0, 2.0], "pos"),
        s.P("subst.freqs", [0.2, 0.5, 0.3], "simplex")), out=True)
    _subst_evals(s, m, "subst")


@scenario("subst.general_nonsymmetric", "torchtree.evolution.substitution_model.general.GeneralNonSymmetricSubstitutionModel")
def _s(s):
    from torchtree.evolution.datatype import GeneralDataType
    from torchtree.evolution.substitution_model.general import GeneralNonSymmetricSubstitutionModel
    dt = GeneralDataType("dt", ("A", "B", "C"))
    m = s.M("subst", GeneralNonSymmetricSubstitutionModel(
        "subst", dt, s.P("subst.mapping", [0, 1, 2, 3, 4, 5], "fixed"),
        s.P("subst.rates", [1.0, 2.0, 0.5, 0.7, 3.0, 1.0], "pos"),
        s.P("subst.freqs", [0.2, 0.5, 0.3], "simplex"), True), out=True)
    _subst_evals(s, m, "subst")


@scenario("subst.lg", "torchtree.evolution.substitution_model.amino_acid.LG")
def _s(s):
    from torchtree.evolution.substitution_model.amino_acid import LG
    m = s.M("subst", LG("subst"), out=True)
    _subst_evals(s, m, "subst")


@scenario("subst.wag", "torchtree.evolution.substitution_model.amino_acid.WAG")
def _s(s):
    from torchtree.evolution.substitution_model.amino_acid import WAG
    m = s.M("subst", WAG("subst"), out=True)
    _subst_evals(s, m, "subst")


@scenario("subst.mg94", "torchtree.evolution.substitution_model.codon.MG94")
def _s(s):
    s.out, s.out_name = _mg94(s), "subst"


# ---- clock / tree models -----------------------------------------------------------------------
@scenario("clock.strict", "torchtree.evolution.branch_model.StrictClockModel")
def _s(s):
    from torchtree.evolution.branch_model import StrictClockModel
    tm = _time_tree(s, "ratios")
    m = s.M("clock", StrictClockModel("clock", s.P("clock.rate", [0.01], "pos"), tm), out=True)
    s.E("clock.rates", lambda: m.rates)


@scenario("clock.simple", "torchtree.evolution.branch_model.SimpleClockModel")
def _s(s):
    from torchtree.evolution.branch_model import SimpleClockModel
    tm = _time_tree(s, "ratios")
    m = s.M("clock", SimpleClockModel("clock", s.P("clock.rates", [0.01, 0.02, 0.03, 0.01, 0.02, 0.03], "pos"), tm), out=True)
    s.E("clock.rates", lambda: m.rates)


@scenario("tree.unrooted", "torchtree.evolution.tree_model.UnRootedTreeModel")
def _s(s):
    s.out, s.out_name = _unrooted_tree(s), "tree"


@scenario("tree.time", "torchtree.evolution.tree_model.TimeTreeModel")
def _s(s):
    s.out, s.out_name = _time_tree(s, "heights"), "tree"


@scenario("tree.flexible", "torchtree.evolution.tree_model_flexible.FlexibleTimeTreeModel")
def _s(s):
    s.out, s.out_name = _time_tree(s, "flexible"), "tree"


@scenario("tree.reparameterized.ratios", "torchtree.evolution.tree_model.ReparameterizedTimeTreeModel")
def _s(s):
    s.out, s.out_name = _time_tree(s, "ratios"), "tree"


@scenario("tree.reparameterized.ratios_plain", "torchtree.evolution.tree_model.ReparameterizedTimeTreeModel")
def _s(s):
    s.out, s.out_name = _time_tree(s, "ratios_plain"), "tree"


@scenario("tree.reparameterized.shifts", "torchtree.evolution.tree_model.ReparameterizedTimeTreeModel")
def _s(s):
    s.out, s.out_name = _time_tree(s, "shifts"), "tree"


# ---- patterns ----------------------------------------------------------------------------------
@scenario("site_pattern", "torchtree.evolution.site_pattern.SitePattern")
def _s(s):
    m = _site_pattern(s)
    s.out, s.out_name = m, "site_pattern"
    s.E("site_pattern.partials", lambda: tuple(m.compute_tips_partials()[0]))


@scenario("attribute_pattern", "torchtree.evolution.attribute_pattern.AttributePattern")
def _s(s):
    from torchtree.evolution.attribute_pattern import AttributePattern
    from torchtree.evolution.datatype import GeneralDataType
    from torchtree.evolution.taxa import Taxa, Taxon
    taxa = Taxa("taxa", [Taxon(n, {"loc": c}) for n, c in zip(NAMES, "XYXY")])
    m = s.M("attribute_pattern", AttributePattern("attribute_pattern", taxa, GeneralDataType("dt", ("X", "Y")), "loc"), out=True)
    s.E("attribute_pattern.partials", lambda: tuple(m.compute_tips_partials()[0]))


# ---- likelihoods -------------------------------------------------------------------------------
def _tree_likelihood(s):
    from torchtree.evolution.branch_model import StrictClockModel
    from torchtree.evolution.tree_likelihood import TreeLikelihoodModel
    sp = _site_pattern(s)
    tm = _time_tree(s, "ratios")
    hky = _hky(s)
    sm = _weibull(s)
    clock = s.M("clock", StrictClockModel("clock", s.P("clock.rate", [0.05], "pos"), tm))
    s.E("clock.rates", lambda: clock.rates)
    tl = s.M("like", TreeLikelihoodModel("like", sp, tm, hky, sm, clock))
    s.E("like.__call__", lambda: tl())
    return tl


@scenario("tree_likelihood", "torchtree.evolution.tree_likelihood.TreeLikelihoodModel")
def _s(s):
    s.out, s.out_name = _tree_likelihood(s), "like"


@scenario("poisson_tree_likelihood", "torchtree.evolution.poisson_tree_likelihood.PoissonTreeLikelihood")
def _s(s):
    from torchtree.evolution.branch_model import StrictClockModel
    from torchtree.evolution.poisson_tree_likelihood import PoissonTreeLikelihood
    tm = _time_tree(s, "ratios")
    clock = s.M("clock", StrictClockModel("clock", s.P("clock.rate", [5.0], "pos"), tm))
    el = s.P("edge_lengths", [1.0, 2.0, 3.0, 1.0, 2.0, 1.0], "pos")
    m = s.M("like", PoissonTreeLikelihood("like", tm, clock, el), out=True)
    s.E("like.__call__", lambda: m())


# ---- coalescent --------------------------------------------------------------------------------
def _coal(s, mk):
    tm = _time_tree(s, "heights")
    m = s.M("coalescent", mk(tm), out=True)
    s.E("coalescent.__call__", lambda: m())
    return m


@scenario("coalescent.constant", "torchtree.evolution.coalescent.ConstantCoalescentModel")
def _s(s):
    from torchtree.evolution.coalescent import ConstantCoalescentModel
    _coal(s, lambda tm: ConstantCoalescentModel("coalescent", s.P("theta", [3.0], "pos"), tm))


@scenario("coalescent.constant_integrated", "torchtree.evolution.coalescent.ConstantCoalescentIntegratedModel")
def _s(s):
    from torchtree.evolution.coalescent import ConstantCoalescentIntegratedModel
    _coal(s, lambda tm: ConstantCoalescentIntegratedModel("coalescent", tm, 2.0, 3.0))


@scenario("coalescent.exponential", "torchtree.evolution.coalescent.ExponentialCoalescentModel")
def _s(s):
    from torchtree.evolution.coalescent import ExponentialCoalescentModel
    _coal(s, lambda tm: ExponentialCoalescentModel("coalescent", s.P("theta", [3.0], "pos"), s.P("growth", [0.3], "real"), tm))


@scenario("coalescent.skyride", "torchtree.evolution.coalescent.PiecewiseConstantCoalescentModel")
def _s(s):
    from torchtree.evolution.coalescent import PiecewiseConstantCoalescentModel
    _coal(s, lambda tm: PiecewiseConstantCoalescentModel("coalescent", s.P("theta", [3.0, 2.0, 4.0], "pos"), tm))


@scenario("coalescent.skygrid", "torchtree.evolution.coalescent.PiecewiseConstantCoalescentGridModel")
def _s(s):
    from torchtree.evolution.coalescent import PiecewiseConstantCoalescentGridModel
    _coal(s, lambda tm: PiecewiseConstantCoalescentGridModel("coalescent", s.P("theta", [3.0, 2.0, 4.0], "pos"),
                                                             s.P("grid", [0.55, 0.8], "scale"), tm))


@scenario("coalescent.piecewise_exponential_grid", "torchtree.evolution.coalescent.PiecewiseExponentialCoalescentGridModel")
def _s(s):
    from torchtree.evolution.coalescent import PiecewiseExponentialCoalescentGridModel
    _coal(s, lambda tm: PiecewiseExponentialCoalescentGridModel(
        "coalescent", s.P("theta", [3.0], "pos"), s.P("growth", [0.3, 0.1, 0.2], "real"), s.P("grid", [0.55, 0.8], "scale"), tm))


@scenario("coalescent.piecewise_linear_grid", "torchtree.evolution.coalescent.PiecewiseLinearCoalescentGridModel")
def _s(s):
    from torchtree.evolution.coalescent import PiecewiseLinearCoalescentGridModel
    _coal(s, lambda tm: PiecewiseLinearCoalescentGridModel("coalescent", s.P("theta", [3.0, 2.0, 4.0], "pos"),
                                                           s.P("grid", [0.55, 0.8], "scale"), tm))


# ---- birth death -------------------------------------------------------------------------------
@scenario("birth_death", "torchtree.evolution.birth_death.BirthDeathModel")
def _s(s):
    from torchtree.evolution.birth_death import BirthDeathModel
    tm = _time_tree(s, "heights")
    m = s.M("bd", BirthDeathModel("bd", tm, s.P("lambda", [2.0], "pos"), s.P("mu", [1.0], "pos"), s.P("psi", [0.5], "pos"),
                                  s.P("rho", [0.5], "unit"), s.P("origin", [3.0], "fixed"), True), out=True)
    s.E("bd.__call__", lambda: m())


@scenario("bdsk", "torchtree.evolution.bdsk.BDSKModel")
def _s(s):
    from torchtree.evolution.bdsk import BDSKModel
    tm = _time_tree(s, "heights")
    m = s.M("bdsk", BDSKModel("bdsk", tm, s.P("R", [1.5], "pos"), s.P("delta", [1.5], "pos"), s.P("s", [0.3], "unit"),
                              rho=s.P("rho", [0.01], "unit"), origin=s.P("origin", [10.0], "fixed"), survival=False), out=True)
    s.E("bdsk.__call__", lambda: m())


# ---- distributions -----------------------------------------------------------------------------
@scenario("distribution.normal", "torchtree.distributions.distributions.Distribution")
def _s(s):
    from torchtree.distributions.distributions import Distribution
    x = s.P("x", [0.1, -0.3], "real")
    d = s.M("dist", Distribution("dist", torch.distributions.Normal, x,
                                 OrderedDict(loc=s.P("loc", [0.0], "real"), scale=s.P("scale", [1.0], "pos"))), out=True)
    s.dists["dist"] = d
    s.E("dist.__call__", lambda: d())
    s.E("dist.entropy", d.entropy)


@scenario("distribution.list_x", "torchtree.distributions.distributions.Distribution")
def _s(s):
    from torchtree.distributions.distributions import Distribution
    x = s.P("x", [0.1, -0.3], "real")
    y = s.P("y", [0.7], "real")
    d = s.M("dist", Distribution("dist", torch.distributions.Normal, [x, y],
                                 OrderedDict(loc=s.P("loc", [0.0, 0.1, 0.2], "real"), scale=s.P("scale", [1.0, 2.0, 3.0], "pos"))), out=True)
    s.dists["dist"] = d
    s.E("dist.__call__", lambda: d())


@scenario("deterministic_normal", "torchtree.distributions.deterministic_normal.DeterministicNormal")
def _s(s):
    from torchtree.distributions.deterministic_normal import DeterministicNormal
    x = s.P("x", [0.1, -0.3], "real")
    st = torch.random.get_rng_state()
    torch.manual_seed(7)
    d = s.M("dist", DeterministicNormal("dist", s.P("loc", [0.0, 0.5], "real"), s.P("scale", [1.0, 2.0], "pos"), x, torch.Size([])), out=True)
    torch.random.set_rng_state(st)
    s.dists["dist"] = d
    s.E("dist.__call__", lambda: d())


@scenario("multivariate_normal", "torchtree.distributions.multivariate_normal.MultivariateNormal")
def _s(s):
    from torchtree.distributions.multivariate_normal import MultivariateNormal
    x = s.P("x", [0.1, -0.3], "real")
    d = s.M("dist", MultivariateNormal("dist", x, s.P("loc", [0.0, 0.5], "real"),
                                       scale_tril=s.P("scale_tril", [[1.0, 0.0], [0.3, 2.0]], "fixed")), out=True)
    s.dists["dist"] = d
    s.E("dist.__call__", lambda: d())


@scenario("joint", "torchtree.distributions.joint_distribution.JointDistributionModel")
def _s(s):
    _joint(s)
    s.out, s.out_name = s.models["joint"], "joint"


def _joint(s):
    """JointDistributionModel with priors on plain / view / cat / transformed parameters and a Jacobian term"""
    from torchtree.core.parameter import CatParameter, TransformedParameter, ViewParameter
    from torchtree.distributions.distributions import Distribution
    from torchtree.distributions.joint_distribution import JointDistributionModel
    N, LN, G = torch.distributions.Normal, torch.distributions.LogNormal, torch.distributions.Gamma
    a = s.P("a", [0.5, 1.5, 2.5, 0.7], "pos")
    b = s.P("b", [0.3], "pos")
    z = s.P("z", [0.1, -0.2], "real")
    v = s.D("a.view", ViewParameter("a.view", a, slice(1, 3)), "pos")
    vi = s.D("a.view_idx", ViewParameter("a.view_idx", a, torch.tensor([0, 3])), "pos")
    c = s.D("ab.cat", CatParameter("ab.cat", [a, b], -1), "pos")
    t = s.D("z.exp", TransformedParameter("z.exp", z, torch.distributions.ExpTransform()), "pos")
    tl = s.D("zb.affine", TransformedParameter("zb.affine", [z, b], torch.distributions.AffineTransform(0.5, 2.0)), "real")
    hyper = s.P("hyper.scale", [1.0], "pos")
    d1 = s.M("prior.a", Distribution("prior.a", LN, a, OrderedDict(loc=s.P("prior.a.loc", [0.0, 0.1, 0.2, 0.3], "real"), scale=hyper)))
    d2 = s.M("prior.view", Distribution("prior.view", G, v, OrderedDict(concentration=s.P("prior.view.shape", [2.0], "pos"), rate=s.P("prior.view.rate", [1.0], "pos"))))
    d3 = s.M("prior.view_idx", Distribution("prior.view_idx", LN, vi, OrderedDict(loc=s.P("prior.vi.loc", [0.1], "real"), scale=hyper)))
    d4 = s.M("prior.cat", Distribution("prior.cat", G, c, OrderedDict(concentration=s.P("prior.cat.shape", [1.5], "pos"), rate=s.P("prior.cat.rate", [0.5], "pos"))))
    d5 = s.M("prior.exp", Distribution("prior.exp", G, t, OrderedDict(concentration=s.P("prior.exp.shape", [2.5], "pos"), rate=s.P("prior.exp.rate", [2.0], "pos"))))
    d6 = s.M("prior.affine", Distribution("prior.affine", N, tl, OrderedDict(loc=s.P("prior.affine.loc", [0.0], "real"), scale=s.P("prior.affine.scale", [3.0], "pos"))))
    d7 = s.M("prior.z", Distribution("prior.z", N, z, OrderedDict(loc=s.P("prior.z.loc", [0.0, 0.1], "real"), scale=hyper)))
    inner = s.M("joint.inner", JointDistributionModel("joint.inner", [d5, d6, t]))
    j = s.M("joint", JointDistributionModel("joint", [d1, d2, d3, d4, d7, inner]))
    for n in ("prior.a", "prior.view", "prior.view_idx", "prior.cat", "prior.exp", "prior.affine", "prior.z", "joint.inner", "joint"):
        s.E(n + ".__call__", (lambda m=s.models[n]: m()))
    s.E("z.exp.__call__", lambda: t())
    s.dists["prior.z"] = d7
    s.dists["prior.a"] = d1
    return j


@scenario("dist.from_json.numbers", "torchtree.distributions.distributions.Distribution")
def _s(s):
    """a Distribution whose parameters are written as plain numbers / lists in the model file: from_json turns them into ANONYMOUS
    parameters (id None); each one can still be updated (e.g. through a hyper-prior sampler holding the object) and must be listened to"""
    from torchtree.distributions.distributions import Distribution
    from torchtree.distributions.joint_distribution import JointDistributionModel
    x = s.P("x", [0.5, 1.5], "pos")
    data = {"id": "d", "type": "Distribution", "distribution": "torch.distributions.Gamma", "x": "x",
            "parameters": {"concentration": s.val("d.concentration", 2.0), "rate": s.val("d.rate", [3.0])}}
    d = s.M("d", Distribution.from_json(data, {"x": x}), out=True)
    s.adopt("d.concentration", d.dict_parameters["concentration"], "pos")
    s.adopt("d.rate", d.dict_parameters["rate"], "pos")
    data2 = {"id": "n", "type": "Distribution", "distribution": "torch.distributions.Normal", "x": "x",
             "parameters": {"loc": s.val("n.loc", [0.1, 0.2]), "scale": s.val("n.scale", 1.5)}}
    n = s.M("n", Distribution.from_json(data2, {"x": x}))
    s.adopt("n.loc", n.dict_parameters["loc"], "real")
    s.adopt("n.scale", n.dict_parameters["scale"], "pos")
    j = s.M("joint", JointDistributionModel("joint", [d, n]))
    s.E("d.__call__", lambda: d())
    s.E("n.__call__", lambda: n())
    s.E("joint.__call__", lambda: j())
    s.dists["d"] = d


@scenario("ctmc_scale", "torchtree.distributions.ctmc_scale.CTMCScale")
def _s(s):
    from torchtree.distributions.ctmc_scale import CTMCScale
    tm = _time_tree(s, "ratios")
    m = s.M("ctmc", CTMCScale("ctmc", s.P("x", [0.01], "pos"), tm), out=True)
    s.E("ctmc.__call__", lambda: m())


def _cgd(s):
    from torchtree.distributions.tree_prior import CompoundGammaDirichletPrior
    tm = _unrooted_tree(s)
    m = s.M("prior", CompoundGammaDirichletPrior("prior", tm, s.P("alpha", [1.0], "pos"), s.P("c", [0.1], "pos"),
                                                  s.P("shape", [1.0], "pos"), s.P("rate", [1.0], "pos")))
    s.E("prior.__call__", lambda: m())
    return m


@scenario("compound_gamma_dirichlet", "torchtree.distributions.tree_prior.CompoundGammaDirichletPrior")
def _s(s):
    s.out, s.out_name = _cgd(s), "prior"


@scenario("gmrf", "torchtree.distributions.gmrf.GMRF")
def _s(s):
    from torchtree.distributions.gmrf import GMRF
    m = s.M("gmrf", GMRF("gmrf", s.P("field", [1.0, 2.0, 1.5], "real"), s.P("precision", [2.0], "pos"),
                         weights=s.P("weights", [1.0, 2.0], "pos")), out=True)
    s.E("gmrf.__call__", lambda: m())
    s.E("gmrf.precision_matrix", m.precision_matrix)


@scenario("gmrf.time_aware", "torchtree.distributions.gmrf.GMRF")
def _s(s):
    from torchtree.distributions.gmrf import GMRF
    tm = _time_tree(s, "heights")
    m = s.M("gmrf", GMRF("gmrf", s.P("field", [1.0, 2.0, 1.5], "real"), s.P("precision", [2.0], "pos"), tree_model=tm), out=True)
    s.E("gmrf.__call__", lambda: m())


@scenario("gmrf.covariate", "torchtree.distributions.gmrf.GMRFCovariate")
def _s(s):
    from torchtree.distributions.gmrf import GMRFCovariate
    m = s.M("gmrf", GMRFCovariate("gmrf", s.P("field", [1.0, 2.0, 1.5], "real"), s.P("precision", [2.0], "pos"),
                                  s.P("covariates", [[1.0, 0.5], [0.3, 0.2], [0.1, 0.9]], "real"), s.P("beta", [0.5, -0.5], "real")), out=True)
    s.E("gmrf.__call__", lambda: m())


@scenario("gmrf.gamma_integrated", "torchtree.distributions.gmrf_integrated.GMRFGammaIntegrated")
def _s(s):
    from torchtree.distributions.gmrf_integrated import GMRFGammaIntegrated
    tm = _time_tree(s, "heights")
    m = s.M("gmrf", GMRFGammaIntegrated("gmrf", s.P("field", [1.0, 2.0, 1.5], "real"), 1.0, 2.0, tree_model=tm), out=True)
    s.E("gmrf.__call__", lambda: m())


@scenario("bayesian_bridge", "torchtree.distributions.bayesian_bridge.BayesianBridge")
def _s(s):
    from torchtree.distributions.bayesian_bridge import BayesianBridge
    m = s.M("bb", BayesianBridge("bb", s.P("x", [0.1, -0.3], "real"), s.P("scale", [1.0], "pos"), s.P("alpha", [0.5], "pos")), out=True)
    s.E("bb.__call__", lambda: m())


@scenario("bayesian_bridge.shrunken", "torchtree.distributions.bayesian_bridge.BayesianBridge")
def _s(s):
    from torchtree.distributions.bayesian_bridge import BayesianBridge
    m = s.M("bb", BayesianBridge("bb", s.P("x", [0.1, -0.3], "real"), s.P("scale", [1.0], "pos"), None,
                                 s.P("local_scale", [0.5, 2.0], "pos"), s.P("slab", [2.0], "pos")), out=True)
    s.E("bb.__call__", lambda: m())


@scenario("scale_mixture_normal", "torchtree.distributions.scale_mixture.ScaleMixtureNormal")
def _s(s):
    from torchtree.distributions.scale_mixture import ScaleMixtureNormal
    m = s.M("smn", ScaleMixtureNormal("smn", s.P("x", [0.1, -0.3], "real"), 0.0, s.P("scale", [1.0], "pos"),
                                      s.P("gamma", [0.5, 2.0], "pos"), s.P("slab", [2.0], "pos")), out=True)
    s.E("smn.__call__", lambda: m())


# ---- hmc / nf / nn -----------------------------------------------------------------------------
@scenario("hamiltonian", "torchtree.inference.hmc.hamiltonian.Hamiltonian")
def _s(s):
    from torchtree.distributions.distributions import Distribution
    from torchtree.inference.hmc.hamiltonian import Hamiltonian
    x = s.P("x", [0.1, -0.3], "real")
    from torchtree.distributions.joint_distribution import JointDistributionModel
    d = s.M("dist", Distribution("dist", torch.distributions.Normal, x, OrderedDict(loc=s.P("loc", [0.0], "real"), scale=s.P("scale", [1.0], "pos"))))
    j = s.M("joint", JointDistributionModel("joint", [d]))
    h = s.M("hamiltonian", Hamiltonian("hamiltonian", j), out=True)
    mom, mass = torch.tensor([0.3, 0.4]), torch.tensor([1.0, 2.0])
    s.E("hamiltonian.__call__", lambda: h(momentum=mom, mass_matrix=mass))


@scenario("energy_function", "torchtree.nf.energy_functions.EnergyFunctionModel")
def _s(s):
    from torchtree.nf.energy_functions import EnergyFunctionModel
    m = s.M("energy", EnergyFunctionModel("energy", s.P("x", [0.1, -0.3], "real"), "u_z1"), out=True)
    s.E("energy.__call__", lambda: m())


@scenario("nn.module", "torchtree.nn.module.Module")
def _s(s):
    from torchtree.nf.planar import PlanarTransform
    from torchtree.nn.module import Module
    u, w, b = s.P("u", [[0.1, 0.2]], "real"), s.P("w", [[0.3, -0.1]], "real"), s.P("b", [0.05], "real")
    m = s.M("module", Module("module", PlanarTransform(u.tensor, w.tensor, b.tensor), OrderedDict(u=u, w=w, b=b)), out=True)
    s.E("module.u_hat", lambda: m.module.u_hat())


def _base_dist(s):
    from torchtree.distributions.distributions import Distribution
    z = s.P("z", [0.1, -0.3], "real")
    base = s.M("base", Distribution("base", torch.distributions.Normal, z,
                                    OrderedDict(loc=s.P("base.loc", [0.0, 0.0], "real"), scale=s.P("base.scale", [1.0, 1.0], "pos"))))
    s.E("base.__call__", lambda: base())
    return base


@scenario("nf.normalizing_flow", "torchtree.nf.flow.NormalizingFlow")
def _s(s):
    from torchtree.nf.flow import NormalizingFlow
    from torchtree.nf.planar import PlanarTransform
    from torchtree.nn.module import Module
    base = _base_dist(s)
    u, w, b = s.P("u", [[0.1, 0.2]], "real"), s.P("w", [[0.3, -0.1]], "real"), s.P("b", [0.05], "real")
    mod = s.M("planar", Module("planar", PlanarTransform(u.tensor, w.tensor, b.tensor), OrderedDict(u=u, w=w, b=b)))
    x = s.P("x", [0.0, 0.0], "real")
    st = torch.random.get_rng_state()
    torch.manual_seed(11)
    f = s.M("flow", NormalizingFlow("flow", x, base, [mod]), out=True)
    f.apply_flow(torch.Size([]))  # sum_log_abs_det_jacobians is only defined after a draw
    torch.random.set_rng_state(st)
    s.dists["flow"] = f
    s.E("flow.__call__", lambda: f())


@scenario("nf.realnvp", "torchtree.nf.realnvp.RealNVP")
def _s(s):
    from torchtree.nf.realnvp import RealNVP
    base = _base_dist(s)
    x = s.P("x", [0.0, 0.0], "real")
    st = torch.random.get_rng_state()
    torch.manual_seed(11)
    f = s.M("flow", RealNVP("flow", x, base, 1, 3, 1), out=True)
    f.net.eval()
    f.apply_flow(torch.Size([]))
    torch.random.set_rng_state(st)
    s.dists["flow"] = f
    s.E("flow.__call__", lambda: f())


# ---- variational objectives (stochastic: evaluation draws) ---------------------------------------
def _vi(s, mk, two=False):
    from torchtree.distributions.distributions import Distribution
    x = s.P("x", [[0.1], [0.2], [-0.3]], "real")
    q = s.M("q", Distribution("q", torch.distributions.Normal, x, OrderedDict(loc=s.P("q.loc", [0.3], "real"), scale=s.P("q.scale", [0.8], "pos"))))
    p = s.M("p", Distribution("p", torch.distributions.Normal, x, OrderedDict(loc=s.P("p.loc", [0.0], "real"), scale=s.P("p.scale", [1.0], "pos"))))
    s.stochastic = True
    m = s.M("objective", mk(q, p), out=True)
    s.E("objective.__call__", lambda: m())
    return m


@scenario("vi.elbo", "torchtree.variational.kl.ELBO")
def _s(s):
    from torchtree.variational.kl import ELBO
    _vi(s, lambda q, p: ELBO("objective", q, p, torch.Size([3])))


@scenario("vi.klpq", "torchtree.variational.kl.KLpq")
def _s(s):
    from torchtree.variational.kl import KLpq
    _vi(s, lambda q, p: KLpq("objective", q, p, torch.Size([3])))


@scenario("vi.klpq_importance", "torchtree.variational.kl.KLpqImportance")
def _s(s):
    from torchtree.variational.kl import KLpqImportance
    _vi(s, lambda q, p: KLpqImportance("objective", q, p, torch.Size([3])))


@scenario("vi.selbo", "torchtree.variational.kl.SELBO")
def _s(s):
    from torchtree.distributions.distributions import Distribution
    from torchtree.variational.kl import SELBO

    def mk(q, p):
        q2 = s.M("q2", Distribution("q2", torch.distributions.Normal, s.params["x"],
                                    OrderedDict(loc=s.P("q2.loc", [-0.3], "real"), scale=s.P("q2.scale", [1.2], "pos"))))
        return SELBO("objective", [q, q2], s.P("weights", [0.4, 0.6], "simplex"), p, torch.Size([3]))
    _vi(s, mk)


@scenario("vi.vr", "torchtree.variational.renyi.VR")
def _s(s):
    from torchtree.variational.renyi import VR
    _vi(s, lambda q, p: VR("objective", q, p, torch.Size([3]), 0.5))


@scenario("vi.cubo", "torchtree.variational.chi.CUBO")
def _s(s):
    from torchtree.variational.chi import CUBO
    _vi(s, lambda q, p: CUBO("objective", q, p, torch.Size([3]), 2.0))


# ---- the real model graphs of the end-to-end cross-validation ----------------------------------------
@scenario("graph.tree_likelihood")
def _s(s):
    """tree likelihood (HKY + Weibull/invariant + strict clock, 4 taxa, ratio-parameterised time tree) with a
    coalescent prior on the same tree and a CTMC-scale prior on the clock rate, all inside a joint distribution"""
    from torchtree.distributions.ctmc_scale import CTMCScale
    from torchtree.distributions.joint_distribution import JointDistributionModel
    from torchtree.evolution.coalescent import ConstantCoalescentModel
    tl = _tree_likelihood(s)
    tm = s.models["tree"]
    coal = s.M("coalescent", ConstantCoalescentModel("coalescent", s.P("theta", [3.0], "pos"), tm))
    s.E("coalescent.__call__", lambda: coal())
    ctmc = s.M("ctmc", CTMCScale("ctmc", s.params["clock.rate"], tm))
    s.E("ctmc.__call__", lambda: ctmc())
    j = s.M("joint", JointDistributionModel("joint", [tl, coal, ctmc, tm]))
    s.E("joint.__call__", lambda: j())


@scenario("graph.joint_parameter_kinds")
def _s(s):
    _joint(s)


@scenario("graph.mg94")
def _s(s):
    from torchtree.evolution.site_model import ConstantSiteModel
    from torchtree.evolution.tree_likelihood import TreeLikelihoodModel
    sp = _site_pattern(s, codon=True)
    tm = _unrooted_tree(s)
    m = _mg94(s)
    sm = s.M("site", ConstantSiteModel("site", None))
    tl = s.M("like", TreeLikelihoodModel("like", sp, tm, m, sm))
    s.E("like.__call__", lambda: tl())


@scenario("graph.compound_gamma_dirichlet")
def _s(s):
    from torchtree.distributions.joint_distribution import JointDistributionModel
    m = _cgd(s)
    j = s.M("joint", JointDistributionModel("joint", [m]))
    s.E("joint.__call__", lambda: j())


@scenario("graph.rate_transforms")
def _s(s):
    """clock rates given by TransformedParameter with the parametric transform RescaledRateTransform"""
    from torchtree.core.parameter import TransformedParameter
    from torchtree.evolution.branch_model import SimpleClockModel
    from torchtree.evolution.rate_transform import RescaledRateTransform
    tm = _time_tree(s, "ratios")
    x = s.P("rates.unscaled", [0.5, 1.5, 1.0, 0.7, 1.2, 0.9], "pos")
    mu = s.P("rates.mean", [0.01], "pos")
    t = s.D("rates", TransformedParameter("rates", x, RescaledRateTransform(mu, tm)), None)
    clock = s.M("clock", SimpleClockModel("clock", t, tm))
    s.E("clock.rates", lambda: clock.rates)


DYN_GRAPHS = ["graph.tree_likelihood", "graph.joint_parameter_kinds", "graph.mg94", "graph.compound_gamma_dirichlet",
              "graph.rate_transforms"]


# ================================================================================================
# histories: public update operations interleaved with evaluations, replayed on REAL objects
# ================================================================================================
import math


def _tensor_of(value, like=None):
    t = torch.tensor(value)
    if like is not None and t.dtype != like.dtype and like.dtype.is_floating_point:
        t = t.to(like.dtype)
    return t


def _perturb(old, domain, rng):
    old = old.detach().clone()
    n = torch.tensor([rng.gauss(0.0, 1.0) for _ in range(old.numel())], dtype=torch.get_default_dtype()).reshape(old.shape)
    if domain == "real":
        return old + 0.5 * n
    if domain == "pos":
        return old * torch.exp(0.3 * n)
    if domain == "unit":
        return torch.sigmoid(torch.log(old) - torch.log1p(-old) + 0.5 * n)
    if domain == "simplex":
        return torch.softmax(torch.log(old) + 0.3 * n, -1)
    if domain == "scale":
        return old * math.exp(0.2 * rng.gauss(0.0, 1.0))
    raise ValueError(domain)


class _rng_frozen:
    """run a block with a given torch RNG seed and restore the global RNG afterwards"""

    def __init__(self, seed):
        self.seed = seed

    def __enter__(self):
        self.st = torch.random.get_rng_state()
        torch.manual_seed(self.seed)

    def __exit__(self, *exc):
        torch.random.set_rng_state(self.st)


def _evaluate(s, label, seed=12345):
    """('ok', value) or ('exc', type name)"""
    try:
        with _rng_frozen(seed):
            v = s.evals[label]()
        if isinstance(v, torch.Tensor):
            v = v.detach().clone()
        elif isinstance(v, (tuple, list)):
            v = [x.detach().clone() if isinstance(x, torch.Tensor) else x for x in v]
        return ("ok", v)
    except Exception as e:
        return ("exc", type(e).__name__ + ": " + str(e)[:160])


def _fmt(v):
    if isinstance(v, torch.Tensor):
        return v.flatten()[:6].tolist()
    if isinstance(v, (list, tuple)):
        return [_fmt(x) for x in v[:3]]
    return v


def compare_with_fresh(s, labels, step, seed=12345):
    """evaluate `labels` on the live graph and on a freshly built copy holding the same base-parameter values"""
    out = []
    try:
        fresh = build(s.name, s.state())
    except Exception as e:
        # the updates left the base parameters with values no model can be built from (e.g. an assignment through a derived parameter
        # handed a component a tensor of another shape): the state itself is the discrepancy
        shapes = {n: list(p.tensor.shape) for n, p in s.params.items()}
        if shapes == {n: list(p.tensor.shape) for n, p in build(s.name).params.items()}:
            raise
        return [{"step": step, "eval": "(state)", "kind": "inconsistent-state", "live": "parameter shapes %s" % shapes,
                 "fresh": "cannot be built from these values: %s: %s" % (type(e).__name__, str(e)[:120])}]
    for lab in labels:
        a = _evaluate(s, lab, seed)
        b = _evaluate(fresh, lab, seed)
        if a[0] == "exc" and b[0] == "exc":
            continue  # the evaluation itself is broken for reasons outside C11 (same failure on a fresh copy)
        if a[0] != b[0]:
            out.append({"step": step, "eval": lab, "kind": "raises" if a[0] == "exc" else "fresh-raises", "live": _fmt(a[1]), "fresh": _fmt(b[1])})
        elif not heap.same_value(a[1], b[1], ATOL, ATOL):
            out.append({"step": step, "eval": lab, "kind": "stale", "live": _fmt(a[1]), "fresh": _fmt(b[1])})
    return out


def apply_op(s, op, step=0):
    """apply one operation through the public interface; returns list of discrepancies (dicts)"""
    kind = op["op"]
    if kind == "eval":
        labels = list(s.evals) if op.get("what", "*") == "*" else list(op["what"])
        return compare_with_fresh(s, [l for l in labels if l in s.evals], step, op.get("seed", 12345))
    try:
        if kind == "assign":
            t = s.target(op["target"])
            t.tensor = _tensor_of(op["value"], t.tensor)
        elif kind == "requires_grad":
            s.target(op["target"]).requires_grad = bool(op["value"])
        elif kind in ("rsample", "sample"):
            with _rng_frozen(op.get("seed", 1)):
                getattr(s.dists[op["dist"]], kind)(torch.Size(op.get("shape", [])))
        elif kind == "mcmc":
            from torchtree.inference.mcmc import operator as mop
            t = s.target(op["target"])
            if op["operator"] == "scaler":
                o = mop.ScalerOperator(None, [t], 1.0, 0.24, 0.5)
            else:
                o = mop.SlidingWindowOperator(None, [t], 1.0, 0.24, 0.5)
            with _rng_frozen(op.get("seed", 1)):
                o.step()
            if op.get("mid_eval"):
                d = compare_with_fresh(s, [l for l in op["mid_eval"] if l in s.evals], step)
                if d:
                    return d
            if op.get("accept", False):
                o.accept()
            else:
                o.reject()
        elif kind == "optim":
            ps = [s.params[n] for n in op["targets"]]
            for p in ps:
                p.requires_grad = True
            try:
                loss = s.evals[op["loss"]]()
            except Exception:
                # the evaluation itself is broken (outside C11; eval operations compare it with a fresh copy): no step
                for p in ps:
                    p.requires_grad = False
                return []
            loss = loss.sum() if isinstance(loss, torch.Tensor) else sum(x.sum() for x in loss)
            opt = torch.optim.SGD([p.tensor for p in ps], lr=1.0)
            opt.zero_grad()
            if loss.requires_grad:       # (a loss that does not depend on the targets: the step is a no-op)
                try:
                    loss.backward()
                except RuntimeError:
                    # differentiating the model fails (in-place arithmetic inside _call): a gradient defect, outside C11
                    for p in ps:
                        p.requires_grad = False
                    return []
            gmax = max([float(p.tensor.grad.abs().max()) if p.tensor.grad is not None else 0.0 for p in ps] + [1e-12])
            for g in opt.param_groups:
                g["lr"] = op.get("step", 0.01) / gmax
            opt.step()                       # in-place optimiser step ...
            for p in ps:
                p.fire_parameter_changed()   # ... followed by the change notification (what Optimizer._run does)
            for p in ps:
                p.requires_grad = False
        else:
            raise ValueError("unknown op %r" % kind)
    except Exception as e:
        return [{"step": step, "op": op, "kind": "update-raises", "exception": type(e).__name__ + ": " + str(e)[:200],
                 "where": traceback.format_exc().strip().splitlines()[-3:-1]}]
    return []


def run_history(name, ops, init=None, stop_at_first=True):
    """drive the real objects of scenario `name` through `ops`; returns (discrepancies, scenario)"""
    s = build(name, init)
    found = []
    for i, op in enumerate(ops):
        d = apply_op(s, op, i)
        found.extend(d)
        if d and stop_at_first:
            break
    return found, s


def gen_history(name, seed, length, optim=True):
    """seeded random history for scenario `name` (values depend on the evolving state, so it is generated by
    running it); returns the list of JSON-able ops"""
    rng = random.Random("%s/%d" % (name, seed))
    s = build(name)
    ops = []
    assignable = [n for n in list(s.params) + list(s.derived) if s.domains.get(n) not in (None, "fixed")]
    one_d = [n for n in assignable if s.target(n).tensor.dim() == 1 and s.domains[n] in ("pos", "real")]
    labels = list(s.evals)
    scalar_losses = [l for l in labels if l.endswith(".__call__")]
    opt_targets = [n for n in s.params if s.domains[n] in ("pos", "real") and s.params[n].tensor.dtype.is_floating_point]
    for i in range(length):
        r = rng.random()
        op = None
        if r < 0.45 and assignable:
            n = rng.choice(assignable)
            op = {"op": "assign", "target": n, "value": _perturb(s.target(n).tensor, s.domains[n], rng).tolist()}
        elif r < 0.80 and labels:
            k = rng.choice([1, 1, 2, len(labels)])
            op = {"op": "eval", "what": rng.sample(labels, min(k, len(labels))), "seed": rng.randrange(10 ** 6)}
        elif r < 0.86 and s.dists:
            op = {"op": rng.choice(["rsample", "sample"]), "dist": rng.choice(list(s.dists)), "seed": rng.randrange(10 ** 6), "shape": []}
        elif r < 0.94 and one_d:
            n = rng.choice(one_d)
            op = {"op": "mcmc", "operator": "scaler" if s.domains[n] == "pos" else rng.choice(["scaler", "slide"]), "target": n,
                  "seed": rng.randrange(10 ** 6), "accept": rng.random() < 0.5,
                  "mid_eval": rng.sample(labels, min(2, len(labels))) if rng.random() < 0.7 else []}
        elif optim and scalar_losses and opt_targets and not s.stochastic:
            op = {"op": "optim", "targets": rng.sample(opt_targets, min(2, len(opt_targets))), "loss": rng.choice(scalar_losses), "step": 0.01}
        if op is None:
            continue
        ops.append(op)
        d = apply_op(s, op, i)
        if d:
            break   # the history up to here already exhibits a failure
    ops.append({"op": "eval", "what": "*"})
    return ops


def minimise_history(name, ops, init=None):
    """greedy shrink of a failing history (keeps it failing on the real objects)"""
    def fails(o):
        try:
            return bool(run_history(name, o, init)[0])
        except Exception:
            return False
    if not fails(ops):
        return ops
    cur = list(ops)
    i = 0
    while i < len(cur) and len(cur) > 1:
        cand = cur[:i] + cur[i + 1:]
        if fails(cand):
            cur = cand
        else:
            i += 1
    return cur


def replay_history(args):
    """custom replay (vt.replay): drive REAL objects through the recorded operation sequence.
    returns (ok, msg); ok=False means the failure was reproduced."""
    kind = args.get("kind", "history")
    if kind == "history":
        found, s = run_history(args["graph"], args["ops"], args.get("init"))
        if found:
            return False, "graph %s: %s" % (args["graph"], found[:3])
        return True, "graph %s: %d operations, every evaluation equals a freshly built copy" % (args["graph"], len(args["ops"]))
    fn = globals().get("_replay_" + kind)
    if fn is None:
        return True, "unknown replay kind %r" % kind
    return fn(args)


# ================================================================================================
# static analysis helpers (AST of the real sources, re-read on every run)
# ================================================================================================
def tt_mro(cls):
    cls = heap.real_class(cls)
    return [k for k in cls.__mro__ if k.__module__.startswith("torchtree")]


def _fn_ast(fn):
    try:
        src = textwrap.dedent(inspect.getsource(fn))
        node = ast.parse(src).body[0]
        return node if isinstance(node, (ast.FunctionDef, ast.AsyncFunctionDef)) else None
    except (OSError, TypeError, SyntaxError, IndexError):
        return None


def resolved_functions(cls):
    """name -> (defining class, function, kind) for plain methods and property getters, resolved through the MRO"""
    out = {}
    for k in reversed(tt_mro(cls)):
        for name, v in k.__dict__.items():
            if isinstance(v, property) and v.fget is not None:
                out[name] = (k, v.fget, "property")
            elif inspect.isfunction(v):
                out[name] = (k, v, "method")
            elif isinstance(v, (classmethod, staticmethod)):
                out.pop(name, None)
    return out


def _is_self_attr(node, attr=None):
    return isinstance(node, ast.Attribute) and isinstance(node.value, ast.Name) and node.value.id == "self" and (attr is None or node.attr == attr)


def _assigned_self_attrs(nodes):
    out = set()
    for n in nodes:
        for x in ast.walk(n):
            targets = []
            if isinstance(x, ast.Assign):
                targets = x.targets
            elif isinstance(x, (ast.AugAssign, ast.AnnAssign)):
                targets = [x.target]
            for t in targets:
                for y in ast.walk(t):
                    if _is_self_attr(y) and isinstance(y.ctx, ast.Store):
                        out.add(y.attr)
    return out


def _self_calls(nodes):
    out = set()
    for n in nodes:
        for x in ast.walk(n):
            if isinstance(x, ast.Call) and _is_self_attr(x.func):
                out.add(x.func.attr)
    return out


def _const_value(node):
    """value of a closed constant expression (`False`, `not True`, `bool(0)`, `0`), else the sentinel `_const_value`"""
    if isinstance(node, ast.Constant):
        return node.value
    try:
        return eval(compile(ast.Expression(body=node), "<flag>", "eval"), {"__builtins__": {"bool": bool, "int": int, "float": float}}, {})
    except Exception:
        return _const_value


def _is_const_false(node):
    v = _const_value(node)
    return v is not _const_value and isinstance(v, (bool, int, float)) and not v


def _is_const_true(node):
    v = _const_value(node)
    return v is not _const_value and isinstance(v, (bool, int, float)) and bool(v)


def find_cached_getters(cls):
    """[(getter name, flag, defining class, kind)]: functions containing `if self.<flag>: ...; self.<flag> = False`
    (the reset may be in the if-body or in a method the body calls)"""
    fns = resolved_functions(cls)
    found = []
    for name, (k, fn, kind) in sorted(fns.items()):
        if name in ("__init__",) or name in heap.HANDLERS:
            continue
        node = _fn_ast(fn)
        if node is None:
            continue
        for x in ast.walk(node):
            if isinstance(x, ast.If) and _is_self_attr(x.test):
                flag = x.test.attr
                cleared = False
                for st in x.body:
                    for y in ast.walk(st):
                        if isinstance(y, ast.Assign) and any(_is_self_attr(t, flag) for t in y.targets) \
                                and _is_const_false(y.value):
                            cleared = True
                if cleared:
                    found.append((name, flag, k, kind))
    return found


def dirty_flags(cls):
    return sorted({f for _, f, _, _ in find_cached_getters(cls)})


def cache_attrs(cls):
    """attributes written while recomputing (inside a guarded `if self.<flag>` body or in methods it calls)"""
    fns = resolved_functions(cls)
    out, todo, seen = set(), [], set()
    for name, flag, k, kind in find_cached_getters(cls):
        node = _fn_ast(fns[name][1])
        for x in ast.walk(node):
            if isinstance(x, ast.If) and _is_self_attr(x.test, flag):
                out |= _assigned_self_attrs(x.body)
                todo.extend(_self_calls(x.body))
    while todo:
        m = todo.pop()
        if m in seen or m not in fns:
            continue
        seen.add(m)
        node = _fn_ast(fns[m][1])
        if node is None:
            continue
        out |= _assigned_self_attrs(node.body)
        todo.extend(_self_calls(node.body))
    return out - set(dirty_flags(cls))


def handler_chain(cls, hname):
    """[(defining class, FunctionDef)] of the resolved handler followed through super().<hname>(...) calls"""
    chain = []
    mro = tt_mro(cls)
    start = 0
    while True:
        k = next((c for c in mro[start:] if hname in c.__dict__ and inspect.isfunction(c.__dict__[hname])), None)
        if k is None:
            break
        node = _fn_ast(k.__dict__[hname])
        chain.append((k, node))
        calls_super = node is not None and any(
            isinstance(x, ast.Call) and isinstance(x.func, ast.Attribute) and x.func.attr == hname
            and isinstance(x.func.value, ast.Call) and isinstance(x.func.value.func, ast.Name) and x.func.value.func.id == "super"
            for x in ast.walk(node))
        if not calls_super:
            break
        start = mro.index(k) + 1
    return chain


def handler_static(cls, hname):
    """what the handler text does: flags set True, propagation calls, branch-freeness, unresolved self attributes"""
    chain = handler_chain(cls, hname)
    sets, fires, branchy, uses_args, unresolved = set(), set(), False, False, []
    loads, loopy = set(), False
    init_attrs = set()
    for k in tt_mro(cls):
        f = k.__dict__.get("__init__")
        if inspect.isfunction(f):
            node = _fn_ast(f)
            if node is not None:
                init_attrs |= _assigned_self_attrs(node.body)
    real = heap.real_class(cls)
    for k, node in chain:
        if node is None:
            return None
        argnames = {a.arg for a in node.args.args[1:]}
        for x in ast.walk(node):
            if isinstance(x, (ast.If, ast.For, ast.While, ast.Try, ast.IfExp)):
                branchy = True
            if isinstance(x, (ast.For, ast.While, ast.Try)):
                loopy = True
            if _is_self_attr(x) and isinstance(x.ctx, ast.Load) and not x.attr.startswith("fire_"):
                loads.add(x.attr)
            if isinstance(x, ast.Assign) and _is_const_true(x.value):
                for t in x.targets:
                    if _is_self_attr(t):
                        sets.add(t.attr)
            if isinstance(x, ast.Call) and _is_self_attr(x.func) and x.func.attr.startswith("fire_"):
                fires.add(x.func.attr)
            if isinstance(x, ast.Name) and x.id in argnames and isinstance(x.ctx, ast.Load):
                # passing the arguments on to super() is not a use
                uses_args = uses_args or not _only_in_super_call(node, x)
            if _is_self_attr(x) and isinstance(x.ctx, ast.Load):
                if not hasattr(real, x.attr) and x.attr not in init_attrs:
                    unresolved.append(x.attr)
    return {"defined_in": "%s.%s" % (chain[0][0].__module__, chain[0][0].__name__) if chain else None,
            "sets_true": sorted(sets), "fires": sorted(fires), "branch_free": not branchy, "uses_arguments": uses_args,
            "self_loads": sorted(loads), "loops_or_try": loopy,
            "unresolved_self_attributes": sorted(set(unresolved)),
            "is_pass": bool(chain) and all(all(isinstance(s, ast.Pass) or (isinstance(s, ast.Expr) and isinstance(s.value, ast.Constant))
                                                  for s in n.body) for _, n in chain)}


def _only_in_super_call(fn_node, name_node):
    for x in ast.walk(fn_node):
        if isinstance(x, ast.Call) and isinstance(x.func, ast.Attribute) and isinstance(x.func.value, ast.Call) \
                and isinstance(x.func.value.func, ast.Name) and x.func.value.func.id == "super":
            if any(a is name_node for a in x.args):
                return True
    return False


_SKIP_STATIC = {"__init__", "from_json", "json_factory", "to", "cuda", "cpu", "_apply", "__repr__", "__str__", "__eq__",
                "handle_parameter_changed", "handle_model_changed", "fire_parameter_changed", "fire_model_changed",
                "add_parameter_listener", "add_model_listener", "remove_parameter_listener", "remove_model_listener",
                "parameters", "models", "register_parameter", "register_model", "__getattr__", "__setattr__", "__delattr__",
                "clone", "detach", "__getitem__", "assign", "write_newick", "_write_newick", "as_newick", "update_traversals",
                "update_leaf_heights"}


def _is_mutable_tt(v):
    from torchtree.core.abstractparameter import AbstractParameter
    from torchtree.core.model import Model
    return isinstance(v, (AbstractParameter, Model))


def _is_helper(v):
    """plain helper object whose methods run on behalf of its owner (torch Transform, nn.Module, ...)"""
    if v is None or isinstance(v, (int, float, str, bool, bytes, torch.Tensor, torch.Size, type, dict, list, tuple, set)):
        return False
    if _is_mutable_tt(v) or callable(v) and not hasattr(v, "__dict__"):
        return False
    return isinstance(v, (torch.distributions.Transform, torch.nn.Module)) or type(v).__module__.startswith("torchtree")


def _raw_get(obj, name):
    """attribute value without recording and without running properties of proxies"""
    rec = getattr(obj, "__dict__", {}).get("_vt_rec")
    en = rec.enabled if rec is not None else None
    if rec is not None:
        rec.enabled = False
    try:
        return getattr(obj, name)
    except Exception:
        return _MISSING
    finally:
        if rec is not None:
            rec.enabled = en


_MISSING = object()


def config_attr(dep, member):
    """member of a collaborator that parameter updates cannot change: a plain data attribute (in the instance dict,
    not a parameter/model, not callable) that no handler / cached-getter recomputation of its class writes"""
    d = getattr(dep, "__dict__", {})
    if member not in d:
        return False
    v = d[member]
    if _is_mutable_tt(v) or callable(v):
        return False
    return member not in cache_attrs(type(dep)) and member not in dirty_flags(type(dep))


def _expand_container(v, via):
    """a Container is a pure aggregate: reading it means reading its elements"""
    from torchtree.core.container import Container
    if heap.real_class(v) is Container:
        out = []
        for e in list(v._parameters.values()) + list(v._models.values()):
            out.extend(_expand_container(e, via + "<>"))
        return out
    return [(v, "*", via)]


def static_reads(owner, depth=0, seen=None, root=None):
    """over-approximation of what the methods of `owner` may read: [(object, member or '*', via)] for every
    `self.<a>[.<member>]` in the method texts of its class whose value is a parameter / model (or a container /
    helper object holding some)"""
    seen = seen if seen is not None else set()
    if id(owner) in seen or depth > 2:
        return []
    seen.add(id(owner))
    root = owner if root is None else root
    cls = heap.real_class(owner)
    out = []
    if cls.__module__.startswith("torchtree"):
        fns = resolved_functions(cls)
    else:
        fns = {n: (cls, f, "method") for n, f in inspect.getmembers(cls, inspect.isfunction)
               if n in ("_call", "_inverse", "log_abs_det_jacobian", "forward", "__call__")}
    for name, (k, fn, kind) in fns.items():
        if name in _SKIP_STATIC:
            continue
        node = _fn_ast(fn)
        if node is None:
            continue
        parents = {}
        for x in ast.walk(node):
            for c in ast.iter_child_nodes(x):
                parents[c] = x
        for x in ast.walk(node):
            if not (_is_self_attr(x) and isinstance(x.ctx, ast.Load)):
                continue
            v = _raw_get(owner, x.attr)
            if v is _MISSING:
                continue
            par = parents.get(x)
            member = par.attr if isinstance(par, ast.Attribute) and par.value is x else "*"
            via = "%s.%s:self.%s" % (cls.__name__, name, x.attr)
            if _is_mutable_tt(v):
                if v is owner or v is root:
                    continue
                from torchtree.core.container import Container
                if heap.real_class(v) is Container:
                    out.extend(_expand_container(v, via))
                else:
                    out.append((v, member, via))
            elif isinstance(v, (list, tuple, set)):
                out.extend((e, "*", via + "[]") for e in v if _is_mutable_tt(e))
            elif isinstance(v, dict):
                out.extend((e, "*", via + "{}") for e in v.values() if _is_mutable_tt(e))
            elif _is_helper(v):
                out.extend(static_reads(v, depth + 1, seen, root))
    return out


# ================================================================================================
# dynamic analysis of one per-class scenario with recording proxies
# ================================================================================================
class Analysis:
    pass


def _fire(dep):
    from torchtree.core.abstractparameter import AbstractParameter
    if isinstance(dep, AbstractParameter):
        dep.fire_parameter_changed()
    else:
        dep.fire_model_changed(dep)


def analyse(scn_name):
    """build the scenario from the real classes, turn every named object into a recording proxy of itself and
    record: which dependencies notify the object under test (and through which handler), what its compute methods
    read (dynamic + static), its dirty flags and cached getters."""
    s = build(scn_name)
    if s.out is None:
        raise Undecided("scenario %s has no object under test" % scn_name)
    a = Analysis()
    a.scn, a.out, a.out_name = s, s.out, s.out_name
    a.cls = heap.real_class(s.out)
    rec = a.rec = heap.Recorder()
    for n, o in s.all_objects().items():
        heap.instrument(o, n, rec)
    out_label = s.out_name
    # ---- dynamic read set: run every evaluation of the scenario, keep the reads made while `out` is executing
    a.eval_errors = {}
    mark = rec.mark()
    for lab, fn in s.evals.items():
        for f in dirty_flags(a.cls):       # make every cached getter recompute, so that its reads are seen
            if f in s.out.__dict__:
                object.__setattr__(s.out, f, True)
        try:
            with _rng_frozen(4242):
                fn()
        except Exception as e:
            a.eval_errors[lab] = type(e).__name__ + ": " + str(e)[:120]
    a.dynamic_reads = []   # (dep label, member)
    for e in rec.since(mark):
        if e[0] == "read" and e[1] == out_label and e[2] != out_label and e[3] not in heap.NON_VALUE:
            a.dynamic_reads.append((e[2], e[3]))
    # notifications that reached `out` while it was computing (lost by `flag = False` after the recomputation)
    a.notified_during_eval = [e for e in rec.since(mark) if e[0] == "handle" and e[1] == out_label]
    # ---- static over-approximation
    rec.enabled = False
    try:
        a.static_reads = []
        for obj, member, via in static_reads(s.out):
            a.static_reads.append((rec.labels.get(id(obj)), obj, member, via))
    finally:
        rec.enabled = True
    # ---- which dependencies notify `out`, through which handler
    a.reach = {}
    a.fire_errors = {}
    deps = [(n, o) for n, o in s.all_objects().items() if o is not s.out]
    anon = [(None, obj) for lab, obj, m, via in a.static_reads if lab is None]
    for n, o in deps + anon:
        key = n if n is not None else id(o)
        if key in a.reach:
            continue
        mark = rec.mark()
        try:
            _fire(o)
        except Exception as e:
            a.fire_errors[key] = (type(e).__name__ + ": " + str(e)[:160], traceback.format_exc().strip().splitlines()[-3:])
        a.reach[key] = sorted({h for h, src in rec.handled(mark, out_label)})
    # ---- read set with classification
    a.reads = OrderedDict()   # key -> dict(obj, members, sources)
    objs = s.all_objects()
    for lab, member in a.dynamic_reads:
        dep = objs.get(lab)
        if dep is not None and config_attr(dep, member):
            continue
        r = a.reads.setdefault(lab, {"obj": dep, "members": set(), "how": set(), "label": lab})
        r["members"].add(member)
        r["how"].add("dynamic")
    a.config_reads = sorted({(lab, m) for lab, m in a.dynamic_reads if objs.get(lab) is not None and config_attr(objs[lab], m)})
    for lab, obj, member, via in a.static_reads:
        if member != "*" and config_attr(obj, member):
            a.config_reads = sorted(set(a.config_reads) | {(lab or "<unnamed %s>" % type(obj).__name__, member)})
            continue
        if member in ("id", "_id"):
            continue
        key = lab if lab is not None else id(obj)
        r = a.reads.setdefault(key, {"obj": obj, "members": set(), "how": set(), "label": lab or "<unnamed %s>" % heap.real_class(obj).__name__})
        r["members"].add(member)
        r["how"].add("static:" + via)
    a.flags = dirty_flags(a.cls)
    a.getters = find_cached_getters(a.cls)
    return a


def deps_via(a, hname):
    """dependencies that the object reads and that notify it through handler `hname`"""
    return [(k, r) for k, r in a.reads.items() if hname in a.reach.get(k, [])]


def registered_via(a, hname):
    return [k for k, hs in a.reach.items() if hname in hs]


def _qual(cls):
    cls = heap.real_class(cls)
    return "%s.%s" % (cls.__module__, cls.__name__)


# ---- witnesses: concrete histories on the real objects -----------------------------------------------
def _witness_ops(s, target, rng, seed=777):
    val = _perturb(s.target(target).tensor, s.domains[target], rng).tolist()
    return [{"op": "eval", "what": "*", "seed": seed}, {"op": "assign", "target": target, "value": val}, {"op": "eval", "what": "*", "seed": seed}]


def find_witness(scn_name, prefer=(), kinds=("stale", "update-raises", "raises"), want_eval_prefix=None):
    """search a 3-step history (evaluate, one public assignment, evaluate) that fails on the REAL objects.
    returns (ops, discrepancies) or (None, None)"""
    s = build(scn_name)
    rng = random.Random("witness/" + scn_name)
    names = [n for n in list(s.params) + list(s.derived) if s.domains.get(n) not in (None, "fixed")]
    names = [n for n in prefer if n in names] + [n for n in names if n not in prefer]
    for n in names:
        ops = _witness_ops(s, n, rng)
        try:
            found, _ = run_history(scn_name, ops)
        except Exception:
            continue
        found = [f for f in found if f["kind"] in kinds and (want_eval_prefix is None or f.get("eval", want_eval_prefix).startswith(want_eval_prefix) or f["kind"] == "update-raises")]
        if found:
            return ops, found
    return None, None


def _params_behind(a, key):
    """names of assignable base parameters whose change is signalled by dependency `key` (itself, or found by firing)"""
    s = a.scn
    if key in s.params or key in s.derived:
        return [key]
    dep = a.reads[key]["obj"] if key in a.reads else s.all_objects().get(key)
    out = []
    from torchtree.core.parametric import Parametric
    if isinstance(dep, Parametric):
        try:
            ps = dep.parameters()
        except Exception:
            ps = []
        for p in ps:
            for n, q in s.params.items():
                if q is p and n not in out:
                    out.append(n)
    return out


def _refute(name_detail, scn_name, ops, found, extra=None):
    w = {"graph": scn_name, "ops": ops, "observed": found[:3] if found else None}
    if extra:
        w.update(extra)
    raise Refuted(name_detail, witness=w,
                  replay={"kind": "custom", "contract": "C11", "func": "replay_history", "args": {"kind": "history", "graph": scn_name, "ops": ops}} if ops else None,
                  confirmed=bool(found))


# ================================================================================================
# (b) handlers invalidate and propagate
# ================================================================================================
def _attach_listener(out):
    from torchtree.core.model import Model
    L = heap.recording_listener()
    if isinstance(out, Model):
        out.add_model_listener(L)
    else:
        out.add_parameter_listener(L)
    return L


def _out_reads(s):
    """read function of a correct downstream client of the object under test: all its evaluations"""
    labels = [l for l in s.evals if l.startswith(s.out_name + ".")] or list(s.evals)

    def read():
        out = []
        for l in labels:
            r = _evaluate(s, l)
            out.append(r[1] if r[0] == "ok" else None)
        return out
    return read


def _replay_downstream(args):
    """a correct observer-protocol client (ShadowCache) listening to the object under test must be invalidated
    when a parameter the object depends on is assigned through the public interface"""
    s = build(args["graph"])
    from torchtree.core.model import Model
    sc = heap.ShadowCache(s.out, _out_reads(s), "model" if isinstance(s.out, Model) else "parameter")
    sc.get()
    try:
        t = s.target(args["target"])
        t.tensor = _tensor_of(args["value"], t.tensor)
    except Exception as e:
        return False, "assignment to %s raised %s: %s" % (args["target"], type(e).__name__, e)
    if sc.consistent():
        return True, "downstream cache of %s consistent after assigning %s (%d notifications)" % (s.out_name, args["target"], sc.notifications)
    return False, ("assigning %s changed the value of %s but its listeners were not notified (%d notifications): a downstream "
                   "cache keeps %s instead of %s" % (args["target"], s.out_name, sc.notifications, _fmt(sc.cached), _fmt(sc._snap(sc.read()))))


def _downstream_witness(sn, a, key):
    s0 = build(sn)
    rng = random.Random("downstream/" + sn)
    for n in _params_behind(a, key) or []:
        if s0.domains.get(n) in (None, "fixed"):
            continue
        args = {"kind": "downstream", "graph": sn, "target": n, "value": _perturb(s0.target(n).tensor, s0.domains[n], rng).tolist()}
        ok, msg = _replay_downstream(args)
        if not ok:
            return args, msg
    return None, None


def check_handler(cls_qual, hname, scn_names):
    """obligation (b) for one class and one handler over all scenarios of the class"""
    res = {"class": cls_qual, "handler": hname, "scenarios": list(scn_names), "per_scenario": {}, "backend": "heap-proxies+ast"}
    cls = None
    for sn in scn_names:
        a = analyse(sn)
        cls = a.cls
        st = handler_static(cls, hname)
        if st is None:
            raise Undecided("source of %s.%s unavailable" % (cls_qual, hname))
        registered = registered_via(a, hname)
        deps = deps_via(a, hname)
        info = {"registered": [str(a.reads[k]["label"]) if k in a.reads else str(k) for k in registered],
                "read_and_notifying": [str(r["label"]) for _, r in deps], "static": st}
        res["per_scenario"][sn] = info
        res["statement"] = "%s.%s (defined in %s): never raises; sets %s and propagates whenever a dependency that the class reads notifies through it" % (
            cls.__name__, hname, st["defined_in"], a.flags or "no flags")
        # (i) never raises — the handler is invoked the way the graph invokes it: by firing each registered dependency
        for key in registered:
            if key in a.fire_errors:
                err, tb = a.fire_errors[key]
                ops, found = find_witness(sn, prefer=_params_behind(a, key), kinds=("update-raises",))
                _refute("%s.%s raises when %s changes: %s" % (cls.__name__, hname, key, err), sn, ops, found,
                        {"exception": err, "traceback_tail": tb, "handler_static": st})
        if not deps:
            info["verdict"] = "no dependency read by the class notifies through this handler: nothing to invalidate or propagate"
            continue
        own_flags = [f for f in a.flags if f in a.out.__dict__]
        if st["uses_arguments"] or st.get("loops_or_try") or (not st["branch_free"] and not set(st.get("self_loads", ())) <= set(own_flags)):
            raise Undecided("%s.%s branches on something other than the object's own dirty flags or inspects its arguments: one execution "
                            "per dependency does not cover every notification" % (cls.__name__, hname))
        # a straight-line handler needs one pre-state; a handler that branches on the object's own dirty flags is run from
        # EVERY combination of those flags (complete case split)
        pre_states = [tuple(False for _ in own_flags)] if st["branch_free"] else list(itertools.product((False, True), repeat=len(own_flags)))
        # (ii) flags, (iii) propagation: fire each read dependency and look
        for key, r in [(k_, r_) for (k_, r_) in deps for _ps in pre_states]:
            pass
        for (key, r), pre in [((k_, r_), ps) for (k_, r_) in deps for ps in pre_states]:
            dep = r["obj"]
            for f, v0 in zip(own_flags, pre):
                object.__setattr__(a.out, f, v0)
            L = _attach_listener(a.out)
            try:
                _fire(dep)
            except Exception as e:
                raise Undecided("firing %s raised %s after the no-raise check passed" % (key, e))
            missing = [f for f in a.flags if f in a.out.__dict__ and a.out.__dict__[f] is not True]
            propagated = bool(L.log)
            if missing:
                ops, found = find_witness(sn, prefer=_params_behind(a, key), kinds=("stale",))
                _refute("%s.%s does not set dirty flag(s) %s when %s changes (the class reads %s.%s and caches behind these flags)"
                        % (cls.__name__, hname, missing, r["label"], r["label"], sorted(r["members"])), sn, ops, found,
                        {"dependency": str(r["label"]), "flags_not_set": missing, "handler_static": st})
            if not propagated and any(pre):
                # The handler skips the notification when its own flags are already set.  That is only safe if no listener can have
                # been re-evaluated (become clean) while these flags stay set, i.e. if every evaluation of the object clears them.
                # Reachable flag states: closure of "all flags set" under the scenario's evaluations (evaluations only clear flags).
                reach_states = {tuple(True for _ in own_flags): "after a notification"}
                frontier = list(reach_states)
                while frontier:
                    st0 = frontier.pop()
                    for lab, fn in a.scn.evals.items():
                        for f, v0 in zip(own_flags, st0):
                            object.__setattr__(a.out, f, v0)
                        try:
                            with _rng_frozen(4242):
                                fn()
                        except Exception:
                            continue
                        st1 = tuple(bool(a.out.__dict__.get(f)) for f in own_flags)
                        if st1 not in reach_states:
                            reach_states[st1] = "%s; then evaluate %s" % (reach_states[st0], lab)
                            frontier.append(st1)
                if pre in reach_states and reach_states[pre] != "after a notification":
                    raise Refuted("%s.%s does not propagate when %s changes while its own flags %s are already set, and that state is reached %s "
                                  "(an evaluation that leaves the flag set): a listener re-evaluated in between is never invalidated again"
                                  % (cls.__name__, hname, r["label"], dict(zip(own_flags, pre)), reach_states[pre]),
                                  witness={"class": cls.__name__, "handler": hname, "dependency": str(r["label"]), "flags_before": dict(zip(own_flags, pre)),
                                           "reached": reach_states[pre], "handler_static": st}, confirmed=None)
                continue
            if not propagated:
                ops, found = find_witness(sn, prefer=_params_behind(a, key), kinds=("stale",))
                if found:
                    _refute("%s.%s does not propagate (no fire_model_changed / fire_parameter_changed) when %s changes although the "
                            "class reads %s.%s" % (cls.__name__, hname, r["label"], r["label"], sorted(r["members"])), sn, ops, found,
                            {"dependency": str(r["label"]), "handler_static": st})
                args, msg = _downstream_witness(sn, a, key)
                raise Refuted("%s.%s does not propagate when %s changes although the value of the object depends on %s.%s: listeners of "
                              "the object (e.g. a JointDistributionModel caching its log-probability) are not invalidated"
                              % (cls.__name__, hname, r["label"], r["label"], sorted(r["members"])),
                              witness={"graph": sn, "dependency": str(r["label"]), "handler_static": st, "observed": msg, "replay_args": args},
                              replay={"kind": "custom", "contract": "C11", "func": "replay_history", "args": args} if args else None,
                              confirmed=args is not None)
        info["verdict"] = "sets %s and propagates for %d notifying dependencies" % (a.flags, len(deps))
    return res


def check_handler_ast_only(cls, hname):
    """(b) for a concrete class that could not be instantiated: text of the handler only"""
    st = handler_static(cls, hname)
    if st is None:
        raise Undecided("source of %s.%s unavailable" % (_qual(cls), hname))
    if st["unresolved_self_attributes"]:
        raise Refuted("%s.%s uses self.%s which is neither defined on the class (MRO) nor assigned in __init__: it raises when invoked"
                      % (cls.__name__, hname, st["unresolved_self_attributes"]), witness={"handler_static": st}, replay=None, confirmed=False)
    flags = dirty_flags(cls)
    if st["is_pass"] and flags:
        raise Undecided("%s.%s is `pass`, the class has dirty flags %s and could not be instantiated to decide whether a dependency "
                        "notifies through it" % (cls.__name__, hname, flags))
    missing = [f for f in flags if f not in st["sets_true"]]
    if missing and not st["is_pass"]:
        raise Undecided("%s.%s does not set %s; class not instantiable, reads unknown" % (cls.__name__, hname, missing))
    return {"backend": "ast", "static": st, "statement": "%s.%s: every self attribute resolves; sets %s; fires %s" % (cls.__name__, hname, st["sets_true"], st["fires"])}


def _fires(node):
    return any(isinstance(x, ast.Call) and _is_self_attr(x.func) and x.func.attr in ("fire_model_changed", "fire_parameter_changed") for x in ast.walk(node))


def _stores_after_fire(stmts):
    """self attributes assigned, in one statement list or its nested lists, by a statement that FOLLOWS one which announces the change"""
    late = []
    fired = False
    for st in stmts:
        if fired:
            late += sorted(_assigned_self_attrs([st]))
        for field in ("body", "orelse", "finalbody"):
            sub = getattr(st, field, None)
            if isinstance(sub, list) and sub and isinstance(sub[0], ast.stmt):
                late += _stores_after_fire(sub)
        for h in getattr(st, "handlers", []) or []:
            late += _stores_after_fire(h.body)
        if _fires(st):
            fired = True
    return late


def check_handler_order(cls, hname):
    """(b, ordering) a handler marks its own state stale BEFORE it announces the change: listeners are called synchronously, one that reads the
    object inside the notification would otherwise be served the cached value of the previous parameters (and pass it on)"""
    fns = resolved_functions(cls)
    if hname not in fns:
        raise Undecided("%s has no %s" % (_qual(cls), hname))
    k, fn, _ = fns[hname]
    node = _fn_ast(fn)
    if node is None:
        raise Undecided("source of %s.%s unavailable" % (k.__name__, hname))
    late = _stores_after_fire(node.body)
    if late:
        raise Refuted("%s.%s (defined in %s) assigns self.%s AFTER announcing the change to its listeners: a listener that reads the object inside the "
                      "notification gets the value cached for the previous parameter values" % (cls.__name__, hname, k.__name__, sorted(set(late))),
                      witness={"class": _qual(cls), "handler": hname, "assigned_after_fire": sorted(set(late))}, replay=None, confirmed=False)
    return {"backend": "ast", "statement": "%s.%s: no self attribute is assigned after fire_model_changed / fire_parameter_changed" % (cls.__name__, hname)}


# ================================================================================================
# (c) read set is a subset of the notifying set
# ================================================================================================
def check_readset(cls_qual, scn_names):
    res = {"class": cls_qual, "scenarios": list(scn_names), "per_scenario": {}, "backend": "heap-proxies+ast"}
    for sn in scn_names:
        a = analyse(sn)
        info = {"reads": {str(r["label"]): sorted(r["members"]) for r in a.reads.values()},
                "notify_through": {str(a.reads[k]["label"]): a.reach.get(k, []) for k in a.reads},
                "configuration_reads_not_counted": ["%s.%s" % c for c in a.config_reads],
                "evaluation_errors_outside_C11": a.eval_errors}
        res["per_scenario"][sn] = info
        unreached = [(k, r) for k, r in a.reads.items() if not a.reach.get(k)]
        if unreached:
            prefer = []
            for k, r in unreached:
                prefer += _params_behind(a, k)
            ops, found = find_witness(sn, prefer=prefer, kinds=("stale",))
            labels = ["%s.%s (%s)" % (r["label"], sorted(r["members"]), ", ".join(sorted(h.split(":", 1)[-1] if h != "dynamic" else "recorded" for h in r["how"]))[:160]) for _, r in unreached]
            _refute("%s reads %s but no change notification of these objects reaches the %s: nothing invalidates what it caches or what "
                    "its listeners cache when they change" % (a.cls.__name__, labels, a.cls.__name__), sn, ops, found,
                    {"unregistered_reads": labels})
    res["statement"] = "everything mutable read by the compute methods of %s (recorded reads + static self.<attr> scan) notifies the object" % cls_qual
    return res


# ================================================================================================
# (d) cached getters
# ================================================================================================
def _getter_callable(s, name, kind):
    out = s.out
    lab = "%s.%s" % (s.out_name, name)
    if lab in s.evals:
        return s.evals[lab]
    if name == "update" and hasattr(out, "tensor"):
        return lambda: out.tensor
    if kind == "property":
        return lambda: getattr(out, name)
    return lambda: getattr(out, name)()


def _snap(v):
    if isinstance(v, torch.Tensor):
        return v.detach().clone()
    if isinstance(v, (list, tuple)):
        return [_snap(x) for x in v]
    return v


def getter_shape(cls, name, flag):
    """AST shape of `if self.<flag>: recompute; self.<flag> = False` in the resolved getter"""
    k, fn, kind = resolved_functions(cls)[name]
    node = _fn_ast(fn)
    shape = {"defined_in": "%s.%s" % (k.__module__, k.__name__), "kind": kind}
    for x in ast.walk(node):
        if isinstance(x, ast.If) and _is_self_attr(x.test, flag):
            shape["else_branch"] = bool(x.orelse)
            body = x.body
            idx = [i for i, st in enumerate(body) if isinstance(st, ast.Assign) and any(_is_self_attr(t, flag) for t in st.targets)]
            shape["reset_is_last_statement_of_guard"] = bool(idx) and idx[-1] == len(body) - 1
            shape["recompute_statements"] = [ast.unparse(st)[:100] for st in body[: idx[0]]] if idx else []
            shape["statements_after_reset"] = [ast.unparse(st)[:100] for st in body[idx[-1] + 1:]] if idx else []
            break
    other_sets = [ast.unparse(y)[:80] for y in ast.walk(node) if isinstance(y, ast.Assign) and any(_is_self_attr(t, flag) for t in y.targets)
                  and _is_const_true(y.value)]
    shape["sets_flag_true_itself"] = other_sets
    return shape


def check_getter(cls_qual, name, flag, scn_names):
    res = {"class": cls_qual, "getter": name, "flag": flag, "scenarios": list(scn_names), "per_scenario": {}, "backend": "heap-proxies+ast"}
    for sn in scn_names:
        a = analyse(sn)
        s, out, rec = a.scn, a.out, a.rec
        cls = a.cls
        if flag not in out.__dict__:
            continue
        kind = resolved_functions(cls)[name][2]
        shape = getter_shape(cls, name, flag)
        info = {"shape": shape}
        res["per_scenario"][sn] = info
        if not shape.get("reset_is_last_statement_of_guard") and shape.get("statements_after_reset"):
            # statements after the reset read dependencies: a recomputation after `flag = False` is fine, it is the unconditional reset that matters
            info["note"] = "guard body continues after the reset"
        get = _getter_callable(s, name, kind)
        allflags = [f for f in a.flags if f in out.__dict__]

        others = [(o, [f for f in dirty_flags(type(o)) if f in getattr(o, "__dict__", {})]) for o in s.all_objects().values() if o is not out]

        def force():
            # the handlers are assumed correct here (that is obligation (b)): every dirty flag of every object of the
            # scenario is raised, so that only the getter under contract is judged
            for f in allflags:
                object.__setattr__(out, f, True)
            for o, fl in others:
                for f in fl:
                    object.__setattr__(o, f, True)

        def fresh_value():
            fs = build(sn, s.state())
            with _rng_frozen(99):
                return _snap(_getter_callable(fs, name, kind)())
        # d2: dirty -> recompute from current dependencies, flag cleared, second call served from the cache
        try:
            force()
            mark = rec.mark()
            with _rng_frozen(99):
                v1 = _snap(get())
        except Exception as e:
            ef = None
            try:
                fresh_value()
            except Exception as e2:
                ef = e2
            if ef is not None and type(ef) is type(e):
                info["verdict"] = "evaluation raises for reasons outside C11 on a fresh copy too (%s): shape checked only" % type(e).__name__
                if shape.get("recompute_statements") is None:
                    raise Undecided("getter cannot be evaluated and its shape is not recognised")
                continue
            raise Refuted("%s.%s raises %s: %s although a fresh copy evaluates" % (cls.__name__, name, type(e).__name__, e), witness={"graph": sn}, confirmed=False)
        lost = [e for e in rec.since(mark) if e[0] == "handle" and e[1] == s.out_name]
        if not lost and out.__dict__[flag] is not False:
            raise Refuted("%s.%s leaves %s = %r after recomputing although nothing changed meanwhile" % (cls.__name__, name, flag, out.__dict__[flag]),
                          witness={"graph": sn, "shape": shape}, confirmed=False)
        if lost and out.__dict__[flag] is False:
            # a notification arrived while the value was being computed and `flag = False` afterwards discards it
            labs = [l for l in s.evals if l.startswith(s.out_name + ".")][:1] or "*"
            ops = [{"op": "eval", "what": labs, "seed": 1}, {"op": "eval", "what": labs, "seed": 2}]
            found, _ = run_history(sn, ops)
            _refute("%s.%s: %d change notification(s) (from %s) reach the object while %s is computing (the computation itself draws / assigns "
                    "parameters) and the unconditional `%s = False` after the computation discards them: the next call returns the cached "
                    "value although the parameters it was computed from have been replaced; a freshly built copy with the same parameter "
                    "values (same RNG seed) returns a different value" % (cls.__name__, name, len(lost), sorted({str(e[3]) for e in lost}), name, flag),
                    sn, ops, found, {"shape": shape, "notifications_during_compute": [list(map(str, e)) for e in lost[:4]]})
        if lost:
            info["verdict"] = "%d notification(s) arrive during the computation and the object stays dirty: the next call recomputes" % len(lost)
            info["notifications_during_compute"] = len(lost)
            continue
        fv = fresh_value()     # the fresh copy is evaluated in the state its constructor left it in (initial flags / caches)
        if not heap.same_value(v1, fv, ATOL, ATOL):
            ops, found = find_witness(sn, kinds=("stale",))
            _refute("%s.%s recomputed with %s=True differs from a fresh copy: %s vs %s" % (cls.__name__, name, flag, _fmt(v1), _fmt(fv)), sn, ops, found, {"shape": shape})
        mark = rec.mark()
        with _rng_frozen(98):
            v2 = _snap(get())
        reread = [e for e in rec.since(mark) if e[0] == "read" and e[1] == s.out_name and e[2] != s.out_name and e[3] not in heap.NON_VALUE]
        info["second_call_served_from_cache"] = not reread
        if not heap.same_value(v1, v2, ATOL, ATOL):
            raise Refuted("%s.%s returns a different value on a second call without any update" % (cls.__name__, name), witness={"graph": sn}, confirmed=False)
        # d2': after a public update of each dependency (handler assumed correct: all flags raised), the getter
        # recomputes from the CURRENT values
        rng = random.Random("getter/%s/%s" % (sn, name))
        n_upd = 0
        for key, r in a.reads.items():
            for pn in _params_behind(a, key):
                if s.domains.get(pn) in (None, "fixed"):
                    continue
                try:
                    s.target(pn).tensor = _perturb(s.target(pn).tensor, s.domains[pn], rng)
                except Exception:
                    continue   # a raising update is obligation (a)/(b)
                force()
                with _rng_frozen(99):
                    v3 = _snap(get())
                fv = fresh_value()
                n_upd += 1
                if not heap.same_value(v3, fv, ATOL, ATOL):
                    ops, found = find_witness(sn, prefer=[pn], kinds=("stale",))
                    _refute("%s.%s with every dirty flag raised does not recompute from the current value of %s (it reads a value cached "
                            "elsewhere that no flag guards): %s vs fresh copy %s" % (cls.__name__, name, pn, _fmt(v3), _fmt(fv)), sn, ops, found,
                            {"parameter": pn, "shape": shape})
        info["updates_checked"] = n_upd
        info["verdict"] = "dirty -> recomputed from current dependencies (= fresh copy), flag cleared, second call cached, no notification during compute"
    res["statement"] = "%s.%s: if %s: recompute from current dependencies; %s := False; return cache — and no notification is lost" % (cls_qual, name, flag, flag)
    return res


# ================================================================================================
# (a) mutators notify
# ================================================================================================
@scenario("param.kinds")
def _s(s):
    """every parameter kind over shared bases, so that a mutation through one kind must invalidate the others"""
    from torchtree.core.parameter import CatParameter, TransformedParameter, ViewParameter
    a = s.P("a", [0.5, 1.5, 2.5, 0.7], "pos")
    b = s.P("b", [0.3], "pos")
    z = s.P("z", [0.1, -0.2], "real")
    v = s.D("a.view", ViewParameter("a.view", a, slice(1, 3)), "pos")
    s.D("a.view_idx", ViewParameter("a.view_idx", a, torch.tensor([0, 3])), "pos")
    s.D("a.view_overlap", ViewParameter("a.view_overlap", a, slice(2, 4)), "pos")
    s.D("ab.cat", CatParameter("ab.cat", [a, b], -1), "pos")
    s.D("vb.cat", CatParameter("vb.cat", [v, b], -1), "pos")
    t = s.D("z.exp", TransformedParameter("z.exp", z, torch.distributions.ExpTransform()), "pos")
    s.D("zb.affine", TransformedParameter("zb.affine", [z, b], torch.distributions.AffineTransform(0.5, 2.0)), "real")
    s.D("v.exp", TransformedParameter("v.exp", v, torch.distributions.ExpTransform()), "pos")
    s.D("z.exp.view", ViewParameter("z.exp.view", z, slice(0, 1)), "real")
    s.E("z.exp.__call__", lambda: t())


def _watch_all(s):
    """a correct protocol client on every parameter-like object of the scenario"""
    ws = OrderedDict()
    for n, o in list(s.params.items()) + list(s.derived.items()):
        ws[n] = heap.ShadowCache(o, (lambda o=o: o.tensor), "parameter")
    for w in ws.values():
        w.get()
    return ws


def _check_watchers(ws, what, replay_args):
    bad = [n for n, w in ws.items() if not w.consistent()]
    if bad:
        w = ws[bad[0]]
        raise Refuted("%s: the value of %s changed but the listeners registered on %s were not notified (a cache derived from it keeps %s, "
                      "current value %s)" % (what, bad, bad, _fmt(w.cached), _fmt(w._snap(w.read()))),
                      witness={"stale_listeners_of": bad, "replay_args": replay_args},
                      replay={"kind": "custom", "contract": "C11", "func": "replay_history", "args": replay_args}, confirmed=True)
    return {n: w.notifications for n, w in ws.items()}


def _mutation(args):
    """perform the named mutation on the real objects of scenario args['graph']; shared by obligation and replay"""
    s = build(args["graph"])
    ws = _watch_all(s)
    m = args["mutation"]
    tgt = s.target(args["target"]) if "target" in args else None
    with _rng_frozen(args.get("seed", 5)):
        if m == "tensor.setter":
            tgt.tensor = _tensor_of(args["value"], tgt.tensor)
        elif m == "requires_grad.setter":
            tgt.requires_grad = args["value"]
        elif m in ("rsample", "sample"):
            getattr(s.dists[args["dist"]], m)(torch.Size(args.get("shape", [])))
        elif m == "pack_tensor":
            from torchtree.core.parameter_utils import pack_tensor
            ps = [s.target(n) for n in args["targets"]]
            pack_tensor(ps, _tensor_of(args["value"]))
        elif m == "set_tensor":
            from torchtree.inference.hmc.integrator import set_tensor
            ps = [s.target(n) for n in args["targets"]]
            set_tensor(ps, _tensor_of(args["value"]))
            for p in ps:
                p.requires_grad = False
        elif m in ("operator.step", "operator.step+reject", "operator.step+accept"):
            op = _make_operator(s, args)
            op.step()
            if m.endswith("reject"):
                op.reject()
            elif m.endswith("accept"):
                op.accept()
        else:
            raise ValueError(m)
    return s, ws


def _make_operator(s, args):
    from torchtree.inference.mcmc import operator as mop
    name = args["operator"]
    ps = [s.target(n) for n in args["targets"]]
    if name == "ScalerOperator":
        return mop.ScalerOperator("op", ps, 1.0, 0.24, 0.5)
    if name == "SlidingWindowOperator":
        return mop.SlidingWindowOperator("op", ps, 1.0, 0.24, 0.5)
    if name == "DirichletOperator":
        return mop.DirichletOperator("op", ps, 1.0, 0.24, 100.0)
    if name == "HMCOperator":
        from torchtree.core.parameter import Parameter
        from torchtree.inference.hmc.integrator import LeapfrogIntegrator
        from torchtree.inference.hmc.operator import HMCOperator
        dim = sum(p.shape[-1] for p in ps)
        return HMCOperator("op", s.models[args["joint"]], ps, LeapfrogIntegrator("lf", 2, 0.05), Parameter("mass", torch.ones(dim)), 1.0, 0.8, [])
    if name == "GMRFPiecewiseCoalescentBlockUpdatingOperator":
        from torchtree.inference.mcmc.gmrf_block_updating import GMRFPiecewiseCoalescentBlockUpdatingOperator
        return GMRFPiecewiseCoalescentBlockUpdatingOperator("op", s.models["coalescent"], s.models["gmrf"], 1.0, 0.24, 2.0)
    raise ValueError(name)


def _replay_mutation(args):
    try:
        s, ws = _mutation(args)
    except Exception as e:
        return False, "%s raised %s: %s" % (args["mutation"], type(e).__name__, str(e)[:200])
    bad = [n for n, w in ws.items() if not w.consistent()]
    if bad:
        return False, "after %s the listeners of %s hold a stale value" % (args["mutation"], bad)
    return True, "after %s every listener is invalidated or still exact" % args["mutation"]


def check_mutation(what, args, must_notify=(), deliberate_raise=None):
    """obligation (a): after the mutation no correct protocol client holds a stale value; the mutation does not raise"""
    args = dict(args, kind="mutation")
    try:
        s, ws = _mutation(args)
    except Exception as e:
        tb = traceback.format_exc().strip().splitlines()
        raise Refuted("%s raises %s: %s" % (what, type(e).__name__, str(e)[:200]),
                      witness={"replay_args": args, "traceback_tail": tb[-4:]},
                      replay={"kind": "custom", "contract": "C11", "func": "replay_history", "args": args}, confirmed=True)
    counts = _check_watchers(ws, what, args)
    silent = [n for n in must_notify if counts.get(n, 0) == 0]
    if silent:
        raise Refuted("%s: no notification reached the listeners of %s" % (what, silent), witness={"replay_args": args, "notifications": counts},
                      replay={"kind": "custom", "contract": "C11", "func": "replay_history", "args": args}, confirmed=True)
    changed = [n for n, w in ws.items() if not heap.same_value(w.cached, w._snap(w.read()))] if False else None
    return {"backend": "heap-proxies", "notifications": counts,
            "statement": "%s returns normally and every listener registered on any parameter whose value changed has been notified" % what}


_PARAM_VALUES = {"a": [0.9, 1.1, 2.0, 0.4], "b": [0.8], "z": [0.5, -0.7], "a.view": [1.1, 2.0], "a.view_idx": [0.9, 0.4],
                 "a.view_overlap": [2.2, 0.6], "ab.cat": [0.9, 1.1, 2.0, 0.4, 0.8], "vb.cat": [1.3, 2.1, 0.6], "z.exp": [1.5, 0.6],
                 "zb.affine": [1.5, 0.1, 2.5], "v.exp": [3.0, 4.0], "z.exp.view": [0.9]}


def _setter_is_deliberate_raise(cls, prop):
    p = None
    for k in cls.__mro__:
        if prop in k.__dict__ and isinstance(k.__dict__[prop], property):
            p = k.__dict__[prop]
            break
    if p is None or p.fset is None:
        return True
    node = _fn_ast(p.fset)
    return node is not None and all(isinstance(st, ast.Raise) or (isinstance(st, ast.Expr) and isinstance(st.value, ast.Constant)) for st in node.body)


def _optimizer_run(args):
    """drive the real Optimizer._run / _run_closure; returns list of problems"""
    from torchtree.optim.optimizer import Optimizer
    s = build("graph.joint_parameter_kinds")
    loss = s.models["joint"]
    names = args.get("targets", ["prior.a.loc", "prior.z.loc", "z"])
    ps = [s.params[n] for n in names]
    ws = _watch_all(s)
    problems = []
    events = []
    real_cls = type(loss)

    def checked_call(self, *a, **k):
        events.append("eval")
        v = real_cls.__call__(self, *a, **k)
        bad = [n for n, w in ws.items() if not w.consistent()]
        if bad:
            problems.append("loss evaluated while the listeners of %s hold a stale value (no notification since the in-place step)" % bad)
        fresh = build(s.name, s.state())
        fv = fresh.models["joint"]()
        if not heap.same_value(v.detach(), fv.detach(), 1e-9, 1e-9):
            problems.append("loss() returned %s but a freshly built copy holding the same parameter values returns %s (evaluation #%d, after %d steps)"
                            % (_fmt(v), _fmt(fv), events.count("eval"), events.count("step")))
        return v
    loss.__class__ = type("Checked_" + real_cls.__name__, (real_cls,), {"__call__": checked_call})
    for p in ps:
        p.requires_grad = True
    if args.get("algorithm") == "LBFGS":
        topt = torch.optim.LBFGS([p.tensor for p in ps], lr=0.1, max_iter=args.get("max_iter", 20))
    else:
        topt = torch.optim.SGD([p.tensor for p in ps], lr=0.01)
    real_step = topt.step

    def step(*a, **k):
        events.append("step")
        return real_step(*a, **k)
    topt.step = step
    opt = Optimizer("opt", ps, loss, topt, args.get("iterations", 3), checkpoint=None, maximize=True)
    import contextlib
    import io
    with contextlib.redirect_stdout(io.StringIO()):
        opt.run()
    loss.__class__ = real_cls
    bad = [n for n, w in ws.items() if not w.consistent()]
    if bad:
        problems.append("after Optimizer.run returned the listeners of %s hold a stale value: the last in-place step was not followed by a notification" % bad)
    # and the models: every evaluation equals a freshly built copy with the optimised values
    for p in ps:
        p.requires_grad = False
    d = compare_with_fresh(s, list(s.evals), -1)
    if d:
        problems.append("after Optimizer.run: %s" % d[:2])
    return problems, events


def _replay_optimizer(args):
    problems, events = _optimizer_run(args)
    if problems:
        return False, "; ".join(problems)[:1500]
    return True, "Optimizer.run (%s): %d steps, every step followed by a notification before the next evaluation" % (args.get("algorithm", "SGD"), events.count("step"))


def optimizer_step_followed_by_notification(fname):
    """AST of the real Optimizer.<fname>: every statement calling self.optimizer.step(...) is immediately followed, in the
    same block, by `for p in self.parameters: p.fire_parameter_changed()` — for the body of the loop, i.e. any iteration"""
    from torchtree.optim.optimizer import Optimizer
    node = _fn_ast(getattr(Optimizer, fname))
    if node is None:
        raise Undecided("source of Optimizer.%s unavailable" % fname)
    sites, bad = 0, []

    def is_step(st):
        return any(isinstance(x, ast.Call) and isinstance(x.func, ast.Attribute) and x.func.attr == "step"
                   and isinstance(x.func.value, ast.Attribute) and x.func.value.attr == "optimizer" for x in ast.walk(st)) \
            and not isinstance(st, (ast.For, ast.While, ast.If, ast.With, ast.Try, ast.FunctionDef))

    def is_fire_loop(st):
        return isinstance(st, ast.For) and isinstance(st.iter, ast.Attribute) and st.iter.attr == "parameters" and any(
            isinstance(x, ast.Call) and isinstance(x.func, ast.Attribute) and x.func.attr == "fire_parameter_changed" for x in ast.walk(st))
    for blk in ast.walk(node):
        for field in ("body", "orelse", "finalbody"):
            stmts = getattr(blk, field, None)
            if not isinstance(stmts, list):
                continue
            for i, st in enumerate(stmts):
                if isinstance(st, ast.stmt) and is_step(st):
                    sites += 1
                    nxt = stmts[i + 1] if i + 1 < len(stmts) else None
                    if nxt is None or not is_fire_loop(nxt):
                        bad.append("line %d: `%s` is followed by `%s`" % (st.lineno, ast.unparse(st)[:60], ast.unparse(nxt)[:60] if nxt is not None else "<end of block>"))
    return sites, bad


def check_optimizer(args):
    args = dict(args, kind="optimizer")
    try:
        problems, events = _optimizer_run(args)
    except Exception as e:
        raise Undecided("Optimizer scenario could not be run: %s: %s" % (type(e).__name__, e))
    if events.count("step") == 0:
        raise Undecided("optimizer made no step")
    if problems:
        raise Refuted(problems[0], witness={"replay_args": args, "problems": problems[:4], "events": events[:40]},
                      replay={"kind": "custom", "contract": "C11", "func": "replay_history", "args": args}, confirmed=True)
    fname = "_run_closure" if args.get("algorithm") == "LBFGS" else "_run"
    sites, bad = optimizer_step_followed_by_notification(fname)
    if sites == 0:
        raise Undecided("no optimizer.step() call located in Optimizer.%s" % fname)
    if bad:
        raise Refuted("Optimizer.%s: %s" % (fname, "; ".join(bad)), witness={"ast": bad}, replay=None, confirmed=False)
    return {"backend": "heap-proxies+ast", "events": events[:30],
            "statement": "every optimizer.step() of the real Optimizer loop is followed by fire_parameter_changed on each optimised parameter before any model is evaluated, and at exit"}


# ================================================================================================
# end-to-end cross-validation (bounded, tag B)
# ================================================================================================
def _systematic_histories(graph, seed):
    """every assignable object once between two evaluations of EVERYTHING (all caches warm before the update), and every ordered pair of
    assignments between two such evaluations: the histories a random walk of a few dozen steps is unlikely to contain"""
    rng = random.Random("%s/sys/%d" % (graph, seed))
    s = build(graph)
    assignable = [n for n in list(s.params) + list(s.derived) if s.domains.get(n) not in (None, "fixed")]
    out = []
    for n in assignable:
        v = _perturb(s.target(n).tensor, s.domains[n], rng).tolist()
        out.append([{"op": "eval", "what": "*"}, {"op": "assign", "target": n, "value": v}, {"op": "eval", "what": "*"}])
    for a in assignable[:6]:
        for b in assignable[:6]:
            if a != b:
                va = _perturb(s.target(a).tensor, s.domains[a], rng).tolist()
                vb = _perturb(s.target(b).tensor, s.domains[b], rng).tolist()
                out.append([{"op": "eval", "what": "*"}, {"op": "assign", "target": a, "value": va}, {"op": "eval", "what": "*"},
                            {"op": "assign", "target": b, "value": vb}, {"op": "eval", "what": "*"}])
    return out


def check_dyn(graph, seed, n_hist, length):
    total_ops = 0
    hists = _systematic_histories(graph, seed) + [None] * n_hist
    for k, ops in enumerate(hists):
        if ops is None:
            ops = gen_history(graph, seed * 1000 + (k - (len(hists) - n_hist)), length)
        total_ops += len(ops)
        found, _ = run_history(graph, ops)
        if found:
            small = minimise_history(graph, ops)
            found2, _ = run_history(graph, small)
            f = (found2 or found)[0]
            raise Refuted("history of %d public operations on graph %s: %s" % (len(small), graph, {k2: v for k2, v in f.items() if k2 != "op"}),
                          witness={"graph": graph, "ops": small, "observed": (found2 or found)[:3], "history_seed": seed * 1000 + k},
                          replay={"kind": "custom", "contract": "C11", "func": "replay_history", "args": {"kind": "history", "graph": graph, "ops": small}},
                          confirmed=bool(found2))
    return {"backend": "concrete", "cases": len(hists), "operations": total_ops,
            "statement": "%d systematic (each assignable object / ordered pair between full evaluations) + %d seeded histories (%d public operations) on the real graph %s: "
                         "every evaluation equals a freshly built copy holding the same parameter values (atol %g)"
                         % (len(hists) - n_hist, n_hist, total_ops, graph, ATOL)}


_CLASS_OBS = {}   # "module.Class" -> [(obligation name, fn)]   filled by obligations() before the pool forks


def _explanations(scn_name):
    """names of contract obligations (a)-(d) refuted for a class that occurs in the scenario"""
    s = build(scn_name)
    quals = []
    for o in s.all_objects().values():
        q = _qual(o)
        if q not in quals:
            quals.append(q)
    # internal helpers (CatParameter inside TransformedParameter, Container, ...)
    out = []

    def parametric_transform(o):
        t = getattr(o, "transform", None)
        if t is None:
            return False
        return any(hasattr(v, "fire_parameter_changed") or hasattr(v, "fire_model_changed") or (isinstance(v, (list, tuple)) and any(hasattr(w, "fire_parameter_changed") for w in v))
                   for v in vars(t).values())
    for q in quals:
        # the open finding on TransformedParameter is about transforms that hold parameters / models of their own: it explains nothing in a
        # graph whose transforms have none
        if q.endswith(".TransformedParameter") and not any(parametric_transform(o) for o in s.all_objects().values() if _qual(o) == q):
            continue
        for name, fn in _CLASS_OBS.get(q, []):
            try:
                fn()
            except Refuted as e:
                out.append(name)
            except Exception:
                pass
    return out


def check_copy(scn_name, how, seed):
    """the observer wiring survives a copy of the object graph: the whole graph of a scenario is copied (copy.deepcopy or a pickle round
    trip, caches warm), every base parameter of the COPY is assigned a new value through the public setter, and every observable of the
    copy that can be reached by name (<object>.<attribute or method>) equals that of a freshly built graph holding the same values."""
    import copy
    import pickle
    s = build(scn_name)
    for lab in list(s.evals):
        _evaluate(s, lab)                       # warm caches
    objs = s.all_objects()
    try:
        objs2 = copy.deepcopy(objs) if how == "deepcopy" else pickle.loads(pickle.dumps(objs))
    except Exception as e:
        return {"backend": "concrete", "trivial": True, "statement": "%s of scenario %s is not supported (%s): nothing to check" % (how, scn_name, type(e).__name__)}
    rng = random.Random("%s/%s/%d" % (scn_name, how, seed))
    state = s.state()
    n_assigned = 0
    for nme in s.params:
        dom = s.domains.get(nme)
        if dom in (None, "fixed"):
            continue
        new = _perturb(objs2[nme].tensor, dom, rng)
        objs2[nme].tensor = new
        state[nme] = new.detach().clone()
        n_assigned += 1
    if n_assigned == 0:
        return {"backend": "concrete", "trivial": True, "statement": "scenario %s has no assignable base parameter" % scn_name}
    fresh = build(scn_name, state)
    stale, n = [], 0
    for lab in s.evals:
        oname, _, attr = lab.rpartition(".")
        if oname not in objs2 or not attr:
            continue
        b = _evaluate(fresh, lab)
        try:
            with _rng_frozen(12345):
                v = getattr(objs2[oname], attr)
                v = v() if callable(v) else v
            a = ("ok", v.detach().clone() if isinstance(v, torch.Tensor) else ([x.detach().clone() if isinstance(x, torch.Tensor) else x for x in v] if isinstance(v, (list, tuple)) else v))
        except Exception as e:
            a = ("exc", type(e).__name__)
        if a[0] == "exc" or b[0] == "exc":
            continue
        n += 1
        if not heap.same_value(a[1], b[1], ATOL, ATOL):
            stale.append({"eval": lab, "copy": _fmt(a[1]), "fresh": _fmt(b[1])})
    if stale:
        raise Refuted("after %s of the graph of scenario %s and an update of its base parameters, %d observable(s) of the copy are stale, e.g. %s"
                      % (how, scn_name, len(stale), stale[0]), witness={"scenario": scn_name, "how": how, "stale": stale[:4]},
                      replay={"kind": "custom", "contract": "C11", "func": "replay_copy", "args": {"scenario": scn_name, "how": how, "seed": seed}}, confirmed=True)
    return {"backend": "concrete", "cases": n, "trivial": n == 0, "statement": "%s of %s: %d observables of the copy follow an update of its %d base parameters" % (how, scn_name, n, n_assigned)}


def _same_up_to_sample_broadcast(a, b):
    """a value that does not depend on the sample (a constant kept with fewer leading dimensions) is the same value for every sample"""
    if isinstance(a, torch.Tensor) and isinstance(b, torch.Tensor) and a.dim() <= b.dim():
        try:
            return bool(torch.allclose(a.expand(b.shape), b, rtol=ATOL, atol=ATOL, equal_nan=True))
        except RuntimeError:
            return False
    return False


def check_shape_change(scn_name, seed):
    """what `Distribution.sample([S])` does to a live graph: every base parameter receives a value with a leading sample dimension, then one
    with another S, then an unbatched value again. After each stage the SHAPE information of every object (`shape`, `sample_shape`, read
    first - models ask for it before they ask for values) and every observable equal those of a graph built afresh from the same values; an
    evaluation that raises on the live graph while the fresh graph evaluates is stale state as well."""
    s = build(scn_name)
    for lab in list(s.evals):
        _evaluate(s, lab)
    rng = random.Random("%s/shape/%d" % (scn_name, seed))
    n, problems = 0, []
    assignable = [nme for nme in s.params if s.domains.get(nme) not in (None, "fixed")]
    if not assignable:
        return {"backend": "concrete", "trivial": True, "statement": "scenario %s has no assignable base parameter" % scn_name}
    base = {nme: s.params[nme].tensor.detach().clone() for nme in assignable}
    for stage, S in enumerate((3, 5, None)):
        for nme in assignable:
            dom = s.domains[nme]
            if S is None:
                new = _perturb(base[nme], dom, rng)
            else:
                new = torch.stack([_perturb(base[nme], dom, rng) for _ in range(S)])
            s.params[nme].tensor = new
        try:
            fresh = build(scn_name, s.state())
        except Exception:
            continue                                   # this scenario cannot be built with such values: nothing to compare with
        objs, fobjs = s.all_objects(), fresh.all_objects()
        for oname, o in objs.items():                  # shape information first
            for attr in ("shape", "sample_shape"):
                try:
                    b = getattr(fobjs[oname], attr)
                except Exception:
                    continue
                if not isinstance(b, torch.Size):
                    continue
                try:
                    a = getattr(o, attr)
                    a = tuple(a) if isinstance(a, torch.Size) else repr(a)
                except Exception as e:
                    a = "raises %s" % type(e).__name__
                b = tuple(b)
                n += 1
                if a != b:
                    problems.append({"stage": "S=%s" % S, "what": "%s.%s" % (oname, attr), "live": str(a), "fresh": str(b)})
        for lab in s.evals:
            b = _evaluate(fresh, lab)
            if b[0] == "exc":
                continue
            a = _evaluate(s, lab)
            n += 1
            if a[0] == "exc":
                problems.append({"stage": "S=%s" % S, "what": lab, "live": a[1], "fresh": _fmt(b[1])})
            elif not heap.same_value(a[1], b[1], ATOL, ATOL) and not _same_up_to_sample_broadcast(a[1], b[1]):
                problems.append({"stage": "S=%s" % S, "what": lab, "live": _fmt(a[1]), "fresh": _fmt(b[1])})
        if problems:
            break
    if problems:
        raise Refuted("scenario %s after its base parameters received values of another sample shape: %d observable(s) differ from a freshly built graph, e.g. %s"
                      % (scn_name, len(problems), problems[0]), witness={"scenario": scn_name, "problems": problems[:4]},
                      replay={"kind": "custom", "contract": "C11", "func": "replay_shape_change", "args": {"scenario": scn_name, "seed": seed}}, confirmed=True)
    return {"backend": "concrete", "cases": n, "trivial": n == 0,
            "statement": "%s: %d observables (shape information first) follow updates that change the sample shape ([3], [5], unbatched)" % (scn_name, n)}


def replay_shape_change(args):
    try:
        check_shape_change(args["scenario"], int(args.get("seed", 0)))
    except Refuted as e:
        return False, e.detail
    return True, "held"


def replay_copy(args):
    try:
        check_copy(args["scenario"], args["how"], args.get("seed", 0))
    except Refuted as e:
        return False, e.detail
    return True, "held"


def check_dyn_class(scn_name, seed, n_hist, length):
    try:
        return check_dyn(scn_name, seed, n_hist, length)
    except Refuted as e:
        why = _explanations(scn_name)
        if why:
            return {"backend": "concrete", "explained_by": why, "trivial": True,
                    "statement": "staleness found on scenario %s (%s) is explained by the refuted contract obligation(s) %s" % (scn_name, e.detail[:200], why)}
        e.detail = "staleness that NO (a)-(d) obligation explains — " + e.detail
        raise


# ================================================================================================
# vacuity: must-fail twins (local subclasses of correct real classes)
# ================================================================================================
@scenario("twin.handler_pass", "twin.BadSiteModel")
def _s(s):
    from torchtree.evolution.site_model import InvariantSiteModel

    class BadSiteModel(InvariantSiteModel):
        __module__ = "torchtree._vt_twin"

        def handle_parameter_changed(self, variable, index, event):
            pass
    m = s.M("site", BadSiteModel("site", s.P("site.pinv", [0.2], "unit"), s.P("site.mu", [1.5], "pos")), out=True)
    s.E("site.rates", m.rates)
    s.E("site.probabilities", m.probabilities)


@scenario("twin.handler_no_propagate", "twin.BadTreeModel")
def _s(s):
    from torchtree.evolution import tree_model as tmod
    from torchtree.evolution.coalescent import ConstantCoalescentModel

    class BadTreeModel(tmod.TimeTreeModel):
        __module__ = "torchtree._vt_twin"

        def handle_parameter_changed(self, variable, index, event):
            self.branch_lengths_need_update = True
            self.heights_need_update = True
    taxa = _taxa()
    tm = s.M("tree", BadTreeModel("tree", _dendro(taxa), taxa, s.P("tree.heights", [0.5, 0.6, 1.0], "scale")), out=True)
    s.E("tree.branch_lengths", tm.branch_lengths)
    s.E("tree.node_heights", lambda: tm.node_heights)
    coal = s.M("coalescent", ConstantCoalescentModel("coalescent", s.P("theta", [3.0], "pos"), tm))
    s.E("coalescent.__call__", lambda: coal())


@scenario("twin.unregistered_read", "twin.BadCoalescent")
def _s(s):
    from torchtree.evolution.coalescent import ConstantCoalescentModel

    class BadCoalescent(ConstantCoalescentModel):
        __module__ = "torchtree._vt_twin"

        def __init__(self, id_, theta, tree_model, extra):
            super().__init__(id_, theta, tree_model)
            self.extra = [extra]     # kept in a list: Parametric.__setattr__ does not register it

        def _call(self, *args, **kwargs):
            return super()._call(*args, **kwargs) * self.extra[0].tensor
    tm = _time_tree(s, "heights")
    m = s.M("coalescent", BadCoalescent("coalescent", s.P("theta", [3.0], "pos"), tm, s.P("extra", [1.5], "pos")), out=True)
    s.E("coalescent.__call__", lambda: m())


@scenario("twin.getter_no_recompute", "twin.BadGetterSiteModel")
def _s(s):
    from torchtree.evolution.site_model import InvariantSiteModel

    class BadGetterSiteModel(InvariantSiteModel):
        __module__ = "torchtree._vt_twin"

        def rates(self):
            if self.needs_update:
                if self._rates is None:
                    self.update_rates_probs(self.invariant)
                self.needs_update = False
            return self._rates
    m = s.M("site", BadGetterSiteModel("site", s.P("site.pinv", [0.2], "unit"), s.P("site.mu", [1.5], "pos")), out=True)
    s.E("site.rates", m.rates)


@scenario("twin.getter_lost_notification", "twin.SelfMutatingModel")
def _s(s):
    from torchtree.core.model import CallableModel

    class SelfMutatingModel(CallableModel):
        __module__ = "torchtree._vt_twin"

        def __init__(self, id_, x):
            super().__init__(id_)
            self.x = x

        def _call(self, *args, **kwargs):
            self.x.tensor = torch.randn(self.x.tensor.shape)   # draws inside the computation, like the variational objectives
            return self.x.tensor.sum()

        def __call__(self, *args, **kwargs):
            if self.lp_needs_update:
                self.lp = self._call(*args, **kwargs)
                self.lp_needs_update = False      # discards the notification caused by the draw
            return self.lp

        def _sample_shape(self):
            return torch.Size([])

        @classmethod
        def from_json(cls, data, dic):
            raise NotImplementedError
    m = s.M("m", SelfMutatingModel("m", s.P("x", [0.1, 0.2], "real")), out=True)
    s.stochastic = True
    s.E("m.__call__", lambda: m())


@scenario("twin.setter_no_fire")
def _s(s):
    from torchtree.core.parameter import Parameter, ViewParameter

    class SilentParameter(Parameter):
        __module__ = "torchtree._vt_twin"

        @property
        def tensor(self):
            return self._tensor

        @tensor.setter
        def tensor(self, tensor):
            self._tensor = tensor
    p = SilentParameter("p", torch.tensor(s.vals.get("p", [0.5, 1.5, 2.5])))
    s.params["p"] = p
    s.domains["p"] = "real"
    s.D("p.view", ViewParameter("p.view", p, slice(0, 2)), "real")
    s.E("p.tensor", lambda: p.tensor)


def _expect_refuted(fn, what, need_confirmed=True):
    try:
        fn()
    except Refuted as e:
        if need_confirmed and not e.confirmed:
            raise Refuted("must-fail twin %s was refuted but the replay on real objects did not reproduce it: %s" % (what, e.detail[:300]), confirmed=False)
        return e.detail[:200]
    raise Refuted("vacuity: the must-fail twin %s was NOT refuted — the obligation family cannot fail" % what, witness={"twin": what}, confirmed=False)


def vacuity_handlers():
    d1 = _expect_refuted(lambda: check_handler("twin.BadSiteModel", "handle_parameter_changed", ["twin.handler_pass"]), "handler `pass` on InvariantSiteModel (b.ii)")
    d2 = _expect_refuted(lambda: check_handler("twin.BadTreeModel", "handle_parameter_changed", ["twin.handler_no_propagate"]), "TimeTreeModel handler without fire_model_changed (b.iii)")
    d3 = _expect_refuted(lambda: check_dyn("twin.handler_pass", 0, 4, 30), "dyn on handler `pass` twin")
    d4 = _expect_refuted(lambda: check_dyn("twin.handler_no_propagate", 0, 4, 30), "dyn on non-propagating twin")
    # and the correct parents are not refuted by the same functions
    check_handler("torchtree.evolution.site_model.InvariantSiteModel", "handle_parameter_changed", ["site.invariant"])
    return {"backend": "twins", "refuted": [d1, d2, d3, d4], "statement": "(b) and dyn refute a `pass` handler and a non-propagating handler twin; the real parent classes pass the same functions"}


def vacuity_readset():
    d1 = _expect_refuted(lambda: check_readset("twin.BadCoalescent", ["twin.unregistered_read"]), "model reading a parameter kept in a plain list (c)")
    check_readset("torchtree.evolution.coalescent.ConstantCoalescentModel", ["coalescent.constant"])
    return {"backend": "twins", "refuted": [d1], "statement": "(c) refutes a model that reads a parameter it did not register; the real parent passes"}


def vacuity_getters():
    d1 = _expect_refuted(lambda: check_getter("twin.BadGetterSiteModel", "rates", "needs_update", ["twin.getter_no_recompute"]), "getter that clears the flag without recomputing (d)")
    d2 = _expect_refuted(lambda: check_getter("twin.SelfMutatingModel", "__call__", "lp_needs_update", ["twin.getter_lost_notification"]), "CallableModel whose _call assigns its own parameter (d: lost notification)")
    check_getter("torchtree.evolution.site_model.InvariantSiteModel", "rates", "needs_update", ["site.invariant"])
    return {"backend": "twins", "refuted": [d1, d2], "statement": "(d) refutes a getter that does not recompute and a getter that loses a notification; the real parent passes"}


def vacuity_mutators():
    d1 = _expect_refuted(lambda: check_mutation("SilentParameter.tensor.setter", {"graph": "twin.setter_no_fire", "mutation": "tensor.setter", "target": "p", "value": [1.0, 2.0, 3.0]}),
                         "Parameter subclass whose setter does not fire (a)")
    check_mutation("Parameter.tensor.setter", {"graph": "param.kinds", "mutation": "tensor.setter", "target": "a", "value": _PARAM_VALUES["a"]})
    return {"backend": "twins", "refuted": [d1], "statement": "(a) refutes a setter that does not fire; the real setter passes"}


# ================================================================================================
# discovery / coverage
# ================================================================================================
def discover():
    from torchtree.core.abstractparameter import AbstractParameter
    from torchtree.core.model import Model
    imported, failed = heap.import_all()
    classes = []
    for c in heap.all_subclasses(Model) + heap.all_subclasses(AbstractParameter):
        if c not in classes and c.__module__.startswith("torchtree") and not c.__module__.startswith("torchtree._vt_twin"):
            classes.append(c)
    classes.sort(key=lambda c: (c.__module__, c.__name__))
    return classes, imported, failed


def _scenarios_by_class():
    d = OrderedDict()
    for sn, q in SCN_CLASS.items():
        if not q.startswith("twin."):
            d.setdefault(q, []).append(sn)
    return d


def _anchored(cls):
    try:
        f = inspect.getsourcefile(cls) or ""
    except TypeError:
        f = ""
    return any(f.endswith(a) for a in ANCHOR_FILES)


def check_coverage():
    classes, imported, failed = discover()
    by = _scenarios_by_class()
    inst, ast_only, abstract = [], [], []
    for c in classes:
        q = _qual(c)
        if heap.is_abstract(c):
            abstract.append(c.__name__)
        elif q in by:
            inst.append(c.__name__)
        else:
            ast_only.append(c.__name__)
    if not classes or not inst:
        raise Refuted("vacuity: no Model/AbstractParameter subclass discovered or instantiated", confirmed=False)
    missing = [q for q in by if q not in {_qual(c) for c in classes}]
    if missing:
        raise Undecided("scenario classes no longer exist in the working tree: %s" % missing)
    hits = heap.scan_type_identity_checks(imported)
    return {"backend": "discovery", "classes": len(classes), "instantiated": inst, "ast_only": ast_only, "abstract": abstract,
            "import_failures": failed, "type_identity_checks": hits,
            "statement": "%d modules imported (%d failed: %s); %d Model/AbstractParameter subclasses: %d instantiated with real inputs %s; "
                         "%d concrete without scenario (AST only) %s; %d abstract, covered through the handlers their concrete subclasses resolve to %s; "
                         "`type(x) is` checks that a proxy subclass would not satisfy: %s"
                         % (len(imported), len(failed), [f[0] for f in failed], len(classes), len(inst), inst, len(ast_only), ast_only, len(abstract), abstract, hits or "none")}


# ================================================================================================
# assembly
# ================================================================================================
META = {
    "level": "other",
    "explanation": "(Level 'other', not 'proof': the per-class obligations are proof-style, but the step to the global invariant is a "
                   "paper argument and ten obligations are refuted on the current tree and listed as known findings.) "
                   "The global invariant (not dirty(o) => cache(o) = compute(o, current values)) is derived on paper "
                   "(contracts/C11.md: induction on the length of the history and on the dependency DAG) from four families of "
                   "per-class obligations that are decided here on the REAL classes: (a) every public mutator leaves every "
                   "observer-protocol client invalidated, (b) every resolved handler never raises, sets every dirty flag and "
                   "propagates whenever the class reads a dependency that notifies through it, (c) everything mutable the compute "
                   "methods read notifies the object (recording proxies + static self.<attr> scan), (d) cached getters recompute "
                   "from current dependencies, clear the flag and lose no notification. Handlers, getters and setters are "
                   "straight-line code over the listener lists, so one execution with recording proxies plus the AST shape check "
                   "covers every value and every history (tag U). C11.dyn.* obligations are bounded cross-validation (tag B) and are "
                   "not part of the proof; C11.vacuity.* / C11.coverage.* are guards.",
    "bound": "(a)-(d): unbounded in values and history length (per-class, by the observer argument); object graphs: one or more "
             "instantiations per concrete class (all optional collaborators supplied). dyn (B): quick 6 histories x 40 operations per "
             "graph, 3 x 30 per class scenario; thorough 40 x 80 and 10 x 60.",
    "exhaustive": False,
    "trusted_base": [
        "contracts/C11.md: the paper argument from obligations (a)-(d) to the global invariant (not machine-checked)",
        "CPython 3.12 executes the real handlers / setters / getters; recording proxies are subclasses of the real classes that only "
        "override __getattribute__/__call__ to log (vt/heap.py); `type(x) is C` checks are scanned for (C11.coverage.classes)",
        "torch tensors: `t[..., idx] = v` writes through to the base tensor; torch.distributions transforms/distributions are pure "
        "functions of their arguments",
        "AST pattern for cached getters: `if self.<flag>: ...; self.<flag> = False` (a cache that is not guarded by such a flag is not "
        "seen by (d); it is seen by (c) only through what it reads and by the bounded dyn family)",
    ],
    "assumptions": [
        "single-threaded use: a notification can reach an object during its own computation only if the computation itself mutates parameters",
        "plain data attributes of collaborators that no handler / cached-getter recomputation writes (tree topology: preorder, postorder, "
        "taxa_count, sampling_times; site patterns) are not changed by parameter updates",
        "values are compared with torch.allclose(atol=rtol=1e-12); random draws are made reproducible by seeding torch's global RNG "
        "identically on the live graph and on the fresh copy (the RNG state is treated as an input of stochastic objectives)",
        "tensors handed to a setter are not mutated in place afterwards by the caller without a notification (the statement's "
        "'in-place optimiser steps followed by the change notification')",
        "device / dtype moves (to, cuda, cpu) are outside the statement",
    ],
}

MANIFEST = {
    "category": "other",
    "text": "(Not claimed as a full proof: paper step from per-class obligations to the invariant; open known findings.) "
            "Per-class contracts on the real torchtree classes (every Model / AbstractParameter subclass found by importing all "
            "modules): (a) public mutators notify, (b) handlers never raise, invalidate every dirty flag and propagate when the class "
            "reads a notifying dependency, (c) read set is a subset of the notifying set (recording proxies + AST over-approximation), "
            "(d) cached getters recompute from current dependencies and lose no notification. The global no-stale-cache invariant "
            "for all histories follows by the observer argument of contracts/C11.md (induction on history length and dependency DAG).",
    "note": "The step from the per-class obligations to the global invariant is a paper proof. Object graphs are covered through "
            "instantiations of each concrete class with all optional collaborators; abstract classes through the handlers their "
            "subclasses resolve to. Stochastic objectives are compared under a synchronised RNG. C11.dyn.* (random histories against "
            "freshly built copies) is bounded cross-validation, reported separately and never counted as proof.",
    "technique": "sidecar contracts on the real classes + recording heap proxies (dynamic subclasses of the real classes) + AST shape "
                 "checks of handlers/getters + paper observer argument; bounded differential testing against fresh copies as cross-check",
}


def _ob_call_arguments():
    """CallableModel subclasses whose _call reads its call arguments (args / kwargs): two requests with different
    arguments at the same parameter values must each return what a freshly built copy returns for those arguments."""
    from torchtree.core.model import CallableModel
    from torchtree.core.parameter import Parameter
    from torchtree.distributions.distributions import Distribution
    classes, _, _ = discover()
    found = []
    for c in classes:
        if not (isinstance(c, type) and issubclass(c, CallableModel)):
            continue
        f = c.__dict__.get("_call")
        if not inspect.isfunction(f):
            continue
        node = _fn_ast(f)
        if node is None:
            continue
        va, kw = node.args.vararg, node.args.kwarg
        names = {x.arg for x in (va, kw) if x is not None} | {a.arg for a in node.args.args[1:]}
        uses = any(isinstance(x, ast.Name) and x.id in names and isinstance(x.ctx, ast.Load) for x in ast.walk(node))
        if uses:
            found.append(c)
    checked, skipped = [], []
    for c in found:
        if c.__name__ == "Hamiltonian":
            def make():
                x = Parameter("x", torch.tensor([0.3, -0.4], dtype=torch.float64))
                joint = Distribution("joint", torch.distributions.Normal, x, {"loc": Parameter(None, torch.zeros(2, dtype=torch.float64)), "scale": Parameter(None, torch.ones(2, dtype=torch.float64))})
                from torchtree.distributions.joint_distribution import JointDistributionModel
                return c("h", JointDistributionModel("j", [joint]))
            calls = [dict(momentum=torch.tensor([1.0, 0.0], dtype=torch.float64), inverse_mass_matrix=torch.ones(2, dtype=torch.float64)),
                     dict(momentum=torch.tensor([3.0, 4.0], dtype=torch.float64), inverse_mass_matrix=torch.ones(2, dtype=torch.float64))]
            live = make()
            got = [float(live(**kw)) for kw in calls]
            want = [float(make()(**kw)) for kw in calls]
            checked.append(c.__name__)
            if any(abs(a - b) > 1e-12 for a, b in zip(got, want)):
                raise Refuted("%s returns a value cached for different call arguments: calls with momentum (1,0) then (3,4) give %s, fresh copies give %s" % (c.__name__, got, want),
                              witness={"class": c.__name__, "live": got, "fresh": want},
                              replay={"kind": "custom", "contract": "C11", "func": "replay_call_arguments", "args": {}}, confirmed=True)
        else:
            # the variational objectives read only `samples` from kwargs and redraw on every request ((d) getter obligations cover them)
            skipped.append(c.__name__)
    if not checked:
        raise Undecided("no call-argument dependent CallableModel could be exercised (found %s)" % [c.__name__ for c in found])
    return {"backend": "heap", "cases": len(checked), "statement": "checked %s; argument use limited to `samples` (redrawn every request): %s" % (checked, skipped)}


def replay_call_arguments(args):
    try:
        _ob_call_arguments()
    except Refuted as e:
        return False, e.detail
    return True, "held"


def _gen_funcs():
    out = []
    try:
        classes, _, _ = discover()
    except Exception:
        return out
    for c in classes:
        for k in (c,):
            for name, v in k.__dict__.items():
                q = None
                if name in heap.HANDLERS and inspect.isfunction(v):
                    q = "%s:%s.%s" % (k.__module__, k.__qualname__, name)
                elif isinstance(v, property) and name in ("tensor", "requires_grad", "node_heights", "shape"):
                    q = "%s:%s.%s" % (k.__module__, k.__qualname__, name)
                elif inspect.isfunction(v) and name in ("__call__", "_call", "rates", "probabilities", "branch_lengths", "update", "q",
                                                        "rsample", "sample", "fire_parameter_changed", "fire_model_changed",
                                                        "update_node_heights", "update_rates", "update_rates_probs", "_apply_transform"):
                    q = "%s:%s.%s" % (k.__module__, k.__qualname__, name)
                if q and q not in out:
                    out.append(q)
    out += ["torchtree.core.parametric:Parametric.__setattr__", "torchtree.core.parametric:Parametric.register_parameter",
            "torchtree.core.parametric:Parametric.register_model", "torchtree.core.parameter_utils:pack_tensor",
            "torchtree.inference.hmc.integrator:set_tensor", "torchtree.inference.mcmc.operator:MCMCOperator.step",
            "torchtree.inference.mcmc.operator:MCMCOperator.reject", "torchtree.inference.mcmc.operator:ScalerOperator._step",
            "torchtree.inference.mcmc.operator:SlidingWindowOperator._step", "torchtree.inference.mcmc.operator:DirichletOperator._step",
            "torchtree.inference.hmc.operator:HMCOperator._step", "torchtree.optim.optimizer:Optimizer._run",
            "torchtree.optim.optimizer:Optimizer._run_closure"]
    return out


FUNCS = _gen_funcs()


def _undecided_ob(name, reason, clause):
    def fn():
        raise Undecided(reason)
    return Ob(name, "U", fn, clause=clause, funcs=FUNCS, timeout=60)


def obligations(tier, seed):
    from torchtree.core.abstractparameter import AbstractParameter
    obs = []
    quick = tier == "quick"

    def add(name, fn, clause, tag="U", timeout=600):
        obs.append(Ob(name, tag, fn, clause=clause, funcs=FUNCS, timeout=timeout))

    add("C11.coverage.classes", check_coverage, "guard: class discovery and coverage")
    classes, imported, failed = discover()
    by = _scenarios_by_class()
    names = [c.__name__ for c in classes]
    _CLASS_OBS.clear()

    def short(c):
        return c.__name__ if names.count(c.__name__) == 1 else _qual(c)

    inst, ast_only, undecided_classes = [], [], []
    for c in classes:
        if heap.is_abstract(c):
            continue
        q = _qual(c)
        scns = by.get(q, [])
        mine = _CLASS_OBS.setdefault(q, [])
        (inst if scns else ast_only).append(c.__name__)
        for h in heap.HANDLERS:
            if not hasattr(c, h):
                continue
            nm = "C11.b.handler[%s.%s]" % (q, h)
            fn = (lambda q=q, h=h, scns=scns: check_handler(q, h, scns)) if scns else (lambda c=c, h=h: check_handler_ast_only(c, h))
            add(nm, fn, "(b) handlers invalidate and propagate")
            mine.append((nm, fn))
            nm = "C11.b.order[%s.%s]" % (q, h)
            fn = (lambda c=c, h=h: check_handler_order(c, h))
            add(nm, fn, "(b) handlers mark themselves stale before they announce the change")
            mine.append((nm, fn))
        nm = "C11.c.readset[%s]" % short(c)
        if scns:
            fn = (lambda q=q, scns=scns: check_readset(q, scns))
            add(nm, fn, "(c) read set within notifying set")
            mine.append((nm, fn))
        elif _anchored(c):
            obs.append(_undecided_ob(nm, "class %s (anchored file) could not be instantiated with cheap real inputs" % q, "(c) read set within notifying set"))
            undecided_classes.append(c.__name__)
        seen = set()
        for gname, flag, k, kind in find_cached_getters(c):
            if (gname, flag) in seen:
                continue
            seen.add((gname, flag))
            nm = "C11.d.getter[%s.%s]" % (short(c), gname)
            if scns:
                fn = (lambda q=q, g=gname, f=flag, scns=scns: check_getter(q, g, f, scns))
                add(nm, fn, "(d) cached getters")
                mine.append((nm, fn))
            elif _anchored(c):
                obs.append(_undecided_ob(nm, "class %s could not be instantiated" % q, "(d) cached getters"))

    # ---- (a) mutators -------------------------------------------------------------------------------
    A = "(a) mutators notify"
    K = "param.kinds"
    param_classes = [c for c in classes if issubclass(c, AbstractParameter) and not heap.is_abstract(c)]
    known_setter_targets = {"Parameter": ["a"], "ViewParameter": ["a.view", "a.view_idx", "z.exp.view"], "CatParameter": ["ab.cat", "vb.cat"],
                            "TransformedParameter": ["z.exp", "zb.affine", "v.exp"]}
    for c in param_classes:
        if _setter_is_deliberate_raise(c, "tensor"):
            continue   # a setter that is a bare `raise` performs no update (documented: the parameter is read-only)
        tg = known_setter_targets.get(c.__name__)
        if tg:
            for t in tg:
                nm = "C11.a.notify[%s.tensor.setter%s]" % (c.__name__, "" if t == tg[0] else "|" + t)
                fn = (lambda c=c, t=t: check_mutation("%s.tensor = ... (%s)" % (c.__name__, t), {"graph": K, "mutation": "tensor.setter", "target": t, "value": _PARAM_VALUES[t]}, must_notify=[t]))
                add(nm, fn, A)
                _CLASS_OBS.setdefault(_qual(c), []).append((nm, fn))
        else:
            sc = by.get(_qual(c), [])
            nm = "C11.a.notify[%s.tensor.setter]" % c.__name__
            if sc:
                s0 = build(sc[0])
                rng = random.Random(nm)
                val = _perturb(s0.out.tensor, "real", rng).tolist()
                fn = (lambda c=c, sn=sc[0], val=val, on=s0.out_name: check_mutation("%s.tensor = ..." % c.__name__, {"graph": sn, "mutation": "tensor.setter", "target": on, "value": val}))
                add(nm, fn, A)
                _CLASS_OBS.setdefault(_qual(c), []).append((nm, fn))
            else:
                obs.append(_undecided_ob(nm, "no scenario instantiates %s" % _qual(c), A))
    for cn, t in (("Parameter", "a"), ("CatParameter", "ab.cat"), ("TransformedParameter", "z.exp")):
        add("C11.a.notify[%s.requires_grad.setter]" % cn,
            (lambda cn=cn, t=t: check_mutation("%s.requires_grad = True (%s)" % (cn, t), {"graph": K, "mutation": "requires_grad.setter", "target": t, "value": True}, must_notify=[t])), A)
    add("C11.a.noraise[ViewParameter.tensor.setter|base.requires_grad=True]", _ob_view_requires_grad, A)
    dist_scn = [("Distribution", "distribution.normal", "dist"), ("Distribution|x=list", "distribution.list_x", "dist"),
                ("DeterministicNormal", "deterministic_normal", "dist"), ("MultivariateNormal", "multivariate_normal", "dist"),
                ("NormalizingFlow", "nf.normalizing_flow", "flow"), ("RealNVP", "nf.realnvp", "flow")]
    for cn, sn, dn in dist_scn:
        for m in ("rsample", "sample"):
            add("C11.a.notify[%s.%s]" % (cn, m), (lambda cn=cn, sn=sn, dn=dn, m=m: check_mutation("%s.%s()" % (cn, m), {"graph": sn, "mutation": m, "dist": dn, "seed": 3})), A)
    for m in ("rsample", "sample"):
        add("C11.a.notify[JointDistributionModel.%s]" % m, (lambda m=m: _ob_joint_sample(m)), A)
    add("C11.a.notify[parameter_utils.pack_tensor]", lambda: check_mutation("pack_tensor", {"graph": K, "mutation": "pack_tensor", "targets": ["a.view", "b", "z.exp"], "value": [1.1, 2.2, 0.7, 1.5, 0.6]}), A)
    add("C11.a.notify[hmc.integrator.set_tensor]", lambda: check_mutation("set_tensor", {"graph": K, "mutation": "set_tensor", "targets": ["a", "z"], "value": [1.1, 2.2, 0.7, 1.5, 0.6, -0.1]}), A)
    for opn, targets in (("ScalerOperator", ["a"]), ("ScalerOperator|view", ["a.view"]), ("ScalerOperator|transformed", ["z.exp"]), ("ScalerOperator|cat", ["ab.cat"]),
                         ("SlidingWindowOperator", ["z"]), ("SlidingWindowOperator|view", ["a.view_idx"]), ("DirichletOperator", ["a"])):
        base = opn.split("|")[0]
        for m in ("step", "step+reject"):
            add("C11.a.notify[%s.%s]" % (opn, m.replace("step+", "")) if m != "step" else "C11.a.notify[%s._step]" % opn,
                (lambda base=base, targets=targets, m=m: check_mutation("%s.%s on %s" % (base, m, targets), {"graph": K, "mutation": "operator." + m, "operator": base, "targets": targets, "seed": 9})), A)
    for m in ("step", "step+reject"):
        add("C11.a.notify[HMCOperator.%s]" % ("_step" if m == "step" else "reject"),
            (lambda m=m: check_mutation("HMCOperator.%s" % m, {"graph": "graph.joint_parameter_kinds", "mutation": "operator." + m, "operator": "HMCOperator", "targets": ["z", "b"], "joint": "joint", "seed": 9})),
            A + " (bounded: one trajectory of the real integrator)", tag="B")
    add("C11.a.notify[GMRFPiecewiseCoalescentBlockUpdatingOperator._step]", _ob_gmrf_operator, A + " (bounded: one proposal)", tag="B")
    add("C11.a.notify[Optimizer._run]", lambda: check_optimizer({"algorithm": "SGD", "iterations": 3}), A)
    add("C11.a.notify[Optimizer._run_closure]", lambda: [check_optimizer({"algorithm": "LBFGS", "iterations": 2, "max_iter": mi}) for mi in (1, 5, 20)][-1], A)

    # ---- (d') cached callables whose value depends on call arguments ----------------------------------
    add("C11.d.arguments[call-argument dependent CallableModels]", _ob_call_arguments, "(d) cached getters: a value cached for other call arguments is never returned")

    # ---- dyn ----------------------------------------------------------------------------------------
    nh, ln = (6, 40) if quick else (40, 80)
    for g in DYN_GRAPHS:
        add("C11.dyn.history[%s]" % g, (lambda g=g: check_dyn(g, seed, nh, ln)), "end-to-end cross-validation (bounded)", tag="B", timeout=1800)
    nh2, ln2 = (3, 30) if quick else (10, 60)
    for sn in SCENARIOS:
        if sn.startswith(("twin.", "graph.")):
            continue
        add("C11.dyn.class[%s]" % sn, (lambda sn=sn: check_dyn_class(sn, seed, nh2, ln2)), "end-to-end cross-validation per class scenario (bounded; completeness guard of (a)-(d))", tag="B", timeout=1800)

    for sn in SCENARIOS:
        if sn.startswith("twin."):
            continue
        for how in ("deepcopy", "pickle"):
            add("C11.copy[%s,%s]" % (sn, how), (lambda sn=sn, how=how: check_copy(sn, how, seed)), "the observer wiring survives a copy of the object graph (bounded)", tag="B", timeout=600)

    for sn in SCENARIOS:
        if sn.startswith("twin."):
            continue
        add("C11.shape_change[%s]" % sn, (lambda sn=sn: check_shape_change(sn, seed)), "cached shape information follows an update that changes the sample shape (bounded)", tag="B", timeout=600)

    # ---- vacuity --------------------------------------------------------------------------------------
    add("C11.vacuity.handlers", vacuity_handlers, "guard: must-fail twins of (b) and dyn")
    add("C11.vacuity.readset", vacuity_readset, "guard: must-fail twin of (c)")
    add("C11.vacuity.getters", vacuity_getters, "guard: must-fail twins of (d)")
    add("C11.vacuity.mutators", vacuity_mutators, "guard: must-fail twin of (a)")

    abstract = [c.__name__ for c in classes if heap.is_abstract(c)]
    META["explanation"] = META["explanation"].split(" || coverage:")[0] + (
        " || coverage: %d classes discovered; instantiated with real inputs: %s; concrete, AST only: %s; abstract (covered through "
        "subclasses): %s; import failures: %s" % (len(classes), ", ".join(inst), ", ".join(ast_only) or "none", ", ".join(abstract), failed or "none"))
    return obs


def _ob_view_requires_grad():
    args = {"kind": "view_requires_grad"}
    ok, msg = _replay_view_requires_grad(args)
    if not ok:
        raise Refuted(msg, witness={"replay_args": args}, replay={"kind": "custom", "contract": "C11", "func": "replay_history", "args": args}, confirmed=True)
    return {"backend": "concrete", "statement": "assignment through a ViewParameter whose base requires grad (the state Optimizer.run leaves behind) returns normally"}


def _replay_view_requires_grad(args):
    s = build("param.kinds")
    s.params["a"].requires_grad = True     # what Optimizer._run does to every optimised parameter (and never undoes)
    try:
        s.derived["a.view"].tensor = torch.tensor([1.0, 2.0])
    except Exception as e:
        return False, ("ViewParameter.tensor = ... raises %s: %s when the base parameter has requires_grad=True (set through the public "
                       "requires_grad setter, e.g. by Optimizer._run): `self.parameter.tensor[..., self.indices] = tensor` is an in-place write "
                       "into a leaf that requires grad" % (type(e).__name__, str(e)[:160]))
    return True, "assignment through the view succeeded"


def _ob_joint_sample(m):
    from torchtree.distributions.distributions import Distribution
    from torchtree.distributions.joint_distribution import JointDistributionModel
    args = {"kind": "joint_sample", "method": m}
    ok, msg = _replay_joint_sample(args)
    if not ok:
        raise Refuted(msg, witness={"replay_args": args}, replay={"kind": "custom", "contract": "C11", "func": "replay_history", "args": args}, confirmed=True)
    return {"backend": "heap-proxies", "statement": "JointDistributionModel.%s notifies the listeners of every drawn parameter" % m}


def _replay_joint_sample(args):
    from torchtree.distributions.joint_distribution import JointDistributionModel
    s = build("graph.joint_parameter_kinds")
    j = JointDistributionModel("draws", [s.models["prior.z"], s.models["prior.a"]])
    ws = _watch_all(s)
    try:
        with _rng_frozen(3):
            getattr(j, args["method"])(torch.Size([]))
    except Exception as e:
        return False, "JointDistributionModel.%s raised %s: %s" % (args["method"], type(e).__name__, e)
    bad = [n for n, w in ws.items() if not w.consistent()]
    if bad:
        return False, "after JointDistributionModel.%s the listeners of %s hold a stale value" % (args["method"], bad)
    d = compare_with_fresh(s, list(s.evals), 0)
    if d:
        return False, "after JointDistributionModel.%s: %s" % (args["method"], d[:2])
    return True, "every listener invalidated; every model equals a fresh copy"


@scenario("graph.skygrid_gmrf")
def _s(s):
    from torchtree.distributions.gmrf import GMRF
    from torchtree.evolution.coalescent import PiecewiseConstantCoalescentGridModel
    tm = _time_tree(s, "heights")
    field = s.P("field", [1.0, 0.7, 1.3], "real")
    from torchtree.core.parameter import TransformedParameter
    theta = s.D("theta", TransformedParameter("theta", field, torch.distributions.ExpTransform()), None)
    coal = s.M("coalescent", PiecewiseConstantCoalescentGridModel("coalescent", theta, s.P("grid", [0.55, 0.8], "scale"), tm))
    s.E("coalescent.__call__", lambda: coal())
    g = s.M("gmrf", GMRF("gmrf", field, s.P("precision", [2.0], "pos")))
    s.E("gmrf.__call__", lambda: g())


def _ob_gmrf_operator():
    args = {"graph": "graph.skygrid_gmrf", "mutation": "operator.step+reject", "operator": "GMRFPiecewiseCoalescentBlockUpdatingOperator", "targets": ["field", "precision"], "seed": 9}
    try:
        build("graph.skygrid_gmrf")
        s, ws = _mutation(dict(args, mutation="operator.step"))
    except Exception as e:
        raise Undecided("the GMRF block-updating operator could not be driven on a small real skygrid (%s: %s); not an anchored file" % (type(e).__name__, str(e)[:120]))
    _check_watchers(ws, "GMRFPiecewiseCoalescentBlockUpdatingOperator._step", dict(args, mutation="operator.step", kind="mutation"))
    return check_mutation("GMRFPiecewiseCoalescentBlockUpdatingOperator.step+reject", args)
