"""C14 — variational objectives are exact at the true posterior (DESIGN 4, C14).

Contracts on the REAL objective classes (ELBO, KLpq, VR, CUBO) with p and q replaced by contract stubs:
   requires  after a draw, p() = LP and q() = LQ are tensors of the sample shape with LP[s] − LQ[s] ≡ c
             (the conjugacy hypothesis: q is the exact posterior, c = log marginal likelihood)
   ensures   objective._call() ≡ c                                     (every sample shape [S], [S,K])
   protocol  inside _call the draw precedes both evaluations, both are evaluated after the same draw,
             and every evaluation REQUEST (objective()) performs a fresh draw.
Plus a bounded end-to-end stand-in with real torchtree Distribution / JointDistributionModel objects on real
conjugate pairs (gamma-exponential, normal-normal), concrete draws.
"""
import itertools
import math

import torch

from vt import nf
from vt.cond import Undecided
from vt.runner import Ob, Refuted
from vt.scenario import el, scenario_ob

FUNCS = [
    "torchtree.variational.kl:ELBO._call",
    "torchtree.variational.kl:KLpq._call",
    "torchtree.variational.renyi:VR._call",
    "torchtree.variational.chi:CUBO._call",
    "torchtree.core.model:CallableModel.__call__",
    "torchtree.distributions.distributions:Distribution.rsample",
    "torchtree.distributions.distributions:Distribution.sample",
    "torchtree.distributions.distributions:Distribution._call",
    "torchtree.distributions.joint_distribution:JointDistributionModel.log_prob",
]

META = {
    "level": "other",
    "explanation": "With p and q abstracted by the conjugacy contract (LP − LQ ≡ c elementwise, LQ arbitrary symbolic), each "
                   "objective's value is proved identical to c for every sample shape [S], [S,K] with S,K in 1..5 (quick 1..3): "
                   "the property's bound, all draws at once. The draw/evaluate protocol is checked on the real classes with "
                   "recording stubs. The analytic-entropy ELBO is exact only in expectation and is not decided. Real conjugate "
                   "models are a bounded, concrete stand-in (tag B).",
    "bound": "sample shapes [S], [S,K], S,K in 1..3 quick / 1..5 thorough; conjugate stand-in: 2 models x 3 draws",
    "trusted_base": [
        "p and q replaced by contract stubs (conjugacy hypothesis as precondition)",
        "torch.distributions densities and samplers in the bounded stand-in",
        "real arithmetic; logsumexp unfolded as log Σ exp",
    ],
    "assumptions": ["machine arithmetic treated as mathematical (reals)"],
}

MANIFEST = {
    "category": "other",
    "text": "The real ELBO (Monte-Carlo entropy and multi-sample), KLpq, VR and CUBO `_call` methods are executed on symbolic "
            "log-densities constrained by the conjugacy hypothesis and proved equal to the log marginal likelihood for every "
            "enumerated sample shape; the draw-then-evaluate protocol and the fresh-draw-per-request clause are checked on the "
            "real objects. Known findings record the shapes / call sequences where the code departs from the statement.",
    "note": "p and q are contract stubs; analytic-entropy ELBO not decided (exact only in expectation); conjugate real-model runs are bounded.",
    "technique": "sidecar contracts + symbolic execution of the real objectives under the conjugacy precondition + exact normal form; recording stubs for the protocol",
}


def _stubs(mk, sample_shape, fire=True):
    """contract stubs for q (DistributionModel) and p (CallableModel)"""
    from torchtree.core.model import CallableModel
    from torchtree.distributions.distributions import DistributionModel
    log = []
    state = {"draw": 0}
    c = mk.real("c", ())
    LQs = {}

    def lq_for(draw, shape):
        key = (draw, tuple(shape))
        if key not in LQs:
            LQs[key] = mk.real("LQ%d" % draw, tuple(shape))
        return LQs[key]

    class Q(DistributionModel):
        def __init__(self):
            super().__init__("q")
            self.shape = None

        def rsample(self, sample_shape=torch.Size()):
            state["draw"] += 1
            self.shape = tuple(sample_shape)
            log.append(("draw", state["draw"], tuple(sample_shape)))
            if fire:
                self.lp_needs_update = True
                self.fire_model_changed(self)

        sample = rsample

        def log_prob(self, x=None):
            return self._call()

        def entropy(self):
            raise NotImplementedError

        def _call(self, *a, **k):
            log.append(("q", state["draw"]))
            return lq_for(state["draw"], self.shape)

        def _sample_shape(self):
            return torch.Size(self.shape or ())

        def handle_parameter_changed(self, *a):
            pass

        @classmethod
        def from_json(cls, data, dic):
            raise NotImplementedError

    q = Q()

    class P(CallableModel):
        def __init__(self):
            super().__init__("p")

        def _call(self, *a, **k):
            log.append(("p", state["draw"]))
            return lq_for(state["draw"], q.shape) + c

        def __call__(self, *a, **k):
            # the joint listens to the parameters the draw writes: always re-evaluated after a draw
            return self._call()

        def _sample_shape(self):
            return torch.Size(q.shape or ())

        def handle_parameter_changed(self, *a):
            pass

        @classmethod
        def from_json(cls, data, dic):
            raise NotImplementedError

    # q is re-evaluated after each draw as well (its x changed)
    Q.__call__ = lambda self, *a, **k: self._call()
    return q, P(), c, log, state


def make_objective(kind, q, p, samples):
    from torchtree.variational.chi import CUBO
    from torchtree.variational.kl import ELBO, KLpq
    from torchtree.variational.renyi import VR
    samples = torch.Size(samples)
    if kind == "ELBO":
        return ELBO("o", q, p, samples)
    if kind == "KLpq":
        return KLpq("o", q, p, samples)
    if kind == "VR0":
        return VR("o", q, p, samples, 0.0)
    if kind == "VR0.5":
        return VR("o", q, p, samples, 0.5)
    if kind == "CUBO":
        return CUBO("o", q, p, samples, torch.tensor(2.0))
    raise ValueError(kind)


def scn_value(kind, samples, built_with=None):
    """built_with: sample shape given to the constructor when it differs from the one passed at evaluation time
    (`objective(samples=...)`, as optim/convergence.py does)"""
    samples = tuple(samples)

    def scn(mk):
        q, p, c, log, state = _stubs(mk, samples)
        if built_with is None:
            obj = make_objective(kind, q, p, samples)
            val = obj._call()
        else:
            obj = make_objective(kind, q, p, tuple(built_with))
            val = obj._call(samples=torch.Size(samples))
        return [("true", "scalar_result", tuple(val.shape) == (), str(tuple(val.shape))),
                ("eq", "objective_is_log_marginal", val, [el(c)] if tuple(val.shape) == () else c)]
    return scn


def ob_protocol(kind, samples):
    def body():
        from vt.scenario import MkNum
        env = {"c": 0.7}
        for d in range(1, 6):
            for ix in itertools.product(*[range(s) for s in samples]):
                env["LQ%d[%s]" % (d, ",".join(map(str, ix)))] = -1.0 - 0.1 * d - 0.01 * sum(ix)
        mk = MkNum(env)
        q, p, c, log, state = _stubs(mk, samples)
        obj = make_objective(kind, q, p, samples)
        obj._call()
        kinds = [e[0] for e in log]
        if kinds.count("draw") != 1 or kinds[0] != "draw":
            raise Refuted("%s._call: expected exactly one draw before the evaluations, got %s" % (kind, log), witness={"log": [list(e) for e in log]}, confirmed=True)
        if "p" not in kinds or "q" not in kinds:
            raise Refuted("%s._call: p and q must both be evaluated after the draw: %s" % (kind, log), witness={"log": [list(e) for e in log]}, confirmed=True)
        if any(e[1] != 1 for e in log if e[0] in ("p", "q")):
            raise Refuted("%s._call: evaluation at a different draw: %s" % (kind, log), witness={"log": [list(e) for e in log]}, confirmed=True)
        return {"backend": "heap", "statement": "%s: draw precedes p() and q(), same draw" % kind}
    return Ob("C14.protocol.order.%s[samples=%s]" % (kind, list(samples)), "U", body, clause="draw/evaluate protocol", funcs=FUNCS)


def ob_fresh_draw(kind, samples):
    def body():
        from vt.scenario import MkNum
        env = {"c": 0.7}
        for d in range(1, 6):
            for ix in itertools.product(*[range(s) for s in samples]):
                env["LQ%d[%s]" % (d, ",".join(map(str, ix)))] = -1.0 - 0.1 * d - 0.01 * sum(ix)
        mk = MkNum(env)
        q, p, c, log, state = _stubs(mk, samples)
        obj = make_objective(kind, q, p, samples)
        # every evaluation REQUEST draws fresh samples
        v1 = obj()
        n1 = state["draw"]
        v2 = obj()
        n2 = state["draw"]
        if n1 != 1 or n2 != 2:
            raise Refuted("%s: two evaluation requests performed %d then %d draws in total: the second request returned the cached value %r without drawing"
                          % (kind, n1, n2, float(v2)), witness={"draws_after_first": n1, "draws_after_second": n2},
                          replay={"kind": "custom", "contract": "C14", "func": "replay_second_call", "args": {"objective": kind, "samples": list(samples)}}, confirmed=_real_second_call(kind))
        return {"backend": "heap", "statement": "%s: fresh draw per evaluation request" % kind}
    return Ob("C14.protocol.fresh_draw.%s[samples=%s]" % (kind, list(samples)), "U", body, clause="each evaluation request draws fresh samples", funcs=FUNCS)


def _real_objects(samples, seed=0):
    """real torchtree objects: gamma prior on a rate, exponential likelihood, q = exact posterior"""
    from torchtree.core.parameter import Parameter
    from torchtree.distributions.distributions import Distribution
    from torchtree.distributions.joint_distribution import JointDistributionModel
    torch.manual_seed(seed)
    a, b = 2.0, 1.5
    data = torch.tensor([0.3, 1.2, 0.7, 2.1], dtype=torch.float64)
    n = len(data)
    lam = Parameter("lam", torch.tensor([1.0], dtype=torch.float64))
    prior = Distribution("prior", torch.distributions.Gamma, lam, {"concentration": Parameter(None, torch.tensor([a], dtype=torch.float64)), "rate": Parameter(None, torch.tensor([b], dtype=torch.float64))})
    like = Distribution("like", torch.distributions.Exponential, Parameter("data", data), {"rate": lam})
    joint = JointDistributionModel("joint", [prior, like])
    qd = Distribution("q", torch.distributions.Gamma, lam, {"concentration": Parameter(None, torch.tensor([a + n], dtype=torch.float64)), "rate": Parameter(None, torch.tensor([b + float(data.sum())], dtype=torch.float64))})
    q = JointDistributionModel("var", [qd])
    logz = a * math.log(b) - math.lgamma(a) + math.lgamma(a + n) - (a + n) * math.log(b + float(data.sum()))
    return joint, q, qd, logz


def _real_second_call(kind):
    try:
        joint, q, qd, logz = _real_objects((3,))
        obj = make_objective(kind, q, joint, (3,))
        obj()
        x1 = qd.x.tensor.clone()
        obj()
        x2 = qd.x.tensor.clone()
        return bool(torch.equal(x1, x2))
    except Exception:
        return None


def replay_second_call(args):
    same = _real_second_call(args["objective"])
    return (not same), ("second request reused the first draw (cached value returned)" if same else "second request drew fresh samples")


def ob_conjugate(kind, samples, wrap):
    """bounded stand-in on real objects (wrap=True: q wrapped in a JointDistributionModel as the CLI does;
    wrap=False: bare univariate Distribution as q)"""
    def body():
        worst = 0.0
        for seed in range(3):
            joint, q, qd, logz = _real_objects(samples, seed)
            qq = q if wrap else qd
            obj = make_objective(kind, qq, joint, samples)
            try:
                val = obj._call()
            except Exception as e:
                return {"backend": "concrete", "statement": "unsupported combination raises (%s): acceptable (C10)" % type(e).__name__, "trivial": True}
            if val.numel() != 1:
                raise Refuted("%s returns a tensor of shape %s" % (kind, tuple(val.shape)), witness={"shape": list(val.shape)}, confirmed=True)
            err = abs(float(val) - logz)
            worst = max(worst, err)
            if err > 1e-8 * max(1, abs(logz)):
                raise Refuted("%s with the exact posterior (gamma-exponential, samples=%s, q %s) returns %r, log marginal likelihood is %r"
                              % (kind, list(samples), "wrapped in a joint" if wrap else "a bare univariate Distribution", float(val), logz),
                              witness={"objective": kind, "samples": list(samples), "wrap": wrap, "seed": seed, "value": float(val), "log_marginal": logz},
                              replay={"kind": "custom", "contract": "C14", "func": "replay_conjugate", "args": {"objective": kind, "samples": list(samples), "wrap": wrap, "seed": seed}}, confirmed=True)
        return {"backend": "concrete", "cases": 3, "statement": "max abs error %.2e" % worst}
    return Ob("C14.conjugate.%s.%s[samples=%s]" % ("joint_q" if wrap else "bare_q", kind, list(samples)), "B", body, clause="real conjugate model (bounded)", funcs=FUNCS)


def ob_conjugate_sequence(kind):
    """real objects, q moved to the posterior AFTER earlier evaluations (public setters), then evaluated repeatedly:
    every value is the log marginal and every request uses fresh draws shared by p and q"""
    def body():
        from torchtree.core.parameter import Parameter
        joint, q, qd, logz = _real_objects((4,), 0)
        post_conc = qd.dict_parameters["concentration"].tensor.clone()
        post_rate = qd.dict_parameters["rate"].tensor.clone()
        qd.dict_parameters["concentration"].tensor = torch.tensor([1.0], dtype=torch.float64)
        qd.dict_parameters["rate"].tensor = torch.tensor([1.0], dtype=torch.float64)
        obj = make_objective(kind, q, joint, (4,))
        torch.manual_seed(3)
        obj(); obj()
        qd.dict_parameters["concentration"].tensor = post_conc
        qd.dict_parameters["rate"].tensor = post_rate
        draws = []
        for k in range(3):
            v = float(obj())
            x = qd.x.tensor.detach().clone()
            lp_model = float(torch.logsumexp(torch.zeros(1), 0))  # placeholder to keep structure simple
            # densities recomputed from scratch at the stored draws
            lam = x.reshape(-1)
            from_scratch_q = torch.distributions.Gamma(post_conc, post_rate).log_prob(lam.unsqueeze(-1)).reshape(-1)
            if abs(v - logz) > 1e-8 * max(1, abs(logz)):
                raise Refuted("%s after q was moved to the posterior: evaluation %d returns %r, log marginal %r" % (kind, k + 1, v, logz),
                              witness={"objective": kind, "evaluation": k + 1, "value": v, "log_marginal": logz},
                              replay={"kind": "custom", "contract": "C14", "func": "replay_conjugate_sequence", "args": {"objective": kind}}, confirmed=True)
            if not torch.allclose(q().reshape(-1), from_scratch_q, atol=1e-10):
                raise Refuted("%s: q() is not the variational density at the stored draws (stale)" % kind, witness={"objective": kind},
                              replay={"kind": "custom", "contract": "C14", "func": "replay_conjugate_sequence", "args": {"objective": kind}}, confirmed=True)
            if draws and torch.equal(draws[-1], x):
                raise Refuted("%s: evaluation %d did not draw fresh samples" % (kind, k + 1), witness={"objective": kind},
                              replay={"kind": "custom", "contract": "C14", "func": "replay_conjugate_sequence", "args": {"objective": kind}}, confirmed=True)
            draws.append(x)
        return {"backend": "concrete", "cases": 3, "statement": "gamma-exponential, q set to the posterior after two evaluations: three further evaluations equal log Z on fresh shared draws"}
    return Ob("C14.conjugate.sequence.%s" % kind, "B", body, clause="real conjugate model, q moved to the posterior between evaluations (bounded)", funcs=FUNCS)


def _real_objects_transformed(naming="unique"):
    """conjugate model expressed through a constraining transform WITH its Jacobian term in the joint (as the CLI builds models):
    z unconstrained, theta = exp(z) (TransformedParameter), theta ~ LogNormal(m0, s0), y_i ~ LogNormal(z, sigma); joint = prior + likelihood +
    log|d theta/dz| (the TransformedParameter itself).  On the z scale this is normal-normal: q = exact posterior Normal(mu_n, tau_n^-1/2)."""
    from torchtree.core.parameter import Parameter, TransformedParameter
    from torchtree.distributions.distributions import Distribution
    from torchtree.distributions.joint_distribution import JointDistributionModel
    t64 = lambda v: torch.tensor(v, dtype=torch.float64)
    m0, s0, sigma = 0.3, 0.8, 0.6
    y = t64([1.7, 0.4, 2.9, 1.1, 0.8])
    n = y.numel()
    ly = y.log()
    # naming of the components of the joint: ids are user-chosen strings (or absent): the joint must hold every term whatever they are
    ids = {"unique": ("theta", "prior", "like", "q"), "anonymous": (None, None, None, None), "same_name": ("theta", "theta", "like", "z")}[naming]
    z = Parameter("z", t64([0.1]))
    theta = TransformedParameter(ids[0], z, torch.distributions.ExpTransform())
    prior = Distribution(ids[1], torch.distributions.LogNormal, theta, {"loc": Parameter("m0", t64([m0])), "scale": Parameter("s0", t64([s0]))})
    like = Distribution(ids[2], torch.distributions.LogNormal, Parameter("y", y), {"loc": z, "scale": Parameter("sigma", t64([sigma]))})
    joint = JointDistributionModel("joint", [prior, like, theta])
    tau = 1.0 / s0 ** 2 + n / sigma ** 2
    mu = (m0 / s0 ** 2 + float(ly.sum()) / sigma ** 2) / tau
    q = JointDistributionModel("var", [Distribution(ids[3], torch.distributions.Normal, z, {"loc": Parameter("qm", t64([mu])), "scale": Parameter("qs", t64([1.0 / math.sqrt(tau)]))})])
    cov = sigma ** 2 * torch.eye(n, dtype=torch.float64) + s0 ** 2 * torch.ones(n, n, dtype=torch.float64)
    logz = float(-ly.sum() + torch.distributions.MultivariateNormal(torch.full((n,), m0, dtype=torch.float64), covariance_matrix=cov).log_prob(ly))
    return joint, q, z, logz


def ob_conjugate_transformed(kind, naming="unique"):
    """real objects, model with a constraining transform and its Jacobian term: the objective equals the log marginal on EVERY evaluation
    request (the Jacobian term must be that of the current draw, whoever read the transformed value first)"""
    def body():
        joint, q, z, logz = _real_objects_transformed(naming)
        n = 0
        for samples in ((4,), (3,), (4,)):
            obj = make_objective(kind, q, joint, samples) if n == 0 or True else None
            break
        obj = make_objective(kind, q, joint, (4,))
        torch.manual_seed(5)
        prev = None
        for k in range(4):
            v = float(obj())
            draw = z.tensor.detach().clone()
            if abs(v - logz) > 1e-8 * max(1.0, abs(logz)):
                raise Refuted("%s on the exp-transformed normal-normal model with q = posterior: evaluation %d returns %r, log marginal %r"
                              % (kind, k + 1, v, logz), witness={"objective": kind, "evaluation": k + 1, "value": v, "log_marginal": logz},
                              replay={"kind": "custom", "contract": "C14", "func": "replay_conjugate_transformed", "args": {"objective": kind, "naming": naming}}, confirmed=True)
            if prev is not None and torch.equal(prev, draw):
                raise Refuted("%s: evaluation %d did not draw fresh samples" % (kind, k + 1), witness={"objective": kind}, confirmed=True)
            prev = draw
            n += 1
        return {"backend": "concrete", "cases": n, "statement": "exp-transformed normal-normal model (Jacobian term in the joint), q = posterior: %d consecutive evaluations equal log Z" % n}
    return Ob("C14.conjugate.transformed.%s%s" % (kind, "" if naming == "unique" else "[ids=%s]" % naming), "B", body, clause="real conjugate model with a constraining transform and its Jacobian in the joint, repeated evaluation (bounded)", funcs=FUNCS)


def ob_conjugate_large_data():
    """data sets large enough that the log marginal likelihood is far below log(smallest normal double) ~ -708 (and positive-large for a
    sharply peaked one): every objective still equals it (gamma-Poisson with 400 / 3000 observations, q = exact posterior)"""
    def body():
        from torchtree.core.parameter import Parameter
        from torchtree.distributions.distributions import Distribution
        from torchtree.distributions.joint_distribution import JointDistributionModel
        t64 = lambda v: torch.tensor(v, dtype=torch.float64)
        n = 0
        for N in (400, 3000):
            g = torch.Generator().manual_seed(N)
            data = torch.poisson(torch.full((N,), 7.5, dtype=torch.float64), generator=g)
            a, b = 2.0, 0.5
            lam = Parameter("lam", t64([5.0]))
            prior = Distribution("prior", torch.distributions.Gamma, lam, {"concentration": Parameter(None, t64([a])), "rate": Parameter(None, t64([b]))})
            like = Distribution("like", torch.distributions.Poisson, Parameter("data", data), {"rate": lam})
            joint = JointDistributionModel("joint", [prior, like])
            A, B = a + float(data.sum()), b + N
            q = JointDistributionModel("var", [Distribution("q", torch.distributions.Gamma, lam, {"concentration": Parameter(None, t64([A])), "rate": Parameter(None, t64([B]))})])
            logz = a * math.log(b) - math.lgamma(a) + math.lgamma(A) - A * math.log(B) - float(torch.lgamma(data + 1).sum())
            if logz > -750:
                raise Undecided("the data set is not large enough: log Z = %r" % logz)
            for kind in ("ELBO", "KLpq", "VR0.5", "CUBO"):
                obj = make_objective(kind, q, joint, (5,))
                torch.manual_seed(3)
                v = float(obj())
                n += 1
                if not (v == v) or abs(v - logz) > 1e-8 * abs(logz):
                    raise Refuted("%s, gamma-Poisson with %d observations, q = posterior: returns %r, log marginal likelihood %r" % (kind, N, v, logz),
                                  witness={"objective": kind, "observations": N, "value": v, "log_marginal": logz},
                                  replay={"kind": "custom", "contract": "C14", "func": "replay_conjugate_large_data", "args": {}}, confirmed=True)
        return {"backend": "concrete", "cases": n, "statement": "%d evaluations on data sets with log Z < -750: every objective equals log Z to 1e-8" % n}
    return Ob("C14.conjugate.large_data", "B", body, clause="exact at the true posterior also when the log marginal likelihood is below the logarithm of the smallest double (bounded)", funcs=FUNCS)


def ob_conjugate_shipped(kind):
    """conjugate pairs written with the distributions torchtree ships (torchtree.distributions.normal.Normal with its `precision`
    parameterisation, inverse_gamma.InverseGamma), over hyper-parameters of very different magnitude (a vague prior has precision 1e-10):
    every objective equals the closed-form log marginal likelihood"""
    def body():
        from torchtree.core.parameter import Parameter
        from torchtree.distributions.distributions import Distribution
        from torchtree.distributions.inverse_gamma import InverseGamma
        from torchtree.distributions.joint_distribution import JointDistributionModel
        from torchtree.distributions.normal import Normal
        t64 = lambda v: torch.tensor(v, dtype=torch.float64)
        P = lambda v: Parameter(None, t64([v]))
        y = t64([0.3, -1.1, 0.8, 2.0, 0.1])
        n_obs = len(y)
        n = 0
        configs = []
        if kind == "normal.precision":
            for t0 in (1e-10, 1e-8, 1e-6, 1e-3, 1.0, 1e4):
                for tau in (0.25, 40.0):
                    configs.append((t0, tau))
        else:
            for a, b in ((1e-3, 1e-3), (2.0, 3.0), (50.0, 0.02), (0.5, 400.0)):
                configs.append((a, b))
        for cfg in configs:
            if kind == "normal.precision":
                t0, tau = cfg
                m0 = 0.7
                mu = Parameter("mu", t64([0.2]))
                prior = Distribution("prior", Normal, mu, {"loc": P(m0), "precision": P(t0)})
                like = Distribution("like", Normal, Parameter("y", y), {"loc": mu, "precision": P(tau)})
                tn = t0 + n_obs * tau
                mn = (t0 * m0 + tau * float(y.sum())) / tn
                q = JointDistributionModel("var", [Distribution("q", Normal, mu, {"loc": P(mn), "precision": P(tn)})])
                # log Z = log N(y | m0 1, tau^-1 I + t0^-1 11') in closed form (matrix determinant lemma / Sherman-Morrison)
                r = y - m0
                quad = tau * float((r * r).sum()) - (tau * float(r.sum())) ** 2 / tn
                logz = -0.5 * n_obs * math.log(2 * math.pi) + 0.5 * n_obs * math.log(tau) + 0.5 * math.log(t0) - 0.5 * math.log(tn) - 0.5 * quad
                cur = mu
            else:
                a, b = cfg
                m = 0.4
                v = Parameter("v", t64([1.3]))
                prior = Distribution("prior", InverseGamma, v, {"concentration": P(a), "rate": P(b)})

                class NormalVar(torch.distributions.Normal):
                    def __init__(self, loc, variance, validate_args=None):
                        super().__init__(loc, variance.sqrt(), validate_args=validate_args)
                like = Distribution("like", NormalVar, Parameter("y", y), {"loc": P(m), "variance": v})
                an = a + 0.5 * n_obs
                bn = b + 0.5 * float(((y - m) ** 2).sum())
                q = JointDistributionModel("var", [Distribution("q", InverseGamma, v, {"concentration": P(an), "rate": P(bn)})])
                logz = -0.5 * n_obs * math.log(2 * math.pi) + a * math.log(b) - math.lgamma(a) + math.lgamma(an) - an * math.log(bn)
                cur = v
            joint = JointDistributionModel("joint", [prior, like])
            for okind in ("ELBO", "KLpq", "VR0.5", "CUBO"):
                for samples in ((1,), (4,), (3, 2)):
                    if okind == "KLpq" and len(samples) > 1:
                        continue                       # open finding C14.value2d.KLpq (multi-sample shapes)
                    obj = make_objective(okind, q, joint, samples)
                    torch.manual_seed(5)
                    try:
                        val = float(obj())
                    except Exception as e:
                        from vt.scenario import _raised_in_repo
                        if _raised_in_repo(e):
                            raise Refuted("%s, %s with hyper-parameters %s, samples %s: raises %s: %s" % (okind, kind, cfg, samples, type(e).__name__, e),
                                          witness={"objective": okind, "kind": kind, "config": list(cfg)}, confirmed=True,
                                          replay={"kind": "custom", "contract": "C14", "func": "replay_conjugate_shipped", "args": {"kind": kind}})
                        raise
                    n += 1
                    if not (val == val) or abs(val - logz) > 1e-8 * max(1.0, abs(logz)):
                        raise Refuted("%s, %s with hyper-parameters %s, q = posterior, samples %s: returns %r, log marginal likelihood %r" % (okind, kind, cfg, samples, val, logz),
                                      witness={"objective": okind, "kind": kind, "config": list(cfg), "value": val, "log_marginal": logz}, confirmed=True,
                                      replay={"kind": "custom", "contract": "C14", "func": "replay_conjugate_shipped", "args": {"kind": kind}})
        return {"backend": "concrete", "cases": n, "bounded": "%d hyper-parameter settings, 5 observations, sample shapes (1,), (4,), (3,2)" % len(configs),
                "statement": "%s: %d evaluations equal the closed-form log marginal likelihood (1e-8)" % (kind, n)}
    return Ob("C14.conjugate.shipped[%s]" % kind, "B", body, clause="exact at the true posterior for the shipped distributions over vague and sharp hyper-parameters (bounded)", funcs=FUNCS)


def ob_conjugate_many_terms(naming):
    """a joint density made of MANY terms (a prior and five blocks of observations) whose objects carry no id, or all the same id: every term
    is in the joint exactly once, and every objective equals the closed-form log marginal likelihood (gamma-Poisson, q = posterior)"""
    def body():
        from torchtree.core.parameter import Parameter
        from torchtree.distributions.distributions import Distribution
        from torchtree.distributions.joint_distribution import JointDistributionModel
        t64 = lambda v: torch.tensor(v, dtype=torch.float64)
        ident = (lambda k: None) if naming == "anonymous" else (lambda k: "term") if naming == "same_name" else (lambda k: "term%d" % k)
        a, b = 2.0, 0.5
        blocks = [[3.0, 5.0], [4.0], [6.0, 2.0, 7.0], [1.0, 9.0], [5.0]]
        lam = Parameter("lam", t64([4.0]))
        terms = [Distribution(ident(0), torch.distributions.Gamma, lam, {"concentration": Parameter(None, t64([a])), "rate": Parameter(None, t64([b]))})]
        for k, blk in enumerate(blocks):
            terms.append(Distribution(ident(k + 1), torch.distributions.Poisson, Parameter(None, t64(blk)), {"rate": lam}))
        joint = JointDistributionModel("joint", terms)
        data = [v for blk in blocks for v in blk]
        A, B = a + sum(data), b + len(data)
        q = JointDistributionModel("var", [Distribution("q", torch.distributions.Gamma, lam, {"concentration": Parameter(None, t64([A])), "rate": Parameter(None, t64([B]))})])
        logz = a * math.log(b) - math.lgamma(a) + math.lgamma(A) - A * math.log(B) - sum(math.lgamma(v + 1) for v in data)
        lam.tensor = t64([3.3])
        total = float(sum(float(t().sum()) for t in terms))
        n = 1
        if abs(float(joint().sum()) - total) > 1e-10 * abs(total):
            raise Refuted("joint density of %d %s terms is %r, the sum of its terms is %r" % (len(terms), naming, float(joint().sum()), total),
                          witness={"naming": naming, "terms": len(terms)}, confirmed=True,
                          replay={"kind": "custom", "contract": "C14", "func": "replay_conjugate_many_terms", "args": {"naming": naming}})
        for okind in ("ELBO", "KLpq", "VR0.5", "CUBO"):
            for samples in ((1,), (4,)):
                obj = make_objective(okind, q, joint, samples)
                torch.manual_seed(9)
                val = float(obj())
                n += 1
                if not (val == val) or abs(val - logz) > 1e-8 * abs(logz):
                    raise Refuted("%s with a joint of %d %s terms, q = posterior, samples %s: returns %r, log marginal likelihood %r" % (okind, len(terms), naming, samples, val, logz),
                                  witness={"objective": okind, "naming": naming, "value": val, "log_marginal": logz}, confirmed=True,
                                  replay={"kind": "custom", "contract": "C14", "func": "replay_conjugate_many_terms", "args": {"naming": naming}})
        return {"backend": "concrete", "cases": n, "statement": "joint of 6 %s terms: equals the sum of its terms; 8 objective evaluations equal log Z" % naming}
    return Ob("C14.conjugate.many_terms[ids=%s]" % naming, "B", body, clause="exact at the true posterior for a joint of many terms (bounded)", funcs=FUNCS)


def replay_conjugate_many_terms(args):
    try:
        ob_conjugate_many_terms(args["naming"]).fn()
    except Refuted as e:
        return False, e.detail
    return True, "held"


def ob_conjugate_mvn_tril(dim):
    """the full-covariance Gaussian family as the command line builds it: MultivariateNormal(scale_tril = TransformedParameter(unconstrained,
    TrilExpDiagonalTransform)); q is SET to the posterior through the transformed parameter (tril.tensor = cholesky(posterior covariance)) for a
    correlated normal-normal model: the family then IS the posterior and every objective equals the closed-form log marginal likelihood"""
    def body():
        from torchtree.core.parameter import Parameter, TransformedParameter
        from torchtree.distributions.joint_distribution import JointDistributionModel
        from torchtree.distributions.multivariate_normal import MultivariateNormal
        from torchtree.distributions.transforms import TrilExpDiagonalTransform
        t64 = lambda v: torch.tensor(v, dtype=torch.float64)
        g = torch.Generator().manual_seed(dim)
        Amat = torch.randn(dim, dim, generator=g, dtype=torch.float64)
        S0 = Amat @ Amat.T + dim * torch.eye(dim, dtype=torch.float64)
        m0 = torch.randn(dim, generator=g, dtype=torch.float64)
        sig2 = torch.rand(dim, generator=g, dtype=torch.float64) + 0.5
        y = torch.randn(dim, generator=g, dtype=torch.float64)
        x = Parameter("x", m0.clone())
        prior = MultivariateNormal("prior", x, Parameter("m0", m0), covariance_matrix=Parameter("S0", S0))
        from torchtree.distributions.distributions import Distribution
        like = Distribution("like", torch.distributions.Normal, Parameter("y", y), {"loc": x, "scale": Parameter("noise", sig2.sqrt())})
        joint = JointDistributionModel("joint", [prior, like])
        prec = torch.linalg.inv(S0) + torch.diag(1.0 / sig2)
        post_cov = torch.linalg.inv(prec)
        post_mean = post_cov @ (torch.linalg.inv(S0) @ m0 + y / sig2)
        unres = Parameter("unres", torch.zeros(dim * (dim + 1) // 2, dtype=torch.float64))
        tril = TransformedParameter("tril", unres, TrilExpDiagonalTransform())
        q = MultivariateNormal("q", x, Parameter("qm", post_mean), scale_tril=tril)
        L = torch.linalg.cholesky(post_cov)
        tril.tensor = L
        back = tril.tensor
        n = 1
        if tuple(back.shape) != tuple(L.shape) or not torch.allclose(back, L, rtol=1e-10, atol=1e-12):
            raise Refuted("dimension %d: after tril.tensor = L the transformed parameter reads back %s, L = %s" % (dim, back.tolist(), L.tolist()), witness={"dim": dim}, confirmed=True,
                          replay={"kind": "custom", "contract": "C14", "func": "replay_conjugate_mvn_tril", "args": {"dim": dim}})
        logz = float(torch.distributions.MultivariateNormal(m0, covariance_matrix=S0 + torch.diag(sig2)).log_prob(y))
        for okind in ("ELBO", "KLpq", "VR0.5", "CUBO"):
            for samples in ((1,), (5,)):
                obj = make_objective(okind, q, joint, samples)
                torch.manual_seed(4)
                val = float(obj())
                n += 1
                if not (val == val) or abs(val - logz) > 1e-8 * max(1.0, abs(logz)):
                    raise Refuted("%s, correlated normal-normal model of dimension %d, q = MultivariateNormal(scale_tril through TrilExpDiagonalTransform) set to the posterior, samples %s: "
                                  "returns %r, log marginal likelihood %r" % (okind, dim, samples, val, logz), witness={"objective": okind, "dim": dim, "value": val, "log_marginal": logz},
                                  confirmed=True, replay={"kind": "custom", "contract": "C14", "func": "replay_conjugate_mvn_tril", "args": {"dim": dim}})
        return {"backend": "concrete", "cases": n, "statement": "dimension %d: the full-covariance family set to the posterior through its transformed scale_tril gives log Z for 8 objective evaluations" % dim}
    return Ob("C14.conjugate.mvn_scale_tril[dim=%d]" % dim, "B", body, clause="exact at the true posterior for the full-covariance Gaussian family (bounded)", funcs=FUNCS)


def _mvn_family_problems(dim, parameterization, sharp, blocks):
    """correlated normal-normal model; q = shipped MultivariateNormal in the given parameterisation set to the exact posterior; x is one
    parameter or a list of parameters (blocks: their sizes), the way a model file lists the parameters of a variational distribution"""
    from torchtree.core.parameter import Parameter
    from torchtree.distributions.distributions import Distribution
    from torchtree.distributions.joint_distribution import JointDistributionModel
    from torchtree.distributions.multivariate_normal import MultivariateNormal
    g = torch.Generator().manual_seed(100 * dim + len(blocks or ()))
    Amat = torch.randn(dim, dim, generator=g, dtype=torch.float64)
    S0 = Amat @ Amat.T + dim * torch.eye(dim, dtype=torch.float64)
    m0 = torch.randn(dim, generator=g, dtype=torch.float64)
    sig2 = (torch.rand(dim, generator=g, dtype=torch.float64) + 0.5) * (1e-6 if sharp else 1.0)   # sharp: many precise observations
    y = m0 + torch.randn(dim, generator=g, dtype=torch.float64)
    if blocks:
        xs, start = [], 0
        for k, b in enumerate(blocks):
            xs.append(Parameter("x%d" % k, m0[start:start + b].clone()))
            start += b
        x = xs
    else:
        x = Parameter("x", m0.clone())
    prior = MultivariateNormal("prior", x, Parameter("m0", m0), covariance_matrix=Parameter("S0", S0))
    like = MultivariateNormal("like", x, Parameter("y", y), covariance_matrix=Parameter("noise", torch.diag(sig2)))   # symmetric in x and y
    joint = JointDistributionModel("joint", [prior, like])
    prec = torch.linalg.inv(S0) + torch.diag(1.0 / sig2)
    post_cov = torch.linalg.inv(prec)
    post_cov = (post_cov + post_cov.T) / 2
    post_mean = post_cov @ (torch.linalg.inv(S0) @ m0 + y / sig2)
    if parameterization == "covariance_matrix":
        kw = {"covariance_matrix": Parameter("qS", post_cov)}
    elif parameterization == "precision_matrix":
        kw = {"precision_matrix": Parameter("qP", (prec + prec.T) / 2)}
    else:
        kw = {"scale_tril": Parameter("qL", torch.linalg.cholesky(post_cov))}
    q = MultivariateNormal("q", x, Parameter("qm", post_mean), **kw)
    logz = float(torch.distributions.MultivariateNormal(m0, covariance_matrix=S0 + torch.diag(sig2)).log_prob(y))
    bad, n = [], 0
    for okind in ("ELBO", "KLpq", "VR0.5", "CUBO"):
        for samples in ((1,), (5,), (4, 3)):
            if okind == "KLpq" and len(samples) == 2:
                continue     # known finding C14.value2d.KLpq
            obj = make_objective(okind, q, joint, samples)
            for draw in range(4):
                torch.manual_seed(4 + draw)
                # a cast that changes nothing (what `--dtype float64` / a device move do to a model already there) between two evaluation
                # requests, applied to ONE side only (if both sides go stale together they are stale at the same old sample, where the
                # identity still holds): the next request still draws fresh samples and evaluates both densities at them
                if draw == 2:
                    q.to(torch.float64)
                if draw == 3:
                    joint.to(torch.float64)
                try:
                    val = float(obj())
                except Exception as e:
                    from vt.scenario import _raised_in_repo
                    if not _raised_in_repo(e):
                        raise
                    val = "%s: %s" % (type(e).__name__, str(e)[:100])
                n += 1
                if isinstance(val, str) or not (val == val) or abs(val - logz) > 1e-7 * max(1.0, abs(logz)):
                    bad.append("%s, samples %s, draw %d: returns %s, log marginal likelihood %r" % (okind, list(samples), draw, val if isinstance(val, str) else repr(val), logz))
            if blocks:
                widths = [int(p_.tensor.shape[-1]) for p_ in x]
                if widths != list(blocks):
                    bad.append("%s, samples %s: after the draws the listed parameters have widths %s, they were built with %s" % (okind, list(samples), widths, list(blocks)))
    return bad, n


def ob_conjugate_mvn_family(dim, parameterization, sharp, blocks):
    label = "dim=%d,%s,%s,x=%s" % (dim, parameterization, "sharp posterior" if sharp else "unit scale", "one parameter" if not blocks else "list of %s" % (list(blocks),))

    def body():
        bad, n = _mvn_family_problems(dim, parameterization, sharp, blocks)
        if bad:
            raise Refuted("correlated normal-normal model, q = MultivariateNormal(%s) set to the posterior (%s): %s" % (parameterization, label, "; ".join(bad[:3])),
                          witness={"case": label, "problems": bad[:10]}, confirmed=True,
                          replay={"kind": "custom", "contract": "C14", "func": "replay_conjugate_mvn_family",
                                  "args": {"dim": dim, "parameterization": parameterization, "sharp": sharp, "blocks": list(blocks) if blocks else None}})
        return {"backend": "concrete", "cases": n, "statement": "%s: %d objective evaluations equal the closed-form log marginal likelihood to 1e-7" % (label, n)}
    return Ob("C14.conjugate.mvn_family[%s]" % label, "B", body, clause="exact at the true posterior for the shipped multivariate normal family in each of its parameterisations, sharp posteriors, variational parameters listed one by one (bounded)", funcs=FUNCS)


def replay_conjugate_mvn_family(args):
    bad, _ = _mvn_family_problems(int(args["dim"]), args["parameterization"], bool(args["sharp"]), tuple(args["blocks"]) if args.get("blocks") else None)
    return (False, "; ".join(bad[:3])) if bad else (True, "held")


def replay_conjugate_mvn_tril(args):
    try:
        ob_conjugate_mvn_tril(int(args["dim"])).fn()
    except Refuted as e:
        return False, e.detail
    return True, "held"


def replay_conjugate_shipped(args):
    try:
        ob_conjugate_shipped(args["kind"]).fn()
    except Refuted as e:
        return False, e.detail
    return True, "held"


def replay_conjugate_large_data(args):
    try:
        ob_conjugate_large_data().fn()
    except Refuted as e:
        return False, e.detail
    return True, "held"


def replay_conjugate_transformed(args):
    try:
        ob_conjugate_transformed(args["objective"], args.get("naming", "unique")).fn()
    except Refuted as e:
        return False, e.detail
    return True, "held"


def replay_conjugate_sequence(args):
    try:
        ob_conjugate_sequence(args["objective"]).fn()
    except Refuted as e:
        return False, e.detail
    return True, "held"


def replay_conjugate(args):
    joint, q, qd, logz = _real_objects(tuple(args["samples"]), args["seed"])
    obj = make_objective(args["objective"], q if args["wrap"] else qd, joint, tuple(args["samples"]))
    val = float(obj._call())
    ok = abs(val - logz) <= 1e-8 * max(1, abs(logz))
    return ok, "value %r vs log marginal %r" % (val, logz)


def obligations(tier, seed):
    obs = []
    for kind in ("ELBO", "KLpq", "VR0", "VR0.5", "CUBO"):
        obs.append(ob_conjugate_transformed(kind))
    for naming in ("anonymous", "same_name"):
        for kind in ("ELBO", "KLpq"):
            obs.append(ob_conjugate_transformed(kind, naming))
    obs.append(ob_conjugate_large_data())
    for kind in ("normal.precision", "inverse_gamma"):
        obs.append(ob_conjugate_shipped(kind))
    for naming in ("anonymous", "same_name", "unique"):
        obs.append(ob_conjugate_many_terms(naming))
    for dim in (1, 2, 3, 4):
        obs.append(ob_conjugate_mvn_tril(dim))
    for parameterization in ("covariance_matrix", "precision_matrix", "scale_tril"):
        for sharp in (False, True):
            obs.append(ob_conjugate_mvn_family(3, parameterization, sharp, None))
        obs.append(ob_conjugate_mvn_family(4, parameterization, False, (1, 2, 1)))
    obs.append(ob_conjugate_mvn_family(5, "scale_tril", True, (2, 1, 1, 1)))
    obs.append(ob_conjugate_mvn_family(2, "covariance_matrix", False, (1, 1)))
    R = (1, 2, 3) if tier == "quick" else (1, 2, 3, 4, 5)
    kinds = ["ELBO", "KLpq", "VR0", "VR0.5", "CUBO"]
    for kind in kinds:
        for S in R:
            obs.append(scenario_ob("C14", "C14.value.%s[samples=[%d]]" % (kind, S), "V", "scn_value", (kind, (S,)),
                                   clause="objective ≡ log marginal at the exact posterior", funcs=FUNCS, seed=seed))
        for S in R:
            for K in R:
                if tier == "quick" and (S, K) not in ((1, 1), (1, 2), (2, 1), (2, 2), (2, 3), (3, 2), (3, 3)):
                    continue
                obs.append(scenario_ob("C14", "C14.value2d.%s[samples=[%d,%d]]" % (kind, S, K), "V", "scn_value", (kind, (S, K)),
                                       clause="objective ≡ log marginal at the exact posterior (multi-sample shape)", funcs=FUNCS, seed=seed))
    for kind in kinds:
        for built, used in (((4, 3), (2, 2)), ((4, 3), (3, 1)), ((5,), (2, 3)), ((2, 2), (3,)), ((3,), (2,))):
            nm = "C14.value%s.%s[built=%s,evaluated=%s]" % ("2d" if len(used) == 2 else "", kind, list(built), list(used))
            obs.append(scenario_ob("C14", nm, "V", "scn_value", (kind, used, built),
                                   clause="objective ≡ log marginal when the sample shape is given at evaluation time", funcs=FUNCS, seed=seed))
    for kind in kinds:
        obs.append(ob_protocol(kind, (3,)))
        obs.append(ob_fresh_draw(kind, (3,)))
    for kind in kinds:
        for wrap in (True, False):
            obs.append(ob_conjugate(kind, (4,), wrap))
        obs.append(ob_conjugate(kind, (3, 2), True))
        obs.append(ob_conjugate_sequence(kind))
    return obs
