"""C20 — smoothing / integrated priors and sufficient statistics match their densities (DESIGN 4, C20).

Contracts
 * GMRF._call ≡ ½(N-1) log τ − ½ xᵀ Q x − ½(N-1) log 2π with Q = the matrix `precision_matrix()` publishes
   (plain, weighted, time-aware), field length 2..50 (the property's bound);  GMRFCovariate likewise.
 * GMRFGammaIntegrated._call ≡ log ∫ Gamma(τ; α, β) · GMRF(x | τ) dτ  (closed form of the Gamma integral;
   cross-checked by numerical quadrature, bounded) ; ConstantCoalescentIntegrated likewise (inverse gamma).
 * sufficient statistics: log_prob ≡ − Σ_g ss_g / θ_g − Σ_g counts_g · log θ_g with (ss, counts) = sufficient_statistics(heights)
   for PiecewiseConstantCoalescent and PiecewiseConstantCoalescentGrid, over every event ordering.
"""
import itertools
import math
import random

import torch

from specs import kingman
from vt import nf
from vt.runner import Ob, Refuted
from vt.scenario import el, scenario_ob, slog
from vt.stubs import symbolic_factories

FUNCS = [
    "torchtree.distributions.gmrf:GMRF._call",
    "torchtree.distributions.gmrf:GMRF.precision_matrix",
    "torchtree.distributions.gmrf:GMRFCovariate._call",
    "torchtree.distributions.gmrf_integrated:GMRFGammaIntegrated.__init__",
    "torchtree.distributions.gmrf_integrated:GMRFGammaIntegrated._call",
    "torchtree.evolution.coalescent:ConstantCoalescentIntegrated.log_prob",
    "torchtree.evolution.coalescent:PiecewiseConstantCoalescent.sufficient_statistics",
    "torchtree.evolution.coalescent:PiecewiseConstantCoalescentGrid.sufficient_statistics",
    "torchtree.evolution.coalescent:PiecewiseConstantCoalescent.log_prob",
    "torchtree.evolution.coalescent:PiecewiseConstantCoalescentGrid.log_prob",
]

META = {
    "level": "other",
    "explanation": "Field values, precision, weights, population sizes and coalescent times are symbolic. Field lengths 2..50 are "
                   "enumerated completely in the thorough tier (the property's own bound) and sampled in the quick tier; the "
                   "sufficient-statistics identity is proved on every event ordering for T<=4. The closed forms of the two "
                   "integrated priors are proved as term identities; that the closed form equals the integral is the Gamma "
                   "integral (classical), cross-checked by numerical quadrature (bounded, tag B).",
    "bound": "GMRF field length 2..50 (thorough: all; quick: 2..8,17,50), batch (),(2,); integrated priors N<=6 / T<=4; sufficient statistics T<=4, grids<=3",
    "trusted_base": [
        "Gamma integral ∫ τ^(a-1) e^(-bτ) dτ = Γ(a)/b^a (classical; numerically cross-checked with mpmath quadrature, bounded)",
        "real arithmetic; float constants such as log(2π), lgamma(α) folded by the code are compared up to 1e-12",
        "torch.tensor(list(map(torch.sum, groups))) inside sufficient_statistics replaced by the symbolic-constant factory (vt.stubs)",
    ],
    "assumptions": ["machine arithmetic treated as mathematical (reals)"],
}

MANIFEST = {
    "category": "other",
    "text": "The real GMRF densities are proved equal to the Gaussian quadratic form of the precision matrix the model itself "
            "publishes for every field length 2..50 (thorough tier: complete for the stated bound), the integrated priors equal their "
            "closed forms (and numerical quadrature, bounded), and the sufficient statistics reproduce log_prob on every event "
            "ordering (T<=4). Weighted and time-aware variants included (the defects found there were repaired, see known_findings.json).",
    "note": "Reals; Gamma integral assumed (quadrature cross-check is bounded); sufficient statistics shape-bounded (T<=4).",
    "technique": "sidecar contracts + symbolic execution + exact normal form (quadratic forms, log rules); forking over event orderings; mpmath quadrature as bounded stand-in for the integral",
}

LOG2PI = 1.8378770664093453


def scn_gmrf(variant, N, batch):
    batch = tuple(batch)

    def scn(mk):
        import torchtree.distributions.gmrf as gm
        from torchtree.core.parameter import Parameter
        with symbolic_factories(gm, enabled=mk.symbolic):
            x = mk.real("x", batch + (N,))
            tau = mk.real("tau", batch + (1,), lo=0)
            weights = mk.real("wgt", (N - 1,), lo=0) if variant == "weighted" else None
            tree_model = None
            if variant in ("timeaware", "timeaware_hb"):
                from specs import treemodels, trees
                T = N + 1   # N internal intervals -> field of length T-1 = N
                # timeaware_hb: the node heights carry the sample dimension too
                hs = mk.real("h", (batch if variant == "timeaware_hb" else ()) + (T - 1,), lo=0)
                # ordered heights so that no path explosion is needed here: h_i increasing via cumulative positive increments
                hs = hs.cumsum(-1)
                tree_model, _ = treemodels.build_timetree(trees.caterpillar(list(range(T))), ["t%d" % i for i in range(T)], [0.0] * T, hs)
            g = gm.GMRF("gmrf", Parameter("x", x), Parameter("tau", tau), tree_model, weights)
            val = g._call()
            Qm = g.precision_matrix()
        spec = []
        for b in itertools.product(*[range(s) for s in batch]):
            quad = 0
            for i in range(N):
                for j in range(N):
                    q = el(Qm, b + (i, j))
                    if isinstance(q, (int, float)) and q == 0:
                        continue
                    if isinstance(q, nf.RF) and q.is_zero():
                        continue
                    quad = quad + el(x, b + (i,)) * q * el(x, b + (j,))
            t = el(tau, b + (0,))
            spec.append(slog(t) * (N - 1) / 2 - quad / 2 - (N - 1) / 2.0 * LOG2PI)
        return [("true", "shape", tuple(val.shape) == batch + (1,), str(tuple(val.shape))),
                ("eq", "density_is_quadratic_form_of_published_precision", val, spec)]
    return scn


def scn_gmrf_covariate(N, P):
    def scn(mk):
        import torchtree.distributions.gmrf as gm
        from torchtree.core.parameter import Parameter
        with symbolic_factories(gm, enabled=mk.symbolic):
            x = mk.real("x", (N,))
            tau = mk.real("tau", (1,), lo=0)
            Z = mk.real("Z", (N, P))
            beta = mk.real("beta", (P,))
            g = gm.GMRFCovariate("g", Parameter("x", x), Parameter("tau", tau), Parameter("Z", Z), Parameter("beta", beta))
            val = g._call()
        # oracle: first differences of the residual field
        r = [el(x, (i,)) - sum(el(Z, (i, p)) * el(beta, (p,)) for p in range(P)) for i in range(N)]
        ss = 0
        for i in range(N - 1):
            ss = ss + (r[i + 1] - r[i]) * (r[i + 1] - r[i])
        t = el(tau, (0,))
        spec = slog(t) * (N - 1) / 2 - t * ss / 2 - (N - 1) / 2.0 * LOG2PI
        return [("eq", "covariate_density", val, [spec])]
    return scn


def scn_gmrf_integrated(N, alpha, beta, batch):
    batch = tuple(batch)

    def scn(mk):
        import torchtree.distributions.gmrf_integrated as gi
        from torchtree.core.parameter import Parameter
        x = mk.real("x", batch + (N,))
        g = gi.GMRFGammaIntegrated("g", Parameter("x", x), alpha, beta)
        val = g._call()
        d = N - 1
        spec = []
        for b in itertools.product(*[range(s) for s in batch]):
            ss = 0
            for i in range(N - 1):
                dx = el(x, b + (i + 1,)) - el(x, b + (i,))
                ss = ss + dx * dx
            # log [ β^α/Γ(α) (2π)^(-d/2) Γ(α+d/2) (β + ss/2)^-(α+d/2) ]
            const = alpha * math.log(beta) - math.lgamma(alpha) - d / 2.0 * math.log(2 * math.pi) + math.lgamma(alpha + d / 2.0)
            spec.append(const - (alpha + d / 2.0) * slog(ss / 2 + beta))
        return [("eq", "integrated_gmrf_closed_form", val, spec)]
    return scn


def scn_coalescent_integrated(T, scheme, alpha, beta, batch=()):
    from contracts.C08 import SCHEMES, _heights, _require_genealogy
    tips = SCHEMES[scheme](T)
    batch = tuple(batch)

    def scn(mk):
        import torchtree.evolution.coalescent as co
        from vt import cond
        cond.TIES[0] = "assume_distinct"
        with symbolic_factories(co, enabled=mk.symbolic):
            nh, h = _heights(mk, T, batch, tips)
            _require_genealogy(mk, tips, h, batch, T)
            val = co.ConstantCoalescentIntegrated(alpha, beta).log_prob(nh)
        n = T - 1
        const = alpha * math.log(beta) - math.lgamma(alpha) + math.lgamma(alpha + n)
        spec = []
        for b in itertools.product(*[range(s) for s in batch]):
            # Σ C(k,2) Δt of sample b from the oracle with theta = 1 (minus the log-theta terms, which vanish)
            tot = -kingman.log_density(tips, [el(h, b + (i,)) for i in range(T - 1)], kingman.Constant(1.0 if not mk.symbolic else nf.ONE))
            spec.append(const - (alpha + n) * slog(tot + beta))
        return [("eq", "integrated_coalescent_closed_form", val, spec)]
    return scn


def scn_suffstat(model, T, scheme, grid):
    from contracts.C08 import SCHEMES, _heights, _require_genealogy
    tips = SCHEMES[scheme](T)

    def scn(mk):
        import torchtree.evolution.coalescent as co
        from vt import cond
        cond.TIES[0] = "assume_distinct"
        with symbolic_factories(co, enabled=mk.symbolic):
            nh, h = _heights(mk, T, (), tips)
            _require_genealogy(mk, tips, h, (), T, grid)
            if model == "skyride":
                theta = mk.real("theta", (T - 1,), lo=0)
                dist = co.PiecewiseConstantCoalescent(theta)
            else:
                theta = mk.real("theta", (len(grid) + 1,), lo=0)
                dist = co.PiecewiseConstantCoalescentGrid(theta, torch.tensor(grid, dtype=torch.float64))
            lp = dist.log_prob(nh)
            ss, counts = dist.sufficient_statistics(nh)
        G = theta.shape[-1]
        if tuple(ss.shape) != (G,) or tuple(counts.shape) != (G,):
            return [("true", "shapes", False, "ss %s counts %s, expected (%d,)" % (tuple(ss.shape), tuple(counts.shape), G))]
        tot = 0
        for gidx in range(G):
            tot = tot - el(ss, (gidx,)) / el(theta, (gidx,)) - el(mk.lift(counts.double()) if isinstance(counts, torch.Tensor) else counts, (gidx,)) * slog(el(theta, (gidx,)))
        return [("eq", "sufficient_statistics_reproduce_log_prob", lp, [tot])]
    return scn


def scn_suffstat_batched(T, scheme, grid=None, theta_batched=True):
    """skyride / skygrid sufficient statistics with batched thetas and heights (each sample has its own event ordering): either the call
    raises (an unsupported shape) or row b of the statistics and counts reproduces log_prob of sample b"""
    from contracts.C08 import SCHEMES, _heights, _require_genealogy
    tips = SCHEMES[scheme](T)

    def scn(mk):
        import torchtree.evolution.coalescent as co
        from vt import cond
        cond.TIES[0] = "assume_distinct"
        with symbolic_factories(co, enabled=mk.symbolic):
            nh, h = _heights(mk, T, (2,), tips)
            if grid is None:
                _require_genealogy(mk, tips, h, (2,), T)
                G = T - 1
                theta = mk.real("theta", (2, G) if theta_batched else (G,), lo=0)
                dist = co.PiecewiseConstantCoalescent(theta)
            else:
                _require_genealogy(mk, tips, h, (2,), T, grid)
                G = len(grid) + 1
                theta = mk.real("theta", (2, G) if theta_batched else (G,), lo=0)
                dist = co.PiecewiseConstantCoalescentGrid(theta, torch.tensor(grid, dtype=torch.float64))
            lp = dist.log_prob(nh)
            try:
                ss, counts = dist.sufficient_statistics(nh)
            except Exception as e:
                from vt.cond import Infeasible, Undecided
                if isinstance(e, (Infeasible, Undecided)):
                    raise
                return [("true", "unsupported_shape_raises", True, "%s: %s" % (type(e).__name__, e))]
        if tuple(ss.shape) != (2, G) or tuple(counts.shape) != (2, G):
            return [("true", "shapes", False, "ss %s counts %s" % (tuple(ss.shape), tuple(counts.shape)))]
        spec = []
        cnt = mk.lift(counts.double()) if isinstance(counts, torch.Tensor) else counts
        for b in range(2):
            tot = 0
            for g in range(G):
                th_ = el(theta, (b, g)) if theta_batched else el(theta, (g,))
                tot = tot - el(ss, (b, g)) / th_ - el(cnt, (b, g)) * slog(th_)
            spec.append(tot)
        return [("eq", "sufficient_statistics_reproduce_log_prob", lp, spec)]
    return scn


def scn_gmrf_sequence(N):
    """time-aware GMRF evaluated, node heights updated through the public setter (any new ranking), evaluated again:
    the second value is the density at the NEW heights (equals a fresh object's)"""
    def scn(mk):
        import torchtree.distributions.gmrf as gm
        from torchtree.core.parameter import Parameter
        from specs import treemodels, trees
        from vt import cond
        cond.TIES[0] = "assume_distinct"
        T = N + 1
        names = ["t%d" % i for i in range(T)]
        tree = trees.caterpillar(list(range(T)))  # the ranking of internal nodes is read from the heights, not the topology
        with symbolic_factories(gm, enabled=mk.symbolic):
            x = mk.real("x", (N,))
            tau = mk.real("tau", (1,), lo=0)
            h1 = mk.real("ha", (T - 1,), lo=0)
            h2 = mk.real("hb", (T - 1,), lo=0)
            tm, _ = treemodels.build_timetree(tree, names, [0.0] * T, h1)
            g = gm.GMRF("gmrf", Parameter("x", x), Parameter("tau", tau), tm)
            g()
            treemodels.tree_parameter(tm).tensor = h2
            second = g()
            tm2, _ = treemodels.build_timetree(tree, names, [0.0] * T, h2)
            fresh = gm.GMRF("gmrf2", Parameter("x", x), Parameter("tau", tau), tm2)()
        return [("eq", "value_after_height_update_is_fresh_value", second, fresh)]
    return scn


def ob_quadrature(seed):
    """bounded stand-in: the closed forms equal numerical integration of the product of densities"""
    def body():
        import mpmath as mp
        import torchtree.distributions.gmrf_integrated as gi
        import torchtree.evolution.coalescent as co
        from torchtree.core.parameter import Parameter
        rng = random.Random(seed)
        n = 0
        for _ in range(6):
            N = rng.randint(2, 7)
            alpha, beta = rng.uniform(0.3, 3.0), rng.uniform(0.2, 2.0)
            x = [rng.uniform(-1.5, 1.5) for _ in range(N)]
            code = float(gi.GMRFGammaIntegrated("g", Parameter("x", torch.tensor(x, dtype=torch.float64)), alpha, beta)._call())
            ss = sum((x[i + 1] - x[i]) ** 2 for i in range(N - 1))
            d = N - 1

            def f(tau):
                return mp.e ** (alpha * mp.log(beta) - mp.loggamma(alpha) + (alpha - 1) * mp.log(tau) - beta * tau) * \
                    (tau / (2 * mp.pi)) ** (d / 2.0) * mp.e ** (-tau * ss / 2)
            ref = float(mp.log(mp.quad(f, [0, 1, 10, mp.inf])))
            n += 1
            if abs(code - ref) > 1e-8 * max(1, abs(ref)):
                raise Refuted("GMRFGammaIntegrated: code %r vs quadrature %r (N=%d alpha=%g beta=%g x=%s)" % (code, ref, N, alpha, beta, x),
                              witness={"N": N, "alpha": alpha, "beta": beta, "x": x}, confirmed=True)
        for _ in range(6):
            T = rng.randint(2, 6)
            alpha, beta = rng.uniform(0.5, 3.0), rng.uniform(0.2, 2.0)
            tips = [0.0] + sorted(rng.uniform(0, 1.0) for _ in range(T - 1))
            hs = []
            t = max(tips)
            for _k in range(T - 1):
                t += rng.uniform(0.05, 1.0)
                hs.append(t)
            code = float(co.ConstantCoalescentIntegrated(alpha, beta).log_prob(torch.tensor(tips + hs, dtype=torch.float64)))
            tot = -float(kingman.log_density(tips, hs, kingman.Constant(1.0)))

            def f2(theta):
                return mp.e ** (alpha * mp.log(beta) - mp.loggamma(alpha) - (alpha + 1) * mp.log(theta) - beta / theta) * \
                    theta ** (-(T - 1)) * mp.e ** (-tot / theta)
            ref = float(mp.log(mp.quad(f2, [0, 0.5, 5, mp.inf])))
            n += 1
            if abs(code - ref) > 1e-8 * max(1, abs(ref)):
                raise Refuted("ConstantCoalescentIntegrated: code %r vs quadrature %r" % (code, ref), witness={"tips": tips, "heights": hs, "alpha": alpha, "beta": beta}, confirmed=True)
        # several priors that share some but not all hyper-parameters (and the number of taxa / field length), evaluated one after the other in
        # this process: nothing may be remembered from one to the next under a key that leaves a hyper-parameter out
        tips4, hs4 = [0.0, 0.0, 0.3, 0.7], [1.1, 1.9, 3.2]
        tot4 = -float(kingman.log_density(tips4, hs4, kingman.Constant(1.0)))
        x4 = [0.3, -0.4, 0.9, 0.2]
        ss4 = sum((x4[i + 1] - x4[i]) ** 2 for i in range(3))
        for order in ([(2.0, 0.5), (2.0, 4.0), (0.001, 0.001), (0.001, 1.0), (3.5, 4.0)], [(0.001, 1.0), (2.0, 4.0), (2.0, 0.5)]):
            for alpha, beta in order:
                code = float(co.ConstantCoalescentIntegrated(alpha, beta).log_prob(torch.tensor(tips4 + hs4, dtype=torch.float64)))

                def f3(theta):
                    return mp.e ** (alpha * mp.log(beta) - mp.loggamma(alpha) - (alpha + 1) * mp.log(theta) - beta / theta) * theta ** (-3) * mp.e ** (-tot4 / theta)
                ref = float(mp.log(mp.quad(f3, [0, 0.01, 0.5, 5, 100, mp.inf])))
                n += 1
                if abs(code - ref) > 1e-7 * max(1, abs(ref)):
                    raise Refuted("ConstantCoalescentIntegrated(alpha=%g, beta=%g) evaluated after other priors in the same process: code %r vs quadrature %r" % (alpha, beta, code, ref),
                                  witness={"alpha": alpha, "beta": beta, "order": order}, confirmed=True)
                code = float(gi.GMRFGammaIntegrated("g", Parameter("x", torch.tensor(x4, dtype=torch.float64)), alpha, beta)._call())

                def f4(tau):
                    return mp.e ** (alpha * mp.log(beta) - mp.loggamma(alpha) + (alpha - 1) * mp.log(tau) - beta * tau) * (tau / (2 * mp.pi)) ** 1.5 * mp.e ** (-tau * ss4 / 2)
                ref = float(mp.log(mp.quad(f4, [0, 0.01, 1, 10, 1000, mp.inf])))
                n += 1
                if abs(code - ref) > 1e-7 * max(1, abs(ref)):
                    raise Refuted("GMRFGammaIntegrated(alpha=%g, beta=%g) evaluated after other priors in the same process: code %r vs quadrature %r" % (alpha, beta, code, ref),
                                  witness={"alpha": alpha, "beta": beta, "order": order}, confirmed=True)
        return {"backend": "mpmath quadrature", "cases": n, "statement": "integrated priors equal numerical integration of prior x density at sampled points and on a grid of shared hyper-parameters evaluated in one process"}
    return Ob("C20.integrated.quadrature", "B", body, clause="closed form equals numerical integration (bounded)", funcs=FUNCS)


def _history_world(kind, dtype=torch.float64):
    """make(indices) for specs.histories.explore over the REAL smoothing / integrated priors"""
    import torchtree.distributions.gmrf as gm
    import torchtree.distributions.gmrf_integrated as gi
    import torchtree.evolution.coalescent as co
    from torchtree.core.parameter import Parameter
    from specs import treemodels
    t64 = lambda v: torch.tensor(v, dtype=dtype)
    names = ["A", "B", "C", "D"]
    tree = ((0, 1), (2, 3))
    tips = [0.0, 0.5, 0.0, 1.0]
    heights = [t64([1.2, 2.0, 3.0]), t64([2.4, 1.5, 3.3]), t64([0.9, 1.1, 4.0])]
    fields = [t64([0.3, -0.2, 1.1]), t64([1.0, 0.4, -0.7]), t64([-0.5, -0.1, 0.2])]
    taus = [t64([2.0]), t64([0.6]), t64([3.5])]
    betas = [t64([0.4, -1.0]), t64([1.2, 0.3]), t64([-0.6, 0.8])]

    def make(idx):
        idx = idx or (0, 0, 0)
        idx = tuple(idx) + (0,) * (3 - len(idx))
        x = Parameter("x", fields[idx[0]].clone())
        if kind in ("gmrf.plain", "gmrf.weighted"):
            tau = Parameter("tau", taus[idx[1]].clone())
            m = gm.GMRF("g", x, tau, weights=t64([0.5, 2.0]) if kind.endswith("weighted") else None)
            return (lambda: m()), [x, tau], {}, [fields, taus]
        if kind == "gmrf.timeaware":
            tau = Parameter("tau", taus[idx[1]].clone())
            tm, _ = treemodels.build_timetree(tree, names, tips, heights[idx[2]].clone())
            m = gm.GMRF("g", x, tau, tm)
            return (lambda: m()), [x, tau, treemodels.tree_parameter(tm)], {"node_heights": (lambda: tm.node_heights)}, [fields, taus, heights]
        if kind == "gmrf.covariate":
            tau = Parameter("tau", taus[idx[1]].clone())
            beta = Parameter("beta", betas[idx[2]].clone())
            cov = Parameter("cov", t64([[0.1, 1.0], [0.5, -0.3], [-1.2, 0.7]]))
            m = gm.GMRFCovariate("g", x, tau, cov, beta)
            return (lambda: m()), [x, tau, beta], {}, [fields, taus, betas]
        if kind == "gmrf.integrated.timeaware":
            tm, _ = treemodels.build_timetree(tree, names, tips, heights[idx[1]].clone())
            m = gi.GMRFGammaIntegrated("g", x, 1.5, 0.8, tm)
            return (lambda: m()), [x, treemodels.tree_parameter(tm)], {"node_heights": (lambda: tm.node_heights)}, [fields, heights]
        if kind == "coalescent.integrated":
            tm, _ = treemodels.build_timetree(tree, names, tips, heights[idx[0]].clone())
            m = co.ConstantCoalescentIntegratedModel("c", tm, 1.5, 0.8)
            return (lambda: m()), [treemodels.tree_parameter(tm)], {"node_heights": (lambda: tm.node_heights)}, [heights]
        raise ValueError(kind)
    return make


HISTORY_KINDS = ("gmrf.plain", "gmrf.weighted", "gmrf.timeaware", "gmrf.covariate", "gmrf.integrated.timeaware", "coalescent.integrated")


def ob_history(kind, depth):
    def body():
        from specs import histories
        bad, n = histories.explore(_history_world(kind), depth)
        if bad is not None:
            hist, got, want = bad
            raise Refuted("%s after the history %s returns %s, a freshly built object holding the current values returns %s" % (kind, hist, got, want),
                          witness={"kind": kind, "history": hist}, replay={"kind": "custom", "contract": "C20", "func": "replay_history", "args": {"kind": kind, "depth": depth}}, confirmed=True)
        return {"backend": "heap", "cases": n, "statement": "%d histories of updates, reads and evaluations: %s returns the density of the current values" % (n, kind)}
    return Ob("C20.history[%s,depth<=%d]" % (kind, depth), "B", body,
              clause="the prior returns the density of the CURRENT field, precision / covariate coefficients and node heights after every history", funcs=FUNCS)


_TIME_SCALES = {
    # label: (tip heights, internal heights): the time-aware variants weight each squared difference by the inter-coalescent durations
    "ordinary": ([0.0, 0.0, 0.0, 0.0], [0.5, 1.2, 3.0]),
    "near-polytomy": ([0.0, 0.0, 0.0, 0.0], [1.0, 1.0000002, 1.0000005]),
    "time unit 1e-7": ([0.0, 0.0, 0.0, 0.0], [0.5e-7, 1.2e-7, 3.0e-7]),
    "time unit 1e+5": ([0.0, 0.0, 0.0, 0.0], [0.5e5, 1.2e5, 3.0e5]),
}


def _time_scale_problems(label, rescale):
    """integrated(field) must be the integral over the precision of Gamma(tau; a, b) x GMRF(field | tau) for the SAME variant.  The GMRF log
    density is c + (N-1)/2 log tau - tau Q / 2 in tau: c and Q are read off the real GMRF at tau = 1 and 2, the integral is then closed form."""
    import torchtree.distributions.gmrf as gm
    import torchtree.distributions.gmrf_integrated as gi
    from torchtree.core.parameter import Parameter
    from specs import treemodels
    tips, internal = _TIME_SCALES[label]
    t64 = lambda v: torch.tensor(v, dtype=torch.float64)
    tree, names = ((0, 1), (2, 3)), ["A", "B", "C", "D"]
    # node order of ((0,1),(2,3)): the two cherries, then the root
    field = [0.3, -0.4, 1.1]
    a, b = 1.5, 0.8
    N = len(field)

    def tm():
        return treemodels.build_timetree(tree, names, tips, t64(internal))[0]

    def gmrf(tau):
        return float(gm.GMRF("g", Parameter("x", t64(field)), Parameter("tau", t64([tau])), tm(), rescale=rescale)().sum())
    g1, g2 = gmrf(1.0), gmrf(2.0)
    Q = 2.0 * (g1 - g2 + (N - 1) / 2.0 * math.log(2.0))
    c = g1 + Q / 2.0
    want = c + a * math.log(b) - math.lgamma(a) + math.lgamma(a + (N - 1) / 2.0) - (a + (N - 1) / 2.0) * math.log(b + Q / 2.0)
    got = float(gi.GMRFGammaIntegrated("gi", Parameter("x", t64(field)), a, b, tm(), rescale=rescale)().sum())
    if not (abs(got - want) <= 1e-9 * max(1.0, abs(want))):
        return ["time-aware%s, %s (coalescent times %s): integrated prior %r, integral of Gamma(%s, %s) x the time-aware GMRF density %r" % (
            " rescaled" if rescale else "", label, internal, got, a, b, want)]
    return []


def ob_time_scales(label, rescale):
    def body():
        bad = _time_scale_problems(label, rescale)
        if bad:
            raise Refuted(bad[0], witness={"case": label, "rescale": rescale}, confirmed=True,
                          replay={"kind": "custom", "contract": "C20", "func": "replay_time_scales", "args": {"case": label, "rescale": rescale}})
        return {"backend": "concrete (closed form from the real GMRF at two precisions)", "cases": 1,
                "statement": "%s, rescale=%s: the integrated prior equals the integral over the precision of Gamma x the time-aware GMRF" % (label, rescale)}
    return Ob("C20.integrated.gmrf.timeaware[%s,rescale=%s]" % (label, rescale), "B", body,
              clause="precision-integrated field prior ≡ integral of prior x time-aware GMRF, for any time unit and near-coincident coalescent times (bounded)", funcs=FUNCS)


def replay_time_scales(args):
    bad = _time_scale_problems(args["case"], bool(args["rescale"]))
    return (False, bad[0]) if bad else (True, "held")


def ob_json_variants():
    """the plain / weighted / time-aware (rescaled or not) variants SELECTED THROUGH A JSON SPECIFICATION are the variants the keywords name:
    an object loaded with from_json evaluates like the object constructed directly with the same variant (GMRF and GMRFGammaIntegrated)."""
    def body():
        import torchtree.distributions.gmrf as gm
        import torchtree.distributions.gmrf_integrated as gi
        from torchtree.core.parameter import Parameter
        from torchtree.core.utils import process_object
        from specs import treemodels
        t64 = lambda v: torch.tensor(v, dtype=torch.float64)
        names, tree, tips = ["A", "B", "C", "D"], ((0, 1), (2, 3)), [0.0, 0.5, 0.0, 1.0]
        field = [0.3, -0.2, 1.1]
        wts = [0.5, 2.0]
        P = lambda i, v: {"id": i, "type": "Parameter", "tensor": v, "dtype": "torch.float64"}
        bad, n = [], 0
        for cls_name in ("GMRF", "GMRFGammaIntegrated"):
            for variant in ("plain", "weights", "tree", "tree,rescale=False", "tree,rescale=True"):
                tm, _ = treemodels.build_timetree(tree, names, tips, t64([1.2, 2.0, 3.0]))
                dic = {"tree": tm}
                spec = {"id": "g", "type": cls_name, "x": P("x", field)}
                kw = {}
                if cls_name == "GMRF":
                    spec["precision"] = P("tau", [2.0])
                else:
                    spec.update(shape=1.5, rate=0.8)
                if variant == "weights":
                    spec["weights"] = P("w", wts)
                    kw["weights"] = t64(wts)
                if variant.startswith("tree"):
                    spec["tree_model"] = "tree"
                    kw["tree_model"] = tm
                    if "rescale=" in variant:
                        spec["rescale"] = variant.endswith("True")
                        kw["rescale"] = variant.endswith("True")
                try:
                    loaded = process_object(spec, dic)
                    got = loaded()
                except Exception as e:
                    bad.append("%s from JSON (%s) cannot be evaluated: %s: %s" % (cls_name, variant, type(e).__name__, str(e)[:100]))
                    continue
                if cls_name == "GMRF":
                    direct = gm.GMRF("g2", Parameter("x2", t64(field)), Parameter("tau2", t64([2.0])), **kw)
                else:
                    direct = gi.GMRFGammaIntegrated("g2", Parameter("x2", t64(field)), 1.5, 0.8, **kw)
                want = direct()
                n += 1
                if got.shape != want.shape or not torch.allclose(got, want, rtol=1e-12, atol=1e-12):
                    bad.append("%s from JSON (%s) returns %s, the directly constructed %s variant returns %s" % (cls_name, variant, got.tolist(), variant, want.tolist()))
        if bad:
            raise Refuted("; ".join(bad[:3]), witness={"failures": bad}, replay={"kind": "custom", "contract": "C20", "func": "replay_json_variants", "args": {}}, confirmed=True)
        return {"backend": "heap", "cases": n, "statement": "%d JSON specifications (plain / weights / tree_model x rescale) evaluate like the directly constructed variants" % n}
    return Ob("C20.json_variants", "B", body, clause="the variant (plain, weighted, time-aware, rescaled) named in a JSON specification is the one evaluated", funcs=FUNCS)


def replay_json_variants(args):
    try:
        ob_json_variants().fn()
    except Refuted as e:
        return False, e.detail
    return True, "held"


def ob_dtype(kind):
    def body():
        from specs import histories
        bad, n, notes = histories.dtype_consistency(lambda dt: _history_world(kind, dt), (None, (1, 1, 1), (2, 2, 2)))
        if bad is not None:
            raise Refuted("%s: float32 inputs at %s give %s (%s), float64 inputs give %s" % ((kind,) + bad), witness={"kind": kind},
                          replay={"kind": "custom", "contract": "C20", "func": "replay_dtype", "args": {"kind": kind}}, confirmed=True)
        return {"backend": "heap", "cases": n, "trivial": n == 0, "raised": "; ".join(sorted(set(notes))), "statement": "%s: float32 evaluation equals the float64 one to 1e-4 (%d points)" % (kind, n)}
    return Ob("C20.dtype[%s]" % kind, "B", body, clause="the density does not depend on the floating-point type the inputs are written in (to single precision)", funcs=FUNCS)


def replay_dtype(args):
    try:
        ob_dtype(args["kind"]).fn()
    except Refuted as e:
        return False, e.detail
    return True, "held"


def ob_precision_matrix_held():
    """the matrix precision_matrix() returns is a VALUE: a caller that keeps it (the block-update sampler keeps the matrix of the current state
    while it asks for the matrix of the proposed precision) still holds the matrix of the state it was asked for after the model has moved on"""
    def body():
        import torchtree.distributions.gmrf as gm
        from torchtree.core.parameter import Parameter
        t64 = lambda v: torch.tensor(v, dtype=torch.float64)
        n = 0
        for N in (3, 5):
            x = Parameter("x", t64([0.3 * (i % 3) - 0.2 * i for i in range(N)]))
            tau = Parameter("tau", t64([2.0]))
            g = gm.GMRF("gmrf", x, tau)
            D = torch.zeros(N - 1, N, dtype=torch.float64)
            for i in range(N - 1):
                D[i, i], D[i, i + 1] = -1.0, 1.0
            held = []
            for step, tv in enumerate((2.0, 5.0, 0.5)):
                tau.tensor = t64([tv])
                Q = g.precision_matrix()
                val = float(g().sum())
                held.append((tv, Q, val))
                for tv_, Q_, val_ in held:
                    want = tv_ * (D.T @ D)
                    n += 1
                    if tuple(Q_.shape[-2:]) != (N, N) or not torch.allclose(Q_.reshape(N, N).double(), want, rtol=1e-12, atol=1e-12):
                        raise Refuted("GMRF (N=%d): the matrix returned by precision_matrix() for precision %g reads %s after the precision was set to %g and the matrix asked for again; "
                                      "it was %s" % (N, tv_, Q_.reshape(N, N).tolist(), tv, want.tolist()), witness={"N": N, "held_for": tv_, "now": tv}, confirmed=True,
                                      replay={"kind": "custom", "contract": "C20", "func": "replay_precision_matrix_held", "args": {}})
                    xv = x.tensor.double()
                    quad = float(xv @ Q_.reshape(N, N).double() @ xv)
                    spec = 0.5 * (N - 1) * math.log(tv_) - 0.5 * quad - 0.5 * (N - 1) * math.log(2 * math.pi)
                    if abs(spec - val_) > 1e-10 * max(1.0, abs(val_)):
                        raise Refuted("GMRF (N=%d): the held matrix for precision %g no longer reproduces the density %r the model reported for that state (quadratic form gives %r)" % (
                            N, tv_, val_, spec), witness={"N": N, "held_for": tv_}, confirmed=True,
                            replay={"kind": "custom", "contract": "C20", "func": "replay_precision_matrix_held", "args": {}})
        return {"backend": "concrete", "cases": n, "statement": "%d held precision matrices still equal tau D'D of the state they were asked for and reproduce its density" % n}
    return Ob("C20.gmrf.precision_matrix.held", "B", body, clause="the published precision matrix is a value, not a live buffer (bounded)", funcs=FUNCS)


def replay_precision_matrix_held(args):
    try:
        ob_precision_matrix_held().fn()
    except Refuted as e:
        return False, e.detail
    return True, "held"


def ob_suffstat_ties():
    """ties: a coalescent time (or the root, or a sampling time) EXACTLY on a grid point — measure zero for the symbolic obligations, which
    assume distinct times, but ordinary for grids at round numbers.  The density rebuilt from the sufficient statistics and coalescent counts
    equals log_prob of the same object (and the Kingman oracle) on concrete instances with such ties."""
    def body():
        import torchtree.evolution.coalescent as co
        t64 = lambda v: torch.tensor(v, dtype=torch.float64)
        cases = [
            ([2.5, 5.0, 7.5, 10.0], [0.0, 0.0, 0.0, 0.0], [1.0, 5.0, 8.2], [2.0, 3.0, 1.5, 0.7, 4.0]),
            ([2.5, 5.0, 7.5], [0.0, 0.0, 0.0, 0.0], [2.5, 5.0, 7.5], [2.0, 3.0, 1.5, 0.7]),
            ([3.0], [0.0, 1.0, 0.0], [3.0, 4.5], [1.3, 2.9]),
            ([2.0, 4.0], [0.0, 2.0, 0.0, 0.0], [1.0, 3.0, 4.0], [0.8, 1.9, 3.3]),
            ([1.0, 2.0, 3.0], [0.0, 0.0, 0.0], [0.4, 1.7], [2.0, 0.5, 1.1, 3.0]),      # control: no ties, grid beyond the root
        ]
        n = 0
        for grid, tips, coal, theta in cases:
            nh = t64(tips + coal)
            th = t64(theta)
            dist = co.PiecewiseConstantCoalescentGrid(th, t64(grid))
            lp = float(dist.log_prob(nh).reshape(-1)[0])
            ss, counts = dist.sufficient_statistics(nh)
            rebuilt = float(-(ss / th).sum() - (counts.double() * th.log()).sum())
            # at an exact tie the value of a piecewise-constant N(t) AT the breakpoint is a convention (measure zero): only the control
            # case (no tie) is compared with the Kingman oracle; the property's clause is that the statistics reproduce the object's own density
            tie = any(c in grid for c in coal)
            want = lp if tie else float(kingman.log_density(tips, coal, kingman.GridConstant(theta, grid)))
            n += 1
            if abs(rebuilt - lp) > 1e-10 * max(1.0, abs(lp)) or abs(lp - want) > 1e-10 * max(1.0, abs(want)):
                raise Refuted("skygrid with grid %s, tips %s, coalescent times %s: log_prob %.10f, rebuilt from sufficient statistics %.10f, Kingman density %.10f (counts %s)"
                              % (grid, tips, coal, lp, rebuilt, want, counts.tolist()), witness={"grid": grid, "tips": tips, "coalescent": coal, "theta": theta},
                              replay={"kind": "custom", "contract": "C20", "func": "replay_suffstat_ties", "args": {}}, confirmed=True)
        return {"backend": "concrete", "cases": n, "statement": "%d skygrid instances with events exactly on grid points: sufficient statistics + counts reproduce log_prob and the Kingman density" % n}
    return Ob("C20.suffstat.skygrid.ties", "B", body, clause="sufficient statistics and coalescent counts reproduce the log density (events exactly on grid points, bounded)", funcs=FUNCS)


def replay_suffstat_ties(args):
    try:
        ob_suffstat_ties().fn()
    except Refuted as e:
        return False, e.detail
    return True, "held"


def replay_history(args):
    try:
        ob_history(args["kind"], args["depth"]).fn()
    except Refuted as e:
        return False, e.detail
    return True, "held"


def obligations(tier, seed):
    obs = []
    for kind in HISTORY_KINDS:
        obs.append(ob_history(kind, 3 if tier == "quick" else 4))
        obs.append(ob_dtype(kind))
    obs.append(ob_json_variants())
    for label in _TIME_SCALES:
        for rescale in (True, False):
            obs.append(ob_time_scales(label, rescale))
    obs.append(ob_precision_matrix_held())
    obs.append(ob_suffstat_ties())

    def add(name, factory, args, clause, **kw):
        kw.setdefault("max_paths", 20000)
        obs.append(scenario_ob("C20", name, "V", factory, args, clause=clause, funcs=FUNCS, seed=seed, **kw))

    Ns = [2, 3, 4, 5, 6, 7, 8, 17, 50] if tier == "quick" else list(range(2, 51))
    for N in Ns:
        add("C20.gmrf.plain[N=%d]" % N, "scn_gmrf", ("plain", N, ()), "GMRF ≡ quadratic form of published precision", crosscheck=1 if N > 20 else 2)
        if N <= 8 or N in (17, 50):
            add("C20.gmrf.plain[N=%d,batch=(2,)]" % N, "scn_gmrf", ("plain", N, (2,)), "GMRF ≡ quadratic form of published precision (batched)", crosscheck=1)
    for N in (2, 3, 5):
        add("C20.gmrf.weighted[N=%d]" % N, "scn_gmrf", ("weighted", N, ()), "weighted GMRF ≡ quadratic form of published precision")
        add("C20.gmrf.timeaware[N=%d]" % N, "scn_gmrf", ("timeaware", N, ()), "time-aware GMRF ≡ quadratic form of published precision")
    for N, P in ((2, 1), (3, 2), (5, 2)):
        add("C20.gmrf.covariate[N=%d,P=%d]" % (N, P), "scn_gmrf_covariate", (N, P), "GMRF with covariates ≡ quadratic form of the residual field")
    for N in (2, 3, 4, 6):
        add("C20.integrated.gmrf[N=%d]" % N, "scn_gmrf_integrated", (N, 0.7, 1.3, ()), "precision-integrated GMRF ≡ closed form")
    add("C20.integrated.gmrf[N=3,batch=(2,)]", "scn_gmrf_integrated", (3, 2.0, 0.5, (2,)), "precision-integrated GMRF ≡ closed form (batched)")
    for T in (2, 3, 4):
        for scheme in ("iso", "serial"):
            add("C20.integrated.coalescent[T=%d,%s]" % (T, scheme), "scn_coalescent_integrated", (T, scheme, 1.5, 0.8), "size-integrated constant coalescent ≡ closed form")
    for T, scheme, batch in ((2, "serial", (2,)), (3, "iso", (2,)), (3, "serial", (2,)), (2, "iso", (3,)), (2, "serial", (1,)), (2, "iso", (1, 2))):
        add("C20.integrated.coalescent[T=%d,%s,batch=%s]" % (T, scheme, batch), "scn_coalescent_integrated", (T, scheme, 1.5, 0.8, batch), "size-integrated constant coalescent ≡ closed form, each sample of a batch")
    for T in ((2, 3) if tier == "quick" else (2, 3, 4)):
        for scheme in ("iso", "serial", "ties"):
            if T == 2 and scheme == "ties":
                continue
            add("C20.suffstat.skyride[T=%d,%s]" % (T, scheme), "scn_suffstat", ("skyride", T, scheme, None), "sufficient statistics reproduce log_prob")
            for grid in ([0.7], [0.4, 2.5], [0.3, 1.2, 50.0]):
                add("C20.suffstat.skygrid[T=%d,%s,grid=%s]" % (T, scheme, grid), "scn_suffstat", ("skygrid", T, scheme, grid), "sufficient statistics reproduce log_prob")
    for T in (3,) if tier == "quick" else (3, 4):
        for scheme in ("serial", "ties"):
            add("C20.suffstat.skyride.batched[T=%d,%s]" % (T, scheme), "scn_suffstat_batched", (T, scheme), "sufficient statistics reproduce log_prob (batched, per-sample orderings)")
            if T == 3:
                add("C20.suffstat.skyride.batched[T=%d,%s,theta unbatched]" % (T, scheme), "scn_suffstat_batched", (T, scheme, None, False), "sufficient statistics reproduce log_prob (node heights batched, population sizes not) or the call raises")
                add("C20.suffstat.skygrid.batched[T=%d,%s,grid=[0.4, 2.5],theta unbatched]" % (T, scheme), "scn_suffstat_batched", (T, scheme, [0.4, 2.5], False), "sufficient statistics reproduce log_prob (node heights batched, population sizes not) or the call raises")
            if T == 3:   # two samples x two grid points: the event orderings of T=4 exceed the budget
                add("C20.suffstat.skygrid.batched[T=%d,%s,grid=[0.4, 2.5]]" % (T, scheme), "scn_suffstat_batched", (T, scheme, [0.4, 2.5]), "sufficient statistics reproduce log_prob (batched, per-sample orderings) or the call raises")
    for N in (2, 3):
        add("C20.gmrf.timeaware.sequence[N=%d]" % N, "scn_gmrf_sequence", (N,), "time-aware GMRF follows a re-ranking of the coalescent times")
    obs.append(ob_quadrature(seed))
    return obs
