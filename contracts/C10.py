"""C10 — a sample dimension never mixes samples (DESIGN 4, C10).

Relational contract for every callable f and every subset Σ of its parameters that carries leading sample
dimensions:      f(params)[s]  ≡  f(params with every batched parameter replaced by its s-th slice)      for all s,
or f raises (an unsupported shape combination must fail, not return a number).
The density / transform scenarios of the other properties are re-used verbatim: the batched run and, for each s,
the unbatched run of the SAME factory are executed on the same symbolic variables (the unbatched run receives the
s-th slices), and the two result terms are compared.  JointDistributionModel.log_prob is checked with abstract
components of every rank <= 3; the sample-shape inference helpers are checked against their documented rule.
"""
import importlib
import itertools

import numpy as np
import torch

from vt import nf
from vt.cond import Infeasible, Undecided
from vt.runner import Ob, Refuted
from vt.scenario import MkNum, MkSym, _flat, el, scenario_ob
from vt.symtorch import ST

FUNCS = [
    "torchtree.distributions.joint_distribution:JointDistributionModel.log_prob",
    "torchtree.distributions.distributions:Distribution._sample_shape",
    "torchtree.core.container:Container._sample_shape",
    "torchtree.evolution.tree_likelihood:TreeLikelihoodModel._call",
    "torchtree.evolution.tree_likelihood:TreeLikelihoodModel._sample_shape",
    "torchtree.evolution.substitution_model.abstract:SymmetricSubstitutionModel.p_t",
    "torchtree.evolution.substitution_model.abstract:SymmetricSubstitutionModel._sample_shape",
    "torchtree.evolution.site_model:UnivariateDiscretizedSiteModel.update_rates",
    "torchtree.evolution.coalescent:ConstantCoalescent.log_prob",
    "torchtree.evolution.coalescent:ExponentialCoalescent.log_prob",
    "torchtree.evolution.coalescent:PiecewiseConstantCoalescent.log_prob",
    "torchtree.evolution.coalescent:PiecewiseConstantCoalescentGrid.log_prob",
    "torchtree.evolution.coalescent:PiecewiseLinearCoalescentGrid.log_prob",
    "torchtree.distributions.gmrf:GMRF._call",
    "torchtree.distributions.transforms:CumSumExpTransform.log_abs_det_jacobian",
    "torchtree.evolution.tree_height_transform:GeneralNodeHeightTransform._call",
    "torchtree.evolution.tree_height_transform:GeneralNodeHeightTransform.log_abs_det_jacobian",
]

META = {
    "level": "other",
    "explanation": "Values symbolic; sample shapes [S] and [S,K] enumerated (S,K up to 3 quick / 5 thorough — the property's bound — chosen to "
                   "collide with other extents), subsets of batched parameters enumerated per callable (all / some / none). The callables "
                   "are the scenarios of C01, C04, C05, C06, C07, C08, C20 (substitution models, site models, tree likelihood, coalescents, "
                   "GMRF, transforms) plus JointDistributionModel with abstract components. BDSK is covered only through C09's scenarios when present.",
    "bound": "S,K in {1,2,3} quick / 1..5 thorough; component ranks <= 3; trees T<=3 in batched coalescent runs",
    "trusted_base": ["the scenarios of the owning properties (their oracles are not used here, only the code value)", "real arithmetic"],
    "assumptions": ["machine arithmetic treated as mathematical (reals)", "a raised exception is an accepted outcome for an unsupported shape combination"],
}

MANIFEST = {
    "category": "other",
    "text": "Slice-equivariance of the real callables: for each callable and each enumerated subset of batched parameters the s-th entry of "
            "the batched result term is proved identical to the term obtained from the s-th slices (or the call raises), for all real "
            "values; the joint density is shown to add up components of the same sample only, with abstract components of every rank <= 3.",
    "note": "Shape-bounded enumeration of sample shapes and parameter subsets; reals.",
    "technique": "relational sidecar contracts + symbolic execution of the real callables on batched and sliced inputs + exact normal form",
}


class _Recorder:
    def __init__(self):
        self.tensors = {}


def _mk_slicing(base_mk_cls, rec, s, batch):
    class MkSlice(base_mk_cls):
        def real(self_, name, shape=(), lo=None, hi=None, lo_incl=False):
            shape = tuple(shape)
            t = rec.tensors.get(name)
            if t is None:
                raise Undecided("unbatched run asks for an input %r the batched run did not declare" % name)
            tshape = tuple(t.shape)
            if tshape == shape:
                return t
            if tshape == tuple(batch) + shape:
                return t[s]
            if len(tshape) > len(shape) and tshape[len(tshape) - len(shape):] == shape:
                lead = tshape[:len(tshape) - len(shape)]
                if len(lead) > len(batch):
                    return t
                sub = s[len(batch) - len(lead):]
                # a sample dimension of size one stands for every sample (broadcasting)
                return t[tuple(0 if lead[k] == 1 else sub[k] for k in range(len(lead)))]
            raise Undecided("input %r: batched shape %s vs unbatched shape %s" % (name, tshape, shape))
    return MkSlice


def scn_slice(contract, factory, args_b, args_u, pick, batch):
    batch = tuple(batch)

    def scn(mk):
        mod = importlib.import_module("contracts.%s" % contract)
        conv = lambda a: [tuple(x) if isinstance(x, list) and all(not isinstance(y, list) for y in x) and x and isinstance(x[0], int) and False else x for x in a]
        base_b = getattr(mod, factory)(*args_b)
        base_u = getattr(mod, factory)(*args_u)
        rec = _Recorder()
        orig_real = mk.real

        def rec_real(name, shape=(), lo=None, hi=None, lo_incl=False):
            t = orig_real(name, shape, lo, hi, lo_incl)
            rec.tensors[name] = t
            return t
        mk.real = rec_real
        try:
            try:
                cl_b = base_b(mk)
            except (Infeasible, Undecided, Refuted):
                raise
            except Exception as e:
                # an unsupported shape combination that raises is an accepted outcome - provided the REAL code raises
                # (the symbolic shim may be undefined where torch silently returns inf/nan) and provided the scenario itself is sound:
                # the same scenario WITHOUT sample dimensions must run (otherwise the exception is the harness's own)
                try:
                    MkS0 = _mk_slicing(type(mk), rec, tuple(0 for _ in batch), batch)
                    getattr(mod, factory)(*args_u)(MkS0() if mk.symbolic else MkS0(mk.env))
                except (Infeasible, Undecided, Refuted):
                    pass
                except Exception as e0:
                    raise RuntimeError("harness: the scenario %s%r raises without any sample dimension (%s: %s)" % (factory, tuple(args_u), type(e0).__name__, e0))
                if not mk.symbolic:
                    return [("true", "unsupported_combination_raises", True, "%s: %s" % (type(e).__name__, e))]
                import random as _r
                from vt.cond import current_path
                from vt.scenario import find_point
                env = find_point(mk.decls, current_path(), _r.Random(1))
                try:
                    if env is None:
                        raise Infeasible("no domain point")
                    getattr(mod, factory)(*args_b)(MkNum(env))
                except Infeasible:
                    real_raises = None
                except Exception as e2:
                    real_raises = True
                else:
                    real_raises = False
                if real_raises is None:
                    raise Undecided("cannot decide whether the real code raises for this shape combination")
                return [("true", "unsupported_combination_raises", real_raises,
                         "symbolic evaluation undefined (%s: %s)%s" % (type(e).__name__, e, "" if real_raises else " but the real code returns a value"))]
        finally:
            mk.real = orig_real
        vb = _pick(cl_b, pick)
        out = []
        if vb is None:
            return [("true", "batched_value_present", False, "claims: %s" % [c[1:] for c in cl_b][:3])]
        if tuple(vb.shape[:len(batch)]) != batch:
            return [("true", "result_keeps_sample_shape", False, "result shape %s, sample shape %s" % (tuple(vb.shape), batch))]
        for s in itertools.product(*[range(b) for b in batch]):
            MkS = _mk_slicing(type(mk), rec, s, batch)
            mks = MkS() if mk.symbolic else MkS(mk.env)
            cl_u = base_u(mks)
            vu = _pick(cl_u, pick)
            lhs = vb[s]
            a, sa = _flat(lhs)
            b, sb = _flat(vu)
            if len(a) != len(b):
                out.append(("true", "slice_shape[%s]" % (list(s),), False, "%s vs %s" % (sa, sb)))
                continue
            out.append(("eq", "result[%s]_is_result_of_slice" % (list(s),), a, b))
        return out
    return scn


def scn_bdsk(T, m, pb, hb, times_given=False):
    """birth-death skyline: the real PiecewiseConstantBirthDeath.log_prob with rates / rho / root-edge length of sample shape pb and node
    heights of sample shape hb (m epochs, default equal-width grid or given boundaries, origin = root height + edge so that it is above
    every sampled root).  The value is C09's subject; here only result[s] ≡ result of the s-th slices (or the combination raises)."""
    pb, hb = tuple(pb), tuple(hb)

    def scn(mk):
        import torchtree.evolution.bdsk as bd
        import contracts.C09 as C09
        from vt.stubs import symbolic_factories
        lam = mk.real("lam", pb + (m,), lo=0)
        mu = mk.real("mu", pb + (m,), lo=0)
        psi = mk.real("psi", pb + (m,), lo=0)
        rho = mk.unit("rho", pb + (m,))
        edge = mk.real("edge", pb + (1,), lo=0)
        tips = [float(i) for i in range(T)]
        inc = mk.real("hs", hb + (T - 1,), lo=0)
        internal = inc.cumsum(-1) + tips[-1]
        tip_t = torch.tensor(tips, dtype=torch.float64).expand(hb + (T,))
        nh = torch.cat((mk.lift(tip_t) if mk.symbolic else tip_t, internal), -1)
        kw = {}
        if times_given:
            kw["times"] = torch.tensor([0.0] + [0.5 + k for k in range(m - 1)], dtype=torch.float64)
        with symbolic_factories(bd, extra=C09.EXTRA, enabled=mk.symbolic):
            res = bd.PiecewiseConstantBirthDeath(lam, mu, psi, rho=rho, origin=edge, origin_is_root_edge=True, survival=True, **kw).log_prob(nh)
        return [("eq", "log_density", res, res)]
    return scn


def _pick(cl, pick):
    for c in cl:
        if c[0] == "eq" and (pick is None or c[1] == pick):
            v = c[2]
            if isinstance(v, (ST, torch.Tensor)):
                return v
            if isinstance(v, list):
                return None
    return None


# ----------------------------------------------------------------------------------------------
# joint distribution with abstract components


def scn_joint(sample_shape, comps):
    """comps: list of (extra trailing dims tuple, kind) ; kind 'model' -> CallableModel with declared sample_shape"""
    sample_shape = tuple(sample_shape)

    def scn(mk):
        from torchtree.core.model import CallableModel
        from torchtree.distributions.joint_distribution import JointDistributionModel
        models = []
        tensors = []
        for k, extra in enumerate(comps):
            # a component spec starting with "u" is UNBATCHED: it has no sample dimensions of its own
            unb = len(extra) > 0 and extra[0] == "u"
            # ("p", n, ...): the component carries only the first n sample dimensions (a model batched over [S] next to one over [S,K])
            pre = len(extra) > 1 and extra[0] == "p"
            if pre:
                own = sample_shape[:extra[1]]
                extra = tuple(extra[2:])
            else:
                extra = tuple(extra[1:]) if unb else tuple(extra)
                own = () if unb else sample_shape
            t = mk.real("lp%d" % k, own + extra)
            tensors.append((t, extra, unb, len(own)))

            class Comp(CallableModel):
                def __init__(self, id_, t):
                    super().__init__(id_)
                    self.t = t

                def _call(self, *a, **kw):
                    return self.t

                def _sample_shape(self):
                    return torch.Size(self.own)

                def handle_parameter_changed(self, *a):
                    pass

                @classmethod
                def from_json(cls, data, dic):
                    raise NotImplementedError
            cm = Comp("c%d" % k, t)
            cm.own = own
            models.append(cm)
        joint = JointDistributionModel("j", models)
        try:
            val = joint()
        except Exception as e:
            return [("true", "unsupported_combination_raises", True, str(e))]
        cl = [("true", "result_has_sample_shape", tuple(val.shape) == sample_shape, "%s vs %s" % (tuple(val.shape), sample_shape))]
        if tuple(val.shape) == sample_shape:
            spec = []
            for s in itertools.product(*[range(b) for b in sample_shape]):
                tot = 0
                for t, extra, unb, n_own in tensors:
                    for ix in itertools.product(*[range(e) for e in extra]):
                        tot = tot + el(t, (() if unb else s[:n_own]) + ix)
                spec.append(tot)
            cl.append(("eq", "joint[s]_is_sum_of_components_at_s", val, spec))
        return cl
    return scn


def scn_gamma_dirichlet(pbatch, xbatch, which=("alpha", "c", "shape", "rate")):
    """the real CompoundGammaDirichletPrior._call on a tree-model stub (contract: taxa_count, branch_lengths() of shape xbatch + [2T-3],
    sample_shape); the hyper-parameters listed in `which` carry the sample shape pbatch, the others are unbatched"""
    pbatch, xbatch = tuple(pbatch), tuple(xbatch)

    def scn(mk):
        import types
        from torchtree.core.parameter import Parameter
        from torchtree.distributions.tree_prior import CompoundGammaDirichletPrior
        T = 4
        x = mk.real("x", xbatch + (2 * T - 3,), lo=0)
        tm = types.SimpleNamespace(taxa_count=T, branch_lengths=lambda: x, sample_shape=torch.Size(xbatch), id="tree")
        ps = {}
        for nme in ("alpha", "c", "shape", "rate"):
            ps[nme] = Parameter(nme, mk.real(nme, (pbatch if nme in which else ()) + (1,), lo=0))
        prior = CompoundGammaDirichletPrior("prior", tm, ps["alpha"], ps["c"], ps["shape"], ps["rate"])
        val = prior._call()
        return [("eq", "log_density", val, val)]
    return scn


def scn_transform_values(kind, n, batch):
    """forward value and reported log-Jacobian of a vector transform (values only; C07 owns their correctness)"""
    batch = tuple(batch)

    def scn(mk):
        import contracts.C07 as C07
        import torchtree.distributions.transforms as tr
        from vt.stubs import symbolic_factories
        lo, hi = C07.DOMAIN[kind]
        t = C07.make_transform(kind)
        x = mk.real("x", batch + (n,), lo=lo, hi=hi)
        saved = tr.jacobian
        if mk.symbolic:
            tr.jacobian = C07._sym_jacobian_stub
        try:
            with symbolic_factories(tr, enabled=mk.symbolic):
                y = t(x)
                ladj = t.log_abs_det_jacobian(x, y)
        finally:
            tr.jacobian = saved
        if tuple(ladj.shape) == tuple(x.shape):
            ladj = ladj.sum(-1)
        if not mk.symbolic and not bool(torch.isfinite(ladj).all()):
            return [("true", "ladj_finite", False, "log-Jacobian is not finite: %s" % ladj.tolist())]
        return [("eq", "forward", y, y), ("eq", "ladj", ladj, ladj)]
    return scn


def ob_sample_shape_helpers():
    def body():
        from torchtree.core.container import Container
        from torchtree.core.parameter import Parameter
        from torchtree.distributions.distributions import Distribution
        n = 0
        for S in ((), (3,), (3, 2), (1,), (2, 2)):
            # univariate distribution over x of shape S+(1,), vector x of shape S+(4,)
            for dim in (1, 4):
                x = Parameter("x", torch.zeros(S + (dim,)))
                d = Distribution("d", torch.distributions.Normal, x, {"loc": Parameter(None, torch.zeros(1)), "scale": Parameter(None, torch.ones(1))})
                got = tuple(d.sample_shape)
                n += 1
                if got != S:
                    raise Refuted("Distribution.sample_shape for x of shape %s is %s, expected %s" % (S + (dim,), got, S), witness={"x_shape": list(S + (dim,))}, confirmed=True)
            ps = [Parameter("a", torch.zeros(S + (2,))), Parameter("b", torch.zeros((5,)))]
            c = Container("c", ps)
            n += 1
            if tuple(c.sample_shape) != S:
                raise Refuted("Container.sample_shape %s, expected %s" % (tuple(c.sample_shape), S), witness={"S": list(S)}, confirmed=True)
        return {"backend": "enum", "cases": n, "statement": "sample_shape = longest leading shape among the parameters"}
    return Ob("C10.sample_shape.helpers", "V", body, clause="sample-shape inference", funcs=FUNCS)


def ob_hierarchical_distribution():
    """a Distribution whose x AND parameters carry the sample dimension (hierarchical prior with sampled hyper-parameters):
    value for sample s must be the density of x[s] under the parameters' s-th slice, and a joint must not add samples up"""
    def body():
        from torchtree.core.parameter import Parameter
        from torchtree.distributions.distributions import Distribution
        from torchtree.distributions.joint_distribution import JointDistributionModel
        x = Parameter("x", torch.tensor([[0.1], [0.5], [0.9]], dtype=torch.float64))
        mu = Parameter("mu", torch.tensor([[0.0], [1.0], [2.0]], dtype=torch.float64))
        d = Distribution("d", torch.distributions.Normal, x, {"loc": mu, "scale": Parameter("sd", torch.ones(1, dtype=torch.float64))})
        want = [float(torch.distributions.Normal(mu.tensor[s], 1.0).log_prob(x.tensor[s])) for s in range(3)]
        try:
            got = JointDistributionModel("j", [d])()
        except Exception as e:
            return {"backend": "concrete", "statement": "unsupported combination raises (%s)" % type(e).__name__}
        if tuple(got.shape) != (3,) or any(abs(float(got[s]) - want[s]) > 1e-12 for s in range(3)):
            raise Refuted("Distribution with x [3,1] and loc [3,1]: sample_shape is %s and the joint returns %s (shape %s) instead of one value per sample %s"
                          % (tuple(d.sample_shape), got.tolist() if got.dim() else float(got), tuple(got.shape), want),
                          witness={"sample_shape": list(d.sample_shape), "joint": got.tolist() if got.dim() else float(got), "per_sample": want},
                          replay={"kind": "custom", "contract": "C10", "func": "replay_hierarchical", "args": {}}, confirmed=True)
        return {"backend": "concrete", "statement": "one value per sample"}
    return Ob("C10.sample_shape.hierarchical[Distribution,x and loc batched]", "V", body, clause="sample-shape inference: x and parameters both batched", funcs=FUNCS)


class _SiteEval:
    """callable view of a real WeibullSiteModel (3 categories + invariant + relative rate): evaluation = rates() or probabilities()"""

    def __init__(self, v, what):
        from torchtree.core.parameter import Parameter
        from torchtree.evolution.site_model import WeibullSiteModel
        self.m = WeibullSiteModel("sm", Parameter("shape", v["wshape"]), 3, Parameter("inv", v["winv"]), Parameter("mu", v["wmu"]))
        self.what = what

    no_joint = True

    def __call__(self):
        return getattr(self.m, self.what)()

    @property
    def sample_shape(self):
        return self.m.sample_shape if hasattr(self.m, "sample_shape") else torch.Size([])


def _real_models():
    """name -> (input names, build(inputs dict of tensors) -> CallableModel).  Inputs are given unbatched shapes; the obligation batches
    one subset at a time."""
    import torchtree.evolution.coalescent as co
    import torchtree.distributions.gmrf as gm
    import torchtree.evolution.bdsk as bd
    import torchtree.evolution.birth_death as bdc
    import torchtree.distributions.scale_mixture as sm
    import torchtree.distributions.bayesian_bridge as bb
    import torchtree.distributions.ctmc_scale as cs
    import torchtree.distributions.tree_prior as tp
    from torchtree.core.parameter import Parameter
    from specs import treemodels
    t64 = lambda v: torch.tensor(v, dtype=torch.float64)
    names = ["A", "B", "C", "D"]
    tree = ((0, 1), (2, 3))
    tips = [0.0, 0.5, 0.0, 1.0]
    base = {"heights": t64([1.2, 2.0, 3.0]), "theta1": t64([2.0]), "theta3": t64([2.0, 3.0, 1.5]), "growth1": t64([0.3]), "growth3": t64([0.3, -0.5, 0.8]),
            "wshape": t64([0.7]), "winv": t64([0.2]), "wmu": t64([1.5]),
            "field": t64([0.3, -0.2, 1.1]), "tau": t64([2.0]), "local3": t64([0.7, 1.4, 0.5]), "slab": t64([1.9]), "alpha": t64([0.6]), "rate1": t64([0.02]), "bl5": t64([0.1, 0.2, 0.15, 0.3, 0.05]), "cgd.alpha": t64([1.2]), "cgd.c": t64([0.8]), "cgd.shape": t64([1.5]), "cgd.rate": t64([2.0]), "R": t64([1.5]), "delta": t64([1.0]), "s": t64([0.3]), "rho": t64([0.4]), "origin": t64([5.0])}
    grid = t64([0.8, 2.1])

    def tm(v):
        return treemodels.build_timetree(tree, names, tips, v["heights"])[0]
    P = lambda n, v: Parameter(n, v[n])

    def utm(v):
        from torchtree.evolution.tree_model import UnRootedTreeModel, parse_tree
        taxa = treemodels.make_taxa(names, [0.0] * 4)
        return UnRootedTreeModel("utree", parse_tree(taxa, {"newick": "((A,B),C,D);"}), taxa, Parameter("bl", v["bl5"]))
    return base, {
        "ConstantCoalescentModel": (("heights", "theta1"), lambda v: co.ConstantCoalescentModel("m", P("theta1", v), tm(v))),
        "ExponentialCoalescentModel": (("heights", "theta1", "growth1"), lambda v: co.ExponentialCoalescentModel("m", P("theta1", v), P("growth1", v), tm(v))),
        "PiecewiseConstantCoalescentModel": (("heights", "theta3"), lambda v: co.PiecewiseConstantCoalescentModel("m", P("theta3", v), tm(v))),
        "PiecewiseConstantCoalescentGridModel": (("heights", "theta3"), lambda v: co.PiecewiseConstantCoalescentGridModel("m", P("theta3", v), Parameter("grid", grid.clone()), tm(v))),
        "PiecewiseExponentialCoalescentGridModel": (("heights", "theta1", "growth3"), lambda v: co.PiecewiseExponentialCoalescentGridModel("m", P("theta1", v), P("growth3", v), Parameter("grid", grid.clone()), tm(v))),
        "PiecewiseLinearCoalescentGridModel": (("heights", "theta3"), lambda v: co.PiecewiseLinearCoalescentGridModel("m", P("theta3", v), Parameter("grid", grid.clone()), tm(v))),
        "GMRF": (("field", "tau"), lambda v: gm.GMRF("m", P("field", v), P("tau", v))),
        "GMRF.timeaware": (("field", "tau", "heights"), lambda v: gm.GMRF("m", P("field", v), P("tau", v), tm(v))),
        "WeibullSiteModel.rates": (("wshape", "winv", "wmu"), lambda v: _SiteEval(v, "rates")),
        "WeibullSiteModel.probabilities": (("wshape", "winv", "wmu"), lambda v: _SiteEval(v, "probabilities")),
        "BDSKModel": (("heights", "R", "delta", "s", "rho", "origin"),
                      lambda v: bd.BDSKModel("m", tm(v), P("R", v), P("delta", v), P("s", v), rho=P("rho", v), origin=P("origin", v))),
        "BirthDeathModel": (("heights", "R", "delta", "s", "rho", "origin"),
                            lambda v: bdc.BirthDeathModel("m", tm(v), P("R", v), P("delta", v), P("s", v), P("rho", v), P("origin", v))),
        # shrinkage / scale priors: hierarchical by construction (a global scale with its own prior above a field)
        "ScaleMixtureNormal": (("field", "tau", "local3"), lambda v: sm.ScaleMixtureNormal("m", P("field", v), 0.0, P("tau", v), P("local3", v))),
        "ScaleMixtureNormal.slab": (("field", "tau", "local3", "slab"), lambda v: sm.ScaleMixtureNormal("m", P("field", v), 0.0, P("tau", v), P("local3", v), P("slab", v))),
        "BayesianBridge": (("field", "tau", "alpha"), lambda v: bb.BayesianBridge("m", P("field", v), P("tau", v), P("alpha", v))),
        "BayesianBridge.local": (("field", "tau", "local3"), lambda v: bb.BayesianBridge("m", P("field", v), P("tau", v), local_scale=P("local3", v))),
        "BayesianBridge.slab": (("field", "tau", "local3", "slab"), lambda v: bb.BayesianBridge("m", P("field", v), P("tau", v), local_scale=P("local3", v), slab=P("slab", v))),
        "CTMCScale": (("rate1", "heights"), lambda v: cs.CTMCScale("m", P("rate1", v), tm(v))),
        "CompoundGammaDirichletPrior": (("bl5", "cgd.alpha", "cgd.c", "cgd.shape", "cgd.rate"),
                                        lambda v: tp.CompoundGammaDirichletPrior("m", utm(v), P("cgd.alpha", v), P("cgd.c", v), P("cgd.shape", v), P("cgd.rate", v))),
    }


def ob_real_model_sample_shapes():
    """For every real model and every non-empty subset of its inputs carrying a sample dimension S (the others unbatched): either the
    combination raises, or (i) the value has one entry per sample, equal to the value of the model built from the s-th slices, (ii) the model
    REPORTS that sample shape (sample_shape is what JointDistributionModel uses to choose its reduction), and (iii) a joint holding only this
    model returns exactly those per-sample values."""
    def body():
        from torchtree.distributions.joint_distribution import JointDistributionModel
        base, models = _real_models()
        n, raised, bad = 0, [], []
        for mname, (inputs, build) in models.items():
            for S in (2, 3):
                for r in range(1, len(inputs) + 1):
                    for sub in itertools.combinations(inputs, r):
                        vals = {}
                        for k in inputs:
                            if k in sub:
                                # distinct values per sample (keeps heights ordered / rates positive)
                                vals[k] = torch.stack([base[k] * (1.0 + 0.17 * i) for i in range(S)])
                            else:
                                vals[k] = base[k].clone()
                        try:
                            m = build(vals)
                            v = m()
                        except Exception as e:
                            raised.append("%s%s" % (mname, list(sub)))
                            # an unsupported combination must KEEP failing: a second evaluation request without any change either raises again
                            # or returns the per-sample values (never numbers computed from a half-updated state)
                            try:
                                v2 = m()
                            except Exception:
                                continue
                            want2 = []
                            try:
                                for i in range(S):
                                    sl = {k: (vals[k][i] if k in sub else vals[k]) for k in inputs}
                                    want2.append(build(sl)().reshape(-1).sum())
                                ok2 = isinstance(v2, torch.Tensor) and v2.shape[:1] == (S,) and torch.allclose(v2.reshape(S, -1).sum(-1), torch.stack(want2), rtol=1e-9, atol=1e-11)
                            except Exception:
                                ok2 = False
                            if not ok2:
                                bad.append("%s, S=%d, batched inputs %s: the first evaluation raises %s but a second one returns %s"
                                           % (mname, S, list(sub), type(e).__name__, [round(float(x), 6) for x in v2.reshape(-1)[:4]] if isinstance(v2, torch.Tensor) else repr(v2)))
                            continue
                        n += 1
                        want = []
                        for i in range(S):
                            sl = {k: (vals[k][i] if k in sub else vals[k]) for k in inputs}
                            want.append(build(sl)().reshape(-1).sum())
                        want = torch.stack(want)
                        tag = "%s, S=%d, batched inputs %s" % (mname, S, list(sub))
                        if v.shape[:1] != (S,):
                            bad.append("%s: value has shape %s" % (tag, tuple(v.shape)))
                            continue
                        got = v.reshape(S, -1).sum(-1)
                        if not torch.allclose(got, want, rtol=1e-9, atol=1e-11):
                            bad.append("%s: per-sample values %s, values of the slices %s" % (tag, got.tolist(), want.tolist()))
                            continue
                        if getattr(m, "no_joint", False):
                            continue       # not a CallableModel (site-model accessor): value check only
                        if tuple(m.sample_shape) != (S,):
                            bad.append("%s: sample_shape reported as %s" % (tag, tuple(m.sample_shape)))
                            continue
                        try:
                            j = JointDistributionModel("j", [build(vals)])()
                        except Exception as e:
                            bad.append("%s: the model evaluates but a joint holding it raises %s: %s" % (tag, type(e).__name__, str(e)[:80]))
                            continue
                        if tuple(j.shape) != (S,) or not torch.allclose(j, want, rtol=1e-9, atol=1e-11):
                            bad.append("%s: joint returns %s (shape %s), per-sample values are %s" % (tag, j.tolist(), tuple(j.shape), want.tolist()))
        if bad:
            raise Refuted("real models with partially batched inputs: " + " | ".join(bad[:3]), witness={"failures": bad[:10], "models": sorted({b.split(",")[0] for b in bad})},
                          replay={"kind": "custom", "contract": "C10", "func": "replay_real_model_sample_shapes", "args": {}}, confirmed=True)
        if n == 0:
            raise Undecided("no combination evaluated")
        return {"backend": "heap", "cases": n, "raised": "%d combinations raise (accepted): %s" % (len(raised), raised[:6]),
                "statement": "%d (model, batched-input subset, S) combinations: per-sample values = values of the slices; sample_shape reported; joint agrees" % n}
    return Ob("C10.sample_shape.real_models", "B", body, clause="a model whose inputs are only partly batched still reports the sample shape and a joint does not add across samples", funcs=FUNCS)


def ob_underflow_mixed_batch(use_tip_states):
    """a batch in which only SOME samples underflow in the plain pass (real underflow, 400-taxon JC69 caterpillar): every sample's value is
    the value of that sample evaluated alone in a fresh model (finite) — the switch to rescaling is not decided for the batch as a whole"""
    def body():
        import contracts.C03 as C03
        from specs import treemodels
        torch.set_num_threads(1)
        T = 400
        n = 0
        for cases in ([3.0, 0.01], [0.01, 3.0], [3.0, 0.01, 2.5]):
            m = C03._caterpillar_batch_model(T, cases, use_tip_states)
            got = m().reshape(-1)
            for k, b in enumerate(cases):
                single = C03._caterpillar_model(T, False, use_tip_states)
                treemodels.tree_parameter(single.tree_model).tensor = torch.full((2 * T - 3,), float(b), dtype=torch.float64)
                want = float(single().reshape(-1)[0])
                n += 1
                x = float(got[k])
                if not (x == x) or abs(x) == float("inf") or abs(x - want) > 1e-8 * abs(want):
                    raise Refuted("batch of branch-length samples %s (tip_states=%s): sample %d returns %r in the batch and %r evaluated alone"
                                  % (cases, use_tip_states, k, x, want), witness={"cases": cases, "sample": k},
                                  replay={"kind": "custom", "contract": "C10", "func": "replay_underflow_mixed_batch", "args": {"tip_states": use_tip_states}}, confirmed=True)
        return {"backend": "concrete", "cases": n, "statement": "%d samples of mixed (underflowing / not underflowing) batches equal their single-sample evaluation" % n}
    return Ob("C10.likelihood.underflow_mixed_batch[tip_states=%s]" % use_tip_states, "B", body,
              clause="result[s] is the result of the s-th slice also when only some samples underflow", funcs=FUNCS, timeout=600)


def replay_underflow_mixed_batch(args):
    try:
        ob_underflow_mixed_batch(args["tip_states"]).fn()
    except Refuted as e:
        return False, e.detail
    return True, "held"


def ob_bdsk_rho_unbatched():
    """birth-death skyline with several epochs, rates carrying a sample dimension and ONE unbatched sampling probability at the present (what a
    configuration with a fixed rho and sampled rates gives): every sample equals the evaluation of its own slices with the same rho"""
    def body():
        import torchtree.evolution.bdsk as bd
        t = lambda v: torch.tensor(v, dtype=torch.float64)
        nh = t([0.0, 0.0, 0.0, 0.0, 2.0, 4.0, 5.0])
        n = 0
        for m_ in (2, 3):
            lam = t([[3.0, 2.0, 2.5][:m_], [2.5, 1.5, 1.1][:m_]])
            mu = t([[1.0, 0.7, 0.4][:m_], [0.9, 0.6, 0.8][:m_]])
            psi = t([[0.5, 0.4, 0.3][:m_], [0.3, 0.2, 0.6][:m_]])
            for rho in ([0.3], [0.0]):
                for hb in (False, True):
                    heights = nh.repeat(2, 1) if hb else nh
                    try:
                        got = bd.PiecewiseConstantBirthDeath(lam, mu, psi, rho=t(rho), origin=t([6.0]), survival=False).log_prob(heights).reshape(-1)
                    except Exception:
                        continue       # an unsupported combination that raises is accepted
                    for s_ in range(2):
                        want = float(bd.PiecewiseConstantBirthDeath(lam[s_], mu[s_], psi[s_], rho=t(rho), origin=t([6.0]), survival=False).log_prob(nh).reshape(-1)[0])
                        n += 1
                        x = float(got[s_])
                        if not (x == x) or abs(x - want) > 1e-9 * abs(want):
                            raise Refuted("BDSK with %d epochs, rates batched [2,%d], rho = %s unbatched, node heights %s: sample %d is %r in the batch and %r from its own slices" % (
                                m_, m_, rho, "batched" if hb else "unbatched", s_, x, want), witness={"epochs": m_, "rho": rho, "sample": s_}, confirmed=True,
                                replay={"kind": "custom", "contract": "C10", "func": "replay_bdsk_rho_unbatched", "args": {}})
        if n == 0:
            raise Undecided("every combination raised: nothing compared")
        return {"backend": "concrete", "cases": n, "statement": "%d samples of BDSK batches with an unbatched rho equal the evaluation of their own slices" % n}
    return Ob("C10.bdsk.rho_unbatched", "B", body, clause="result[s] is the result of the s-th slices when only the rates are batched (bounded)", funcs=FUNCS)


def replay_bdsk_rho_unbatched(args):
    try:
        ob_bdsk_rho_unbatched().fn()
    except Refuted as e:
        return False, e.detail
    return True, "held"


def ob_scale_separated_batch():
    """samples of very different magnitude in one batch (root heights 3 ... 300 with the smooth-max node-height transform at k = 100, population
    sizes 1e-3 ... 1e3, Weibull shapes 0.05 ... 50): every sample equals its single-sample evaluation in floating point, i.e. nothing
    (a shift, a normaliser, a maximum) is taken over the sample dimension"""
    def body():
        import torchtree.evolution.coalescent as co
        from specs import treemodels
        from torchtree.core.parameter import Parameter
        from torchtree.evolution.site_model import WeibullSiteModel
        from torchtree.evolution.tree_height_transform import DifferenceNodeHeightTransform
        n = 0
        names, dates = ["A", "B", "C", "D", "E"], [0.0, 1.0, 0.5, 2.0, 0.0]
        tree = (((0, 1), 2), (3, 4))
        base = torch.tensor([0.6, 0.9, 0.4, 1.1], dtype=torch.float64)

        def close(a, b):
            return a.shape == b.shape and bool(torch.isfinite(a).all()) and torch.allclose(a, b, rtol=1e-9, atol=1e-12)
        for scales in ([1.0, 3.0, 10.0], [100.0, 1.0], [1.0, 1.0, 40.0]):
            for k in (10.0, 100.0):
                def model(shifts):
                    tm, _ = treemodels.build_reparam(tree, names, dates, shifts, kind="shifts")
                    tm.transform = DifferenceNodeHeightTransform(tm, k)
                    return tm
                rows = torch.stack([base * c for c in scales])
                tmb = model(rows.clone())
                hb = tmb.node_heights
                cb = co.ConstantCoalescent(torch.tensor([[2.0]] * len(scales), dtype=torch.float64)).log_prob(hb)
                for s_, c in enumerate(scales):
                    hs = model((base * c).clone()).node_heights
                    cs = co.ConstantCoalescent(torch.tensor([2.0], dtype=torch.float64)).log_prob(hs)
                    n += 1
                    if not close(hb[s_], hs) or not close(cb[s_].reshape(-1), cs.reshape(-1)):
                        raise Refuted("DifferenceNodeHeightTransform(k=%s), batch of height increments with scales %s: sample %d has node heights %s in the batch and %s alone "
                                      "(coalescent density %s vs %s)" % (k, scales, s_, hb[s_].tolist(), hs.tolist(), cb[s_].tolist(), cs.tolist()),
                                      witness={"scales": scales, "k": k, "sample": s_}, confirmed=True,
                                      replay={"kind": "custom", "contract": "C10", "func": "replay_scale_separated_batch", "args": {}})
        # population sizes and heights of different magnitude, every coalescent with a closed form
        h0 = torch.tensor([0.0, 0.0, 0.5, 1.0, 1.5, 2.5, 4.0], dtype=torch.float64)
        for mags in ([1e-3, 1.0, 1e3], [1e4, 1e-2]):
            H = torch.stack([h0 * m_ for m_ in mags])
            TH = torch.stack([torch.tensor([3.0, 10.0, 4.0], dtype=torch.float64) * m_ for m_ in mags])
            for name, mk_ in (("constant", lambda th: co.ConstantCoalescent(th[..., :1])), ("skyride", lambda th: co.PiecewiseConstantCoalescent(th)),
                              ("exponential", lambda th: co.ExponentialCoalescent(th[..., :1], 0.3 / th[..., 1:2]))):
                got = mk_(TH).log_prob(H)
                for s_ in range(len(mags)):
                    want = mk_(TH[s_]).log_prob(H[s_])
                    n += 1
                    if not close(got[s_].reshape(-1), want.reshape(-1)):
                        raise Refuted("%s coalescent, batch of magnitudes %s: sample %d is %s in the batch and %s alone" % (name, mags, s_, got[s_].tolist(), want.tolist()),
                                      witness={"model": name, "mags": mags, "sample": s_}, confirmed=True,
                                      replay={"kind": "custom", "contract": "C10", "func": "replay_scale_separated_batch", "args": {}})
        for shapes in ([0.05, 1.0, 50.0], [20.0, 0.1]):
            sm = WeibullSiteModel("w", Parameter("s", torch.tensor([[v] for v in shapes], dtype=torch.float64)), 4)
            rb = sm.rates()
            for s_, v in enumerate(shapes):
                rs = WeibullSiteModel("w1", Parameter("s1", torch.tensor([v], dtype=torch.float64)), 4).rates()
                n += 1
                if not close(rb[s_].reshape(-1), rs.reshape(-1)):
                    raise Refuted("Weibull site model, batch of shapes %s: sample %d has rates %s in the batch and %s alone" % (shapes, s_, rb[s_].tolist(), rs.tolist()),
                                  witness={"shapes": shapes, "sample": s_}, confirmed=True,
                                  replay={"kind": "custom", "contract": "C10", "func": "replay_scale_separated_batch", "args": {}})
        return {"backend": "concrete", "cases": n, "bounded": "the listed magnitudes, float64",
                "statement": "%d samples of scale-separated batches equal their single-sample evaluation (relative 1e-9)" % n}
    return Ob("C10.scale_separated_batch", "B", body, clause="result[s] is the result of the s-th slice also when the samples differ by orders of magnitude", funcs=FUNCS, timeout=600)


def replay_scale_separated_batch(args):
    try:
        ob_scale_separated_batch().fn()
    except Refuted as e:
        return False, e.detail
    return True, "held"


def ob_bdsk_rho_zero_in_batch():
    """birth-death skyline, all tips at the present, a batch in which SOME samples have no sampling at the present (rho = 0: their tips are
    psi-samples) and others have rho > 0: every sample equals its single-sample evaluation"""
    def body():
        import torchtree.evolution.bdsk as bd
        t = lambda v: torch.tensor(v, dtype=torch.float64)
        nh = t([0.0, 0.0, 0.0, 1.0, 2.5])
        n = 0
        for rhos in ([0.4, 0.0], [0.0, 0.4], [0.0, 0.3, 0.0], [0.5, 0.2]):
            S = len(rhos)
            lam, mu, psi, org = t([[2.0]] * S), t([[1.0]] * S), t([[0.5]] * S), t([[5.0]] * S)
            try:
                got = bd.PiecewiseConstantBirthDeath(lam, mu, psi, rho=t([[r] for r in rhos]), origin=org, survival=True).log_prob(nh.expand(S, -1)).reshape(-1)
            except Exception:
                continue
            for k, r in enumerate(rhos):
                want = float(bd.PiecewiseConstantBirthDeath(t([2.0]), t([1.0]), t([0.5]), rho=t([r]), origin=t([5.0]), survival=True).log_prob(nh).reshape(-1)[0])
                n += 1
                if abs(float(got[k]) - want) > 1e-9 * max(1.0, abs(want)) or float(got[k]) != float(got[k]):
                    raise Refuted("BDSK batch with rho at the present %s: sample %d returns %r in the batch and %r evaluated alone" % (rhos, k, float(got[k]), want),
                                  witness={"rhos": rhos, "sample": k}, replay={"kind": "custom", "contract": "C10", "func": "replay_bdsk_rho_zero_in_batch", "args": {}}, confirmed=True)
        if n == 0:
            raise Undecided("no batch could be evaluated")
        return {"backend": "concrete", "cases": n, "statement": "%d samples of batches mixing rho = 0 and rho > 0 equal their single-sample evaluation" % n}
    return Ob("C10.bdsk.rho_zero_in_batch", "B", body, clause="result[s] is the result of the s-th slice when only some samples have sampling at the present", funcs=FUNCS)


def replay_bdsk_rho_zero_in_batch(args):
    try:
        ob_bdsk_rho_zero_in_batch().fn()
    except Refuted as e:
        return False, e.detail
    return True, "held"


def replay_real_model_sample_shapes(args):
    try:
        ob_real_model_sample_shapes().fn()
    except Refuted as e:
        return False, e.detail
    return True, "held"


def replay_hierarchical(args):
    try:
        ob_hierarchical_distribution().fn()
    except Refuted as e:
        return False, e.detail
    return True, "held"


def obligations(tier, seed):
    obs = []
    R = (2, 3) if tier == "quick" else (1, 2, 3, 4, 5)

    def add(name, contract, factory, args_b, args_u, pick, batch, **kw):
        kw.setdefault("max_paths", 20000)
        kw.setdefault("crosscheck", 1)
        obs.append(scenario_ob("C10", name, "V", "scn_slice", (contract, factory, list(args_b), list(args_u), pick, list(batch)),
                               clause="result[s] ≡ result of the s-th slices (or raises)", funcs=FUNCS, seed=seed, **kw))

    shapes = [(S,) for S in R] + [(S, K) for S in R for K in R if (tier == "thorough" or (S, K) in ((2, 2), (2, 3), (3, 2)))]
    # a sample dimension of size one (the classic squeeze / broadcast slip) in every position
    ones = [(1,), (1, 2), (2, 1)]
    if tier == "quick":
        shapes = shapes[:5] + ones + shapes[5:]
    # site models (all parameters batched)
    for b in shapes:
        add("C10.site.weibull[K=4,inv,mu,batch=%s]" % (b,), "C05", "scn_weibull", (4, b, True, True), (4, (), True, True), "rates_value", b)
        add("C10.site.invariant[batch=%s]" % (b,), "C05", "scn_invariant", (b, True), ((), True), "rates_value", b)
    # substitution models: q with every subset batched
    for b in shapes[:4] + (ones[:2] if tier == "quick" else []):
        for pb, fb in ((b, ()), ((), b), (b, b)):
            for kind in ("HKY", "GTR"):
                add("C10.subst.q.%s[pbatch=%s,fbatch=%s]" % (kind, pb, fb), "C04", "scn_q", (kind, pb, fb), (kind, (), ()), "rows_sum_to_zero" if False else None, b)
    # coalescents: heights and/or parameters batched
    for model, grid in (("constant", None), ("exponential", None), ("skyride", None), ("skygrid", [0.4, 2.5]), ("linear", [0.4, 2.5])):
        for b in ([(2,), (3,), (1,), (2, 2), (1, 2), (2, 1)] if tier == "quick" else [(1,), (2,), (3,), (2, 2), (1, 2), (2, 1), (3, 2)]):
            for hb, tb in ((b, ()), ((), b), (b, b)):
                T = 2
                ab = (model, T, "serial", hb, tb) + ((grid,) if grid else ())
                au = (model, T, "serial", (), ()) + ((grid,) if grid else ())
                add("C10.coalescent.%s[hbatch=%s,tbatch=%s]" % (model, hb, tb), "C08", "scn_coalescent", ab, au, "log_prob_is_kingman", b)
    # sample dimensions of DIFFERENT size in one call (1 next to S): either the call raises or the size-one input stands for every sample
    for model, grid in (("constant", None), ("exponential", None), ("skyride", None), ("skygrid", [0.4, 2.5]), ("linear", [0.4, 2.5])):
        for hb, tb, b in (((1,), (2,), (2,)), ((2,), (1,), (2,)), ((1,), (3,), (3,))):
            ab = (model, 2, "serial", hb, tb) + ((grid,) if grid else ())
            au = (model, 2, "serial", (), ()) + ((grid,) if grid else ())
            add("C10.coalescent.%s.size_one[hbatch=%s,tbatch=%s]" % (model, hb, tb), "C08", "scn_coalescent", ab, au, "log_prob_is_kingman", b)
    # compound gamma-Dirichlet prior: hyper-parameters and / or branch lengths batched
    for b in [(2,), (3,), (1,), (2, 2)]:
        for pb, xb in ((b, ()), ((), b), (b, b)):
            add("C10.gamma_dirichlet[pbatch=%s,xbatch=%s]" % (pb, xb), "C10", "scn_gamma_dirichlet", (pb, xb), ((), ()), "log_density", b)
    add("C10.gamma_dirichlet[only alpha batched (2,),xbatch=(2,)]", "C10", "scn_gamma_dirichlet", ((2,), (2,), ["alpha"]), ((), ()), "log_density", (2,))
    # rescaled pruning functions (tip partials and tip states), sample shape equal / unequal to the number of rate categories
    for b in [(2,), (3,), (1,), (2, 2)]:
        add("C10.likelihood.rescaled[partials,K=2,batch=%s]" % (b,), "C03", "scn_rescaled", ("partials", "((0,1),2)", 2, 2, b, 1), ("partials", "((0,1),2)", 2, 2, (), 1), "rescaled_equals_plain", b)
        add("C10.likelihood.rescaled[states,K=2,batch=%s]" % (b,), "C03", "scn_rescaled", ("states", "((0,1),2)", 2, 2, b, [[0, 1], [1, 2], [0, 0]]),
            ("states", "((0,1),2)", 2, 2, (), [[0, 1], [1, 2], [0, 0]]), "rescaled_equals_plain", b)
    # birth-death skyline: parameters and/or node heights batched
    for b in [(2,), (3,), (1,), (2, 2)]:
        for pb, hb in ((b, ()), ((), b), (b, b)):
            for m_ in (1, 2):
                if m_ == 2 and (tier == "quick" or b != (2,)):
                    continue   # two epochs: 16 paths x sqrt-heavy identities, ~6 min per obligation: thorough tier, sample shape (2,) only
                add("C10.bdsk[m=%d,pbatch=%s,hbatch=%s]" % (m_, pb, hb), "C10", "scn_bdsk", (2, m_, pb, hb), (2, m_, (), ()), "log_density", b, timeout=1500)
    # GMRF
    for b in shapes[:8]:
        add("C10.gmrf.plain[N=4,batch=%s]" % (b,), "C20", "scn_gmrf", ("plain", 4, b), ("plain", 4, ()), "density_is_quadratic_form_of_published_precision", b)
    # time-aware GMRF: field, precision AND node heights batched (rescaling by the root height of the SAME sample); incl. S = number of differences
    for N_, b in ((3, (2,)), (4, (3,)), (3, (3,)), (4, (2,))):
        add("C10.gmrf.timeaware[N=%d,batch=%s,heights batched]" % (N_, b), "C20", "scn_gmrf", ("timeaware_hb", N_, b), ("timeaware", N_, ()), "density_is_quadratic_form_of_published_precision", b)
    add("C10.gmrf.timeaware[N=3,batch=(2,),heights fixed]", "C20", "scn_gmrf", ("timeaware", 3, (2,)), ("timeaware", 3, ()), "density_is_quadratic_form_of_published_precision", (2,))
    add("C10.gmrf.weighted[N=4,batch=(3,)]", "C20", "scn_gmrf", ("weighted", 4, (3,)), ("weighted", 4, ()), "density_is_quadratic_form_of_published_precision", (3,))
    # transforms
    for b in shapes[:8]:
        for kind in ("cumsum", "cumsumexp", "softplus", "cumsumsoftplus", "log"):
            add("C10.transform.%s.forward[batch=%s]" % (kind, b), "C10", "scn_transform_values", (kind, 3, b), (kind, 3, ()), "forward", b)
            add("C10.transform.%s.ladj[batch=%s]" % (kind, b), "C10", "scn_transform_values", (kind, 3, b), (kind, 3, ()), "ladj", b)
    for b in [(2,), (3,), (1,), (2, 2), (1, 2), (2, 1)]:
        add("C10.nodeheight.ratio[batch=%s]" % (b,), "C06", "scn_ratio", ("((0,1),(2,3))", "hetero", b), ("((0,1),(2,3))", "hetero", ()), "inverse_of_forward_is_identity", b)
    # tree likelihood pipeline: tree parameters batched, site / substitution parameters not ("some")
    for b in [(2,), (3,), (1,), (2, 2), (1, 2), (2, 1)]:
        a = lambda bb: ("((A,B),C);", ["C", "A", "B"], ["AC", "CG", "GT"], [0.0, 0.0, 0.0], "unrooted", None, "weibull", 2, False, True, bb, "JC69")
        add("C10.likelihood.model[unrooted,weibull,batch=%s]" % (b,), "C01", "scn_model", a(b), a(()), "model_loglik_is_marginal", b)
        a2 = lambda bb: ("((A,B),C);", ["A", "B", "C"], ["AC", "CG", "GT"], [0.0, 1.0, 0.0], "time", "strict", "constant", 1, False, True, bb, "JC69")
        add("C10.likelihood.model[time,strict,batch=%s]" % (b,), "C01", "scn_model", a2(b), a2(()), "model_loglik_is_marginal", b)
    # "some": only the clock rates are batched (node heights fixed), and only the heights are batched (clock fixed)
    for ck in ("strict", "simple"):
        base = ("((A,B),C);", ["A", "B", "C"], ["AC", "CG", "GT"], [0.0, 1.0, 0.0], "time", ck, "constant", 1, False, True)
        for b in [(2,), (3,), (1,), (2, 2)]:
            add("C10.likelihood.model[time,%s,clock batch=%s,heights fixed]" % (ck, b), "C01", "scn_model", base + ((), "JC69", False, b), base + ((), "JC69", False, ()), "model_loglik_is_marginal", b)
            add("C10.likelihood.model[time,%s,heights batch=%s,clock fixed]" % (ck, b), "C01", "scn_model", base + (b, "JC69", False, ()), base + ((), "JC69", False, ()), "model_loglik_is_marginal", b)
    # joint distribution with abstract components
    comp_sets = [[()], [(), ()], [(1,)], [(), (1,)], [(2,)], [(), (3,)], [(2, 2)], [(), (1,), (3,)],
                 [(), ("u",)], [(), ("u", 1)], [(), ("u", 3)], [(1,), ("u", 2)], [(), ("u", 2, 2)], [(2,), ("u",), ("u", 4)]]
    for b in [(2,), (3,), (2, 3), (1,), (1, 2)] + ([(4,), (5,), (3, 3), (2, 1)] if tier == "thorough" else []):
        for cs in comp_sets:
            obs.append(scenario_ob("C10", "C10.joint[sample=%s,components=%s]" % (b, cs), "V", "scn_joint", (b, cs),
                                   clause="joint adds components of the same sample only", funcs=FUNCS, seed=seed))
    # components of different sample rank, square sample shapes included (right-aligned broadcasting would pair sample k of one
    # component with sample (s,k) of the other): the joint either raises or adds A[s] to B[s,k]
    for b in [(2, 2), (3, 3), (2, 3), (3, 2)]:
        for cs in ([("p", 1), ()], [(), ("p", 1)], [("p", 1, 2), ()], [("p", 1), (2,)], [("p", 1), (), ("u",)]):
            obs.append(scenario_ob("C10", "C10.joint.mixed_rank[sample=%s,components=%s]" % (b, cs), "V", "scn_joint", (b, cs),
                                   clause="joint adds components of the same sample only (components of different sample rank)", funcs=FUNCS, seed=seed))
    obs.append(ob_sample_shape_helpers())
    obs.append(ob_real_model_sample_shapes())
    obs.append(ob_bdsk_rho_zero_in_batch())
    obs.append(ob_scale_separated_batch())
    obs.append(ob_bdsk_rho_unbatched())
    for ts_ in (False, True):
        obs.append(ob_underflow_mixed_batch(ts_))
    obs.append(ob_hierarchical_distribution())
    return obs
