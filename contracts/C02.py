"""C02 — likelihood is invariant to how the same tree and data are written down (DESIGN 4, C02).

Relational contracts on the REAL pipeline (parse_tree, UnRootedTreeModel, Alignment, SitePattern, TreeLikelihoodModel):
two descriptions A and B of the same tree and data (children reordered at every node, taxa list permuted,
sequence list permuted, alignment columns permuted / duplicated, tip states instead of tip partials with
ambiguities as missing, root moved to another branch) are built with the SAME symbolic branch-length variable
attached to the same branch (identified by its split of the taxon names, independent of any index), and
   ensures   loglik(A) ≡ loglik(B)
Substitution model: the contract stub P(t,i,j) (rows sum to one, P(0)=I) for all clauses except re-rooting,
which needs reversibility and P(s)P(t)=P(s+t): there the real JC69 closed form is used (exp rules prove the
pulley identity exactly); for HKY/GTR re-rooting a bounded numeric stand-in with the real models is run.
Also: UnRootedTreeModel.from_json(keep_branch_lengths) sums the two root branch lengths onto the surviving branch.
"""
import ast
import itertools
import random

import torch

from specs import trees
from vt import nf
from vt.runner import Ob, Refuted
from vt.scenario import el, scenario_ob

import contracts.C01 as C01

FUNCS = C01.FUNCS + [
    "torchtree.evolution.tree_model:UnRootedTreeModel.from_json",
    "torchtree.evolution.substitution_model.nucleotide:JC69.p_t",
]

META = {
    "level": "other",
    "explanation": "Each obligation builds two real model objects from two write-ups of the same tree and data with shared symbolic "
                   "branch lengths (keyed by taxon-name splits) and proves the two log-likelihood terms identical for all parameter "
                   "values. Permutations / root placements are enumerated (all children orders via random shuffles, taxa and sequence "
                   "permutations, all 2n-3 root placements for the listed trees). Re-rooting for general reversible models rests on the "
                   "classical pulley principle (reversibility + Chapman-Kolmogorov, both proved for the rate matrices in C04); it is "
                   "proved exactly for JC69 and checked numerically (bounded) for HKY/GTR.",
    "bound": "trees T<=5; all root placements for T<=5; permutations sampled (seeded) plus all of them for T=3",
    "trusted_base": [
        "substitution model contract stub (rows sum to one, P(0)=I) from C04 for the non-rerooting clauses",
        "pulley principle for general reversible models (classical lemma; exact proof only for JC69, numeric stand-in for HKY/GTR)",
        "dendropy traversal (C01.postorder, bounded)", "real arithmetic",
    ],
    "assumptions": ["machine arithmetic treated as mathematical (reals)"],
}

MANIFEST = {
    "category": "other",
    "text": "Relational verification on the real pipeline: two write-ups of the same tree/data with shared symbolic branch lengths give "
            "identical log-likelihood terms (children order, taxa order, sequence order, column order, tip states vs partials, "
            "root placement for JC69), for all parameter values; bounded numeric stand-in for re-rooting under HKY/GTR.",
    "note": "Enumerated tree shapes / permutations; pulley principle assumed for non-JC reversible models; reals.",
    "technique": "sidecar relational contracts + symbolic execution of the real pipeline + exact normal form (exp rules for the JC69 pulley identity)",
}

NAMES = ["A", "B", "C", "D", "E"]
SEQS = {"A": "ACGURN-AC", "B": "CcGYAN?Gu", "C": "GATTAC-KA", "D": "TAGSWMBDC", "E": "AMCGTVHAG"}
# columns 9 and 10 equal column 4 except for WHICH non-state symbol some taxa carry (another partial ambiguity code / an unknown): with
# ambiguities honoured they are three different patterns, with ambiguities as missing (or tip states) they are one
SEQS = {n: q + x for (n, q), x in zip(SEQS.items(), ("YN", "AA", "AA", "S-", "TT"))}


def _clades(node, nodes):
    """set of leaf names below node (oracle view)"""
    n = nodes[node]
    if not n["children"]:
        return frozenset([n["name"]])
    s = frozenset()
    for c in n["children"]:
        s = s | _clades(c, nodes)
    return s


def _leaves_in_order(n):
    if not n["children"]:
        return [n]
    out = []
    for c in n["children"]:
        out += _leaves_in_order(c)
    return out


def _build(mk, desc, T, blsym, subst_kind, freqs, site_pattern=None):
    """desc: dict(newick, taxa(list of names), seq_order(list), cols(list of column indices), tip_states, use_amb).
    site_pattern: a SitePattern object to SHARE (built from the same description) instead of a fresh one"""
    from torchtree.core.parameter import Parameter
    from torchtree.evolution.alignment import Alignment, Sequence
    from torchtree.evolution.datatype import NucleotideDataType
    from torchtree.evolution.site_model import ConstantSiteModel
    from torchtree.evolution.site_pattern import SitePattern
    from torchtree.evolution.substitution_model.nucleotide import JC69
    from torchtree.evolution.taxa import Taxa, Taxon
    from torchtree.evolution.tree_likelihood import TreeLikelihoodModel
    from torchtree.evolution.tree_model import UnRootedTreeModel, parse_tree
    taxa_names = desc["taxa"]
    allnames = frozenset(taxa_names)
    taxa = Taxa("taxa", [Taxon(n, {}) for n in taxa_names])
    seqs = {n: "".join(SEQS[n][c] for c in desc["cols"]) for n in taxa_names}
    aln_taxa = taxa
    if desc.get("aln_taxa"):
        # the alignment carries a Taxa object of its OWN (same taxa, another order): one more way of writing the same data down
        aln_taxa = Taxa("taxa.alignment", [Taxon(n, {}) for n in desc["aln_taxa"]])
    aln = Alignment("a", [Sequence(n, seqs[n]) for n in desc["seq_order"]], aln_taxa, NucleotideDataType(None))
    # Taxa and Alignment are mutable lists: an edit between their construction and the construction of the tree model / likelihood
    # is one more way of writing the same data down (leaf indices follow the Taxa order at the time the tree model is built)
    edit = desc.get("edit")
    if edit == "aln.sort":
        aln.sort(key=lambda q: q.taxon)
    elif edit == "aln.reverse":
        aln.reverse()
    elif edit == "taxa.reverse":
        taxa.reverse()
        taxa_names = list(reversed(taxa_names))
    elif edit == "taxa.sort":
        taxa.sort(key=lambda q: q.id, reverse=True)
        taxa_names = sorted(taxa_names, reverse=True)
    elif edit is not None:
        raise RuntimeError("unknown edit %r" % (edit,))
    tdata = {"newick": desc.get("tag", "") + desc["newick"]}
    index_names = taxa_names
    if desc.get("postorder"):
        # JSON option use_postorder_indices: leaves are numbered in the order in which the NEWICK string lists them (the branch-length
        # vector follows that numbering); which tip carries which sequence is still decided by the NAMES
        tdata["use_postorder_indices"] = True
        index_names = [n["name"] for n in _leaves_in_order(trees.parse_newick(desc["newick"]))]
    tree = parse_tree(taxa, tdata)
    nodes, root = trees.index_tree(trees.parse_newick(desc["newick"]), index_names)
    # branch-length vector: entry i belongs to the branch above node i, identified by its split
    vals = []
    for i in range(2 * T - 3):
        cl = _clades(i, nodes)
        key = min(tuple(sorted(cl)), tuple(sorted(allnames - cl)))
        vals.append(blsym[key])
    if mk.symbolic:
        from vt.symtorch import from_rfs
        bl = from_rfs(vals)
    else:
        bl = torch.tensor([float(v) for v in vals], dtype=torch.float64)
    tm = UnRootedTreeModel("t", tree, taxa, Parameter("bl", bl))
    subst = JC69("jc") if subst_kind == "JC69" else C01.make_subst_stub(mk, freqs, 4)
    def mk_sp():
        if desc.get("indices") is None:
            return SitePattern("sp", aln)
        # the column selection written as the 'indices' option of the site pattern (parsed by the real from_json)
        return SitePattern.from_json({"id": "sp", "type": "SitePattern", "alignment": "a", "indices": desc["indices"]}, {"a": aln})
    if site_pattern == "make":
        return mk_sp()
    return TreeLikelihoodModel("like", site_pattern if site_pattern is not None else mk_sp(), tm, subst, ConstantSiteModel("sm"),
                               use_ambiguities=desc.get("use_amb", True), use_tip_states=desc.get("tip_states", False))


def scn_relational(T, descA, descB, subst_kind):
    def scn(mk):
        names = NAMES[:T]
        allnames = frozenset(names)
        # one symbolic length per split of the unrooted tree (collect from A's write-up)
        nodesA, rootA = trees.index_tree(trees.parse_newick(descA["newick"]), descA["taxa"])
        keys = []
        for i in range(2 * T - 2):
            cl = _clades(i, nodesA)
            key = min(tuple(sorted(cl)), tuple(sorted(allnames - cl)))
            if key not in keys:
                keys.append(key)
        if len(keys) != 2 * T - 3:
            raise RuntimeError("expected %d splits, got %d" % (2 * T - 3, len(keys)))
        t = mk.real("t", (len(keys),), lo=0)
        blsym = {k: el(t, (i,)) for i, k in enumerate(keys)}
        freqs = mk.real("pi", (4,), lo=0) if subst_kind != "JC69" else None
        mA = _build(mk, descA, T, blsym, subst_kind, freqs)
        mB = _build(mk, descB, T, blsym, subst_kind, freqs)
        return [("eq", "same_loglik_for_both_writeups", mA(), mB())]
    return scn


def scn_shared_site_pattern(T, base, variants):
    """ONE SitePattern object shared by several likelihood models built one after the other (as when it is defined once in a JSON file and
    referenced by id) with different data-representation options (use_ambiguities / use_tip_states), in the given order: every model's value
    equals that of the same model built on its own fresh SitePattern — the way the data is written down (here: shared or not, and the order
    the models are declared in) does not change the likelihood."""
    def scn(mk):
        names = NAMES[:T]
        allnames = frozenset(names)
        nodesA, rootA = trees.index_tree(trees.parse_newick(base["newick"]), base["taxa"])
        keys = []
        for i in range(2 * T - 2):
            cl = _clades(i, nodesA)
            key = min(tuple(sorted(cl)), tuple(sorted(allnames - cl)))
            if key not in keys:
                keys.append(key)
        t = mk.real("t", (len(keys),), lo=0)
        blsym = {k: el(t, (i,)) for i, k in enumerate(keys)}
        freqs = mk.real("pi", (4,), lo=0)
        shared = _build(mk, base, T, blsym, "stub", freqs, site_pattern="make")
        got, want = [], []
        models = []
        for v in variants:      # construct ALL sharing models first (construction is where tips are computed), then evaluate
            models.append(_build(mk, dict(base, **v), T, blsym, "stub", freqs, site_pattern=shared))
        for v, m in zip(variants, models):
            got.append(m())
            want.append(_build(mk, dict(base, **v), T, blsym, "stub", freqs)())
        cl = []
        for k, v in enumerate(variants):
            cl.append(("eq", "model%d_%s_on_shared_pattern_equals_own_pattern" % (k, "+".join("%s=%s" % kv for kv in sorted(v.items()))), got[k], want[k]))
        return cl
    return scn


def scn_states_vs_partials_rescaled(tree_s, K, batch, cols):
    """tip-state and tip-partial representations of the same determinate data give the same value ALSO in rescaling mode and with a sample
    dimension (incl. sample shape == number of rate categories): the two real rescaled pruning functions on the same symbolic matrices"""
    import ast as _ast
    tree = _ast.literal_eval(tree_s)
    T = tree_s.count(",") + 1
    batch = tuple(batch)

    def scn(mk):
        import contracts.C03 as C03
        from torchtree.evolution import tree_likelihood as tl
        from vt.stubs import symbolic_factories
        S = 2
        post = trees.postorder_triples(tree, T)
        mats = mk.real("P", batch + (2 * T - 2, K, S, S), lo=0)
        freqs = mk.real("pi", (1, S), lo=0)
        props = mk.real("w", (K, 1, 1), lo=0)
        N = len(cols[0])
        weights = mk.real("wt", (N,), lo=0)
        states = [torch.tensor(cols[i], dtype=torch.long) for i in range(T)]
        onehot = [torch.tensor([[1.0 if cols[i][n] == s_ else 0.0 for n in range(N)] for s_ in range(S)], dtype=torch.float64) for i in range(T)]
        if mk.symbolic:
            onehot = [mk.lift(t) for t in onehot]
        pl = [list(p) for p in post]
        counter = [0]
        extra = {"max": C03._max_contract(mk, counter)} if mk.symbolic else None
        with symbolic_factories(tl, extra=extra, enabled=mk.symbolic):
            a = tl.calculate_treelikelihood_tip_states_discrete_rescaled(list(states) + [None] * (T - 1), weights, [list(p) for p in pl], mats, freqs, props)
            b = tl.calculate_treelikelihood_discrete_rescaled(list(onehot) + [None] * (T - 1), weights, [list(p) for p in pl], mats, freqs, props)
        return [("true", "same_shape", tuple(a.shape) == tuple(b.shape), "%s vs %s" % (tuple(a.shape), tuple(b.shape))),
                ("eq", "tip_states_equal_tip_partials_when_rescaled", a, b)]
    return scn


def _reroot(tree, target):
    """nested-tuple tree re-rooted on the branch above `target` subtree (a sub-tuple or leaf of tree)"""
    # path from root to target
    def find(t, path):
        if t == target:
            return path
        if isinstance(t, tuple):
            for k, c in enumerate(t):
                r = find(c, path + [(t, k)])
                if r is not None:
                    return r
        return None
    path = find(tree, [])
    if not path:
        return tree
    # walk up: new tree = (target, rest) where rest is built by inverting the path
    up = None
    for parent, k in path:
        sibling = parent[1 - k]
        up = sibling if up is None else (sibling, up)
        # moving the root through `parent`: its other child joins what was above
    # rebuild properly: iterate from the root down
    above = None
    for parent, k in path:
        sibling = parent[1 - k]
        above = sibling if above is None else (above, sibling)
    return (target, above)


def _swap_all(t):
    if isinstance(t, tuple):
        return (_swap_all(t[1]), _swap_all(t[0]))
    return t


def _subtrees(t):
    yield t
    if isinstance(t, tuple):
        for c in t:
            yield from _subtrees(c)


def ob_keep_branch_lengths(tier, seed):
    def body():
        from torchtree.core.utils import process_object
        rng = random.Random(seed)
        n = 0
        for T in (3, 4, 5):
            tl = list(trees.all_rooted_binary(list(range(T))))
            for tree in (tl if T <= 4 else rng.sample(tl, 20)):
                names = NAMES[:T]
                lens = {}

                def length(s):
                    v = round(rng.uniform(0.05, 2.0), 3)
                    lens[repr(s)] = v
                    return v
                newick = trees.to_newick(tree, names, length)
                taxa_order = rng.sample(names, T)
                spec = {"id": "tree", "type": "UnRootedTreeModel", "newick": newick, "keep_branch_lengths": True,
                        "branch_lengths": {"id": "bl", "type": "Parameter", "tensor": [0.0] * (2 * T - 3)},
                        "taxa": {"id": "taxa", "type": "Taxa", "taxa": [{"id": nm, "type": "Taxon"} for nm in taxa_order]}}
                tm = process_object(spec, {})
                got = tm.branch_lengths().tolist()
                nodes, root = trees.index_tree(trees.parse_newick(newick), taxa_order)
                rc = nodes[root]["children"]
                want = []
                for i in range(2 * T - 3):
                    if i in rc:
                        want.append(nodes[rc[0]]["length"] + nodes[rc[1]]["length"])
                    else:
                        want.append(nodes[i]["length"])
                n += 1
                if len(got) != len(want) or any(abs(a - b) > 1e-9 for a, b in zip(got, want)):
                    raise Refuted("keep_branch_lengths: %s with taxa %s gives %s, expected %s (root branches summed)" % (newick, taxa_order, got, want),
                                  witness={"newick": newick, "taxa": taxa_order, "got": got, "want": want}, confirmed=True)
        return {"backend": "enum", "cases": n, "statement": "from_json(keep_branch_lengths): each branch keeps its newick length, the two root branches are summed onto the surviving one"}
    return Ob("C02.keep_branch_lengths", "B", body, clause="root branch collapsed with lengths summed", funcs=FUNCS)


def ob_date_origin():
    """sampling dates are calendar dates up to the choice of origin: the same tree with branch lengths kept from the NEWICK string and dates
    written as years (2018, 2019.5, ...), relative to the first sample, or relative to the LAST sample (<= 0, the largest 0) gives the same
    node heights above the youngest tip and the same branch lengths"""
    def body():
        from torchtree.evolution.tree_model import ReparameterizedTimeTreeModel as R, TimeTreeModel as TT
        n = 0
        cases = [("((A:1,B:2):2,C:5);", {"A": 2018.0, "B": 2019.0, "C": 2020.0}, 1, [1.0, 2.0, 5.0, 2.0]),
                 ("((A:1.5,B:1):1,(C:2,D:1.25):0.5);", {"A": 2019.5, "B": 2019.0, "C": 2020.0, "D": 2019.25}, 2, None)]
        for newick, dates, nint, want_bl in cases:
            results = {}
            for origin in (0.0, 2000.0, max(dates.values()), min(dates.values()) - 3.0):
                d = {k: v - origin for k, v in dates.items()}
                for cls, kw in ((R, {"ratios": [0.5] * (nint), "root_height": [50.0]}), (TT, None)):
                    if cls is R:
                        spec = R.json_factory("tree", newick, d, keep_branch_lengths=True, **kw)
                    else:
                        spec = TT.json_factory("tree", newick, [1.0] * (nint + 1), d, keep_branch_lengths=True)
                    m = cls.from_json(spec, {})
                    results[(cls.__name__, origin)] = (m.node_heights.tolist(), m.branch_lengths().tolist())
                    n += 1
            for cname in ("ReparameterizedTimeTreeModel", "TimeTreeModel"):
                ref = results[(cname, 0.0)]
                if want_bl is not None and any(abs(a - b) > 1e-9 for a, b in zip(ref[1], want_bl)):
                    raise Refuted("%s from %s with dates %s (keep_branch_lengths): branch lengths %s, the string says %s" % (cname, newick, dates, ref[1], want_bl),
                                  witness={"newick": newick, "dates": dates}, confirmed=True, replay={"kind": "custom", "contract": "C02", "func": "replay_date_origin", "args": {}})
                for (cn, origin), val in results.items():
                    if cn == cname and any(abs(a - b) > 1e-9 for a, b in zip(val[0] + val[1], ref[0] + ref[1])):
                        raise Refuted("%s from %s (keep_branch_lengths): with the dates written relative to %s the node heights / branch lengths are %s, with calendar years %s" % (
                            cname, newick, origin, val, ref), witness={"newick": newick, "dates": dates, "origin": origin}, confirmed=True,
                            replay={"kind": "custom", "contract": "C02", "func": "replay_date_origin", "args": {}})
        return {"backend": "concrete", "cases": n, "bounded": "2 trees x 4 origins x 2 tree-model classes",
                "statement": "node heights and branch lengths kept from the NEWICK string do not depend on the origin of the calendar (%d models)" % n}
    return Ob("C02.date_origin[keep_branch_lengths]", "B", body, clause="invariance to the origin of the calendar dates (bounded)", funcs=FUNCS)


def replay_date_origin(args):
    try:
        ob_date_origin().fn()
    except Refuted as e:
        return False, e.detail
    return True, "held"


def ob_datatype_consistency():
    """tip states vs tip partials with ambiguities treated as missing, at the level of the data-type tables (finite, exhaustive):
    partial(c, use_ambiguities=False) is the indicator of encoding(c), or all ones when encoding(c) is the unknown state"""
    def body():
        from torchtree.evolution.datatype import AminoAcidDataType, CodonDataType, GeneralDataType, NucleotideDataType
        n = 0
        cases = [("nucleotide", NucleotideDataType(None), [chr(c) for c in range(33, 127)]),
                 ("amino acid", AminoAcidDataType(None), [chr(c) for c in range(33, 127)]),
                 ("general", GeneralDataType(None, ("X", "Y", "Z"), {"W": ["X", "Y"], "V": "Z", "U": ["X", "Y", "Z"]}), ["X", "Y", "Z", "W", "V", "U", "?", "-"]),
                 ("codon", CodonDataType(None, "Universal"), ["AAA", "ACG", "TAA", "---", "A-C", "NNN", "TTT"])]
        for name, dt, symbols in cases:
            S = dt.state_count
            for c in symbols:
                try:
                    st = min(int(dt.encoding(c)), S)
                except Exception:
                    continue
                if name == "codon" and c == "TAA":
                    continue   # stop codon in the data: not constrained
                got = tuple(float(v) for v in dt.partial(c, False))
                want = tuple(1.0 for _ in range(S)) if st >= S else tuple(1.0 if i == st else 0.0 for i in range(S))
                n += 1
                if got != want:
                    raise Refuted("%s data type, symbol %r: tip state is %s but the tip partial with ambiguities as missing is %s" % (name, c, "unknown" if st >= S else st, got),
                                  witness={"datatype": name, "symbol": c, "state": st, "partial": got}, confirmed=True)
        return {"backend": "enum", "cases": n, "statement": "partial(c, use_ambiguities=False) = indicator of encoding(c), all ones for the unknown state"}
    return Ob("C02.datatype.states_vs_partials", "V", body, clause="tip states ≡ tip partials with ambiguities as missing (data-type tables, exhaustive)", funcs=FUNCS)


def ob_reroot_numeric(seed):
    """bounded stand-in: re-rooting under the real HKY / GTR models at random parameter values"""
    def body():
        from torchtree.core.parameter import Parameter
        from torchtree.evolution.substitution_model.nucleotide import GTR, HKY
        from vt.scenario import MkNum
        rng = random.Random(seed)
        n = 0
        worst = 0.0
        for T in (4, 5):
            names = NAMES[:T]
            tl = list(trees.all_rooted_binary(list(range(T))))
            for tree in rng.sample(tl, 4):
                descA = {"newick": trees.to_newick(tree, names), "taxa": names, "seq_order": names, "cols": list(range(6))}
                for target in list(_subtrees(tree))[1:]:
                    tb = _reroot(tree, target)
                    descB = {"newick": trees.to_newick(tb, names), "taxa": names, "seq_order": names, "cols": list(range(6))}
                    for kind in ("HKY", "GTR"):
                        pi = torch.tensor([rng.uniform(0.1, 1) for _ in range(4)], dtype=torch.float64)
                        pi = pi / pi.sum()
                        if kind == "HKY":
                            sub = lambda: HKY("m", Parameter("k", torch.tensor([rng.uniform(0.5, 5)], dtype=torch.float64)), Parameter("f", pi))
                        else:
                            rates = torch.tensor([rng.uniform(0.2, 3) for _ in range(6)], dtype=torch.float64)
                            sub = lambda: GTR("m", Parameter("r", rates), Parameter("f", pi))
                        state = rng.getstate()
                        vals = []
                        for desc in (descA, descB):
                            rng.setstate(state)
                            env = {}
                            mk = MkNum(env)
                            allnames = frozenset(names)
                            nodesA, _ = trees.index_tree(trees.parse_newick(descA["newick"]), names)
                            keys = []
                            for i in range(2 * T - 2):
                                cl = _clades(i, nodesA)
                                key = min(tuple(sorted(cl)), tuple(sorted(allnames - cl)))
                                if key not in keys:
                                    keys.append(key)
                            r2 = random.Random(12345 + n)
                            blsym = {k: r2.uniform(0.01, 1.0) for k in keys}
                            m = _build(mk, desc, T, blsym, "JC69", None)
                            m.subst_model = sub()
                            vals.append(float(m()))
                        n += 1
                        err = abs(vals[0] - vals[1]) / max(1, abs(vals[0]))
                        worst = max(worst, err)
                        if err > 1e-9:
                            raise Refuted("re-rooting changes the log-likelihood under %s: %r vs %r (%s -> %s)" % (kind, vals[0], vals[1], descA["newick"], descB["newick"]),
                                          witness={"A": descA["newick"], "B": descB["newick"], "model": kind, "values": vals}, confirmed=True)
        return {"backend": "concrete", "cases": n, "statement": "max relative difference %.1e" % worst}
    return Ob("C02.reroot.numeric[HKY,GTR]", "B", body, clause="pulley principle with the real reversible models (bounded)", funcs=FUNCS)


def obligations(tier, seed):
    rng = random.Random(seed)
    obs = []

    def add(name, args, clause, **kw):
        obs.append(scenario_ob("C02", name, "V", "scn_relational", args, clause=clause, funcs=FUNCS, seed=seed,
                               fns={"P": lambda t, i, j: C01._pfun(t, i, j, 4)}, **kw))

    for T in (3, 4, 5):
        names = NAMES[:T]
        tl = list(trees.all_rooted_binary(list(range(T))))
        picks = tl if T == 3 else rng.sample(tl, (4 if T == 4 else 2) if tier == "quick" else (15 if T == 4 else 8))
        for k, tree in enumerate(picks):
            base = {"newick": trees.to_newick(tree, names), "taxa": names, "seq_order": names, "cols": list(range(4 if T >= 5 else 6))}
            ncol = len(base["cols"])
            # children order. Below the root: any model (contract stub). At the root of an unrooted tree the swap moves the
            # implied root along the root branch, which is a root move: needs reversibility (JC69 exact, see re-rooting).
            sh = (trees.shuffle_children(tree[0], rng), trees.shuffle_children(tree[1], rng)) if isinstance(tree, tuple) else tree
            sh = (_swap_all(tree[0]), _swap_all(tree[1])) if sh == tree else sh
            b = dict(base, newick=trees.to_newick(sh, names))
            add("C02.children_order[%s -> %s]" % (base["newick"], b["newick"]), (T, base, b, "stub"), "children order (below the root, any model)")
            b = dict(base, newick=trees.to_newick(_swap_all(tree), names))
            add("C02.children_order.root[%s -> %s]" % (base["newick"], b["newick"]), (T, base, b, "JC69"), "children order including the root (reversible model)")
            # taxa order + sequence order
            b = dict(base, taxa=rng.sample(names, T), seq_order=rng.sample(names, T))
            add("C02.taxa_and_sequence_order[%s,taxa=%s,seqs=%s]" % (base["newick"], "".join(b["taxa"]), "".join(b["seq_order"])), (T, base, b, "stub"), "taxa / sequence order")
            # column order, with a duplicated column merged into a weighted pattern
            a2 = dict(base, cols=base["cols"] + [base["cols"][0]])
            b = dict(a2, cols=list(reversed(a2["cols"])))
            add("C02.column_order[%s]" % base["newick"], (T, a2, b, "stub"), "column order / merged patterns")
            # the alignment and the tree model hold two Taxa objects listing the same taxa in different orders
            for tip_states in ((False, True) if k == 0 else (False,)):
                b = dict(base, aln_taxa=list(reversed(names)) if k % 2 == 0 else rng.sample(names, T), tip_states=tip_states)
                add("C02.separate_taxa_objects[%s,alignment taxa=%s,tipstates=%s]" % (base["newick"], "".join(b["aln_taxa"]), tip_states),
                    (T, dict(base, tip_states=tip_states), b, "stub"), "tip data matched to leaves by taxon name (alignment with a Taxa object of its own)")
            # columns that differ only in WHICH ambiguity code a taxon carries: distinct patterns when ambiguities are honoured
            if T <= 4:
                for amb in (True, False):
                    a5 = dict(base, cols=[4, 9, 10, 0, 9], use_amb=amb)
                    b = dict(a5, cols=[9, 10, 0, 4, 9])
                    add("C02.column_order.ambiguity_codes[%s,use_ambiguities=%s]" % (base["newick"], amb), (T, a5, b, "stub"),
                        "column order / merged patterns (columns equal up to the ambiguity code)")
                b = dict(base, cols=[10, 9, 4], tip_states=True)
                add("C02.column_order.ambiguity_codes[%s,tip states]" % base["newick"], (T, dict(base, cols=[4, 9, 10], tip_states=True), b, "stub"),
                    "column order / merged patterns (columns equal up to the ambiguity code)")
            # NEWICK rooting comment: '[&R]' / '[&U]' in front of the string is part of the notation, not of the tree
            for tag in ("[&U]", "[&R]"):
                if tag == "[&R]" and k % 2:
                    continue
                b = dict(base, tag=tag)
                add("C02.rooting_tag[%s%s]" % (tag, base["newick"]), (T, base, b, "stub"), "NEWICK rooting tag")
            # the mutable Taxa / Alignment lists edited between their construction and the construction of the models
            for edit in (("aln.sort", "aln.reverse", "taxa.reverse", "taxa.sort") if k == 0 or tier == "thorough" else ("aln.reverse", "taxa.reverse")):
                for tip_states in ((False, True) if k == 0 else (False,)):
                    a4 = dict(base, taxa=rng.sample(names, T), seq_order=rng.sample(names, T), tip_states=tip_states)
                    b = dict(a4, edit=edit)
                    add("C02.list_edit[%s,%s,taxa=%s,seqs=%s,tipstates=%s]" % (base["newick"], edit, "".join(a4["taxa"]), "".join(a4["seq_order"]), tip_states),
                        (T, a4, b, "stub"), "Taxa / Alignment lists reordered after construction")
            # tip states vs tip partials with ambiguities as missing
            a3 = dict(base, use_amb=False)
            b = dict(base, tip_states=True)
            add("C02.tip_states_vs_partials[%s]" % base["newick"], (T, a3, b, "stub"), "tip states ≡ tip partials (ambiguities as missing)")
            # root placement (JC69 exact)
            subs = list(_subtrees(tree))[1:]
            if tier == "quick" and T >= 4:
                subs = rng.sample(subs, 2)
            for target in subs:
                tb = _reroot(tree, target)
                b = dict(base, newick=trees.to_newick(tb, names))
                add("C02.reroot.JC69[%s -> %s]" % (base["newick"], b["newick"]), (T, base, b, "JC69"), "root placement (pulley principle, JC69 exact)")
    # a selection of columns written as the 'indices' option of the site pattern instead of by editing the sequences
    for T, tree in ((3, ((0, 1), 2)), (4, ((0, 3), (1, 2)))):
        names = NAMES[:T]
        nw = trees.to_newick(tree, names)
        for spec, cols in (("0:3,3:6", [0, 1, 2, 3, 4, 5]), ("3:6,0:3", [3, 4, 5, 0, 1, 2]), ("0:8:2,1:8:2", [0, 2, 4, 6, 1, 3, 5, 7]), ("5,4,3,2,1,0", [5, 4, 3, 2, 1, 0]),
                           ("0:4,6,-1", [0, 1, 2, 3, 6, 8]), ("2::3", [2, 5, 8]), ("-3:", [6, 7, 8])):
            a6 = {"newick": nw, "taxa": names, "seq_order": names, "cols": cols}
            b6 = {"newick": nw, "taxa": names, "seq_order": names, "cols": list(range(9)), "indices": spec}
            for ts_ in ((False, True) if T == 3 else (False,)):
                add("C02.site_indices[%s,indices=%s,tipstates=%s]" % (nw, spec, ts_), (T, dict(a6, tip_states=ts_), dict(b6, tip_states=ts_), "stub"),
                    "column selection through the 'indices' option")
    # leaf numbering option of the tree specification (fixed cases: the names of these obligations do not depend on the seed)
    for newick, order in (("((A,C),B);", "CBA"), ("((A,C),B);", "ACB"), ("((A,D),(B,C));", "DCBA"), ("(((A,B),C),(D,E));", "EDCBA"), ("(((A,B),C),(D,E));", "ABCDE")):
        T = len(order)
        a5 = {"newick": newick, "taxa": list(order), "seq_order": NAMES[:T], "cols": list(range(4 if T >= 5 else 6))}
        add("C02.use_postorder_indices[%s,taxa=%s]" % (newick, order), (T, a5, dict(a5, postorder=True), "stub"), "leaf numbering option (use_postorder_indices)")
    # one SitePattern shared by models with different options, every declaration order
    V3 = [{"use_amb": True}, {"use_amb": False}, {"tip_states": True}]
    base3 = {"newick": trees.to_newick(((0, 1), 2), NAMES[:3]), "taxa": NAMES[:3], "seq_order": NAMES[:3], "cols": list(range(9))}
    base4 = {"newick": trees.to_newick(((0, 3), (1, 2)), NAMES[:4]), "taxa": NAMES[:4], "seq_order": NAMES[:4], "cols": [3, 4, 7, 8]}
    import itertools as _it
    for order in _it.permutations(range(3)):
        vs = [V3[i] for i in order]
        obs.append(scenario_ob("C02", "C02.shared_site_pattern[T=3,order=%s]" % ",".join("+".join(sorted(v)) + "=" + str(list(v.values())[0]) for v in vs), "V",
                               "scn_shared_site_pattern", (3, base3, vs), clause="a shared SitePattern / the declaration order of the models does not change the likelihood",
                               funcs=FUNCS, seed=seed, fns={"P": lambda t, i, j: C01._pfun(t, i, j, 4)}))
    for vs in ([V3[0], V3[1]], [V3[1], V3[0]], [V3[0], V3[2]], [V3[2], V3[0]]):
        obs.append(scenario_ob("C02", "C02.shared_site_pattern[T=4,order=%s]" % ",".join("+".join(sorted(v)) + "=" + str(list(v.values())[0]) for v in vs), "V",
                               "scn_shared_site_pattern", (4, base4, vs), clause="a shared SitePattern / the declaration order of the models does not change the likelihood",
                               funcs=FUNCS, seed=seed, fns={"P": lambda t, i, j: C01._pfun(t, i, j, 4)}))
    for ts_, K_, b_ in (("((0,1),2)", 2, ()), ("((0,1),2)", 2, (2,)), ("((0,1),2)", 2, (3,)), ("((0,1),(2,3))", 3, (3,)), ("(0,(1,(2,3)))", 1, (2,))):
        T_ = ts_.count(",") + 1
        obs.append(scenario_ob("C02", "C02.tip_states_vs_partials.rescaled[tree=%s,K=%d,batch=%s]" % (ts_, K_, b_), "V", "scn_states_vs_partials_rescaled",
                               (ts_, K_, b_, [[(i + n) % 2 for n in range(2)] for i in range(T_)]),
                               clause="tip states ≡ tip partials in rescaling mode, with a sample dimension", funcs=FUNCS, seed=seed))
    obs.append(ob_keep_branch_lengths(tier, seed))
    obs.append(ob_datatype_consistency())
    obs.append(ob_date_origin())
    obs.append(ob_reroot_numeric(seed))
    return obs
